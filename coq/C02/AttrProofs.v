(* C02 — proofs about attribute resolution and introspection (AttrModel.v vs AttrSpec.v). *)
From Coq Require Import ZArith List Bool String Ascii Lia.
Import ListNotations.
From KD Require Import C02.AttrModel C02.AttrSpec.
Open Scope Z_scope.

Section AStackInd.
  Variable P : astack -> Prop.
  Hypothesis HRoot : forall n, P (ARoot n).
  Hypothesis HSub : forall n s, P s -> P (ASub n s).
  Hypothesis HCat : forall n parts, Forall P parts -> P (ACat n parts).
  Hypothesis HWrap : forall n s, P s -> P (AWrap n s).
  Hypothesis HMode : forall n s, P s -> P (AMode n s).
  Fixpoint astack_ind' (s : astack) : P s :=
    match s with
    | ARoot n => HRoot n
    | ASub n s' => HSub n s' (astack_ind' s')
    | ACat n parts =>
        HCat n parts ((fix go (ps : list astack) : Forall P ps :=
                         match ps with
                         | [] => Forall_nil P
                         | p :: ps' => Forall_cons p (astack_ind' p) (go ps')
                         end) parts)
    | AWrap n s' => HWrap n s' (astack_ind' s')
    | AMode n s' => HMode n s' (astack_ind' s')
    end.
End AStackInd.

(* ---------------- names ---------------- *)
Lemma plain_name_inv name : plain_name name = true ->
  is_getdim name = false /\ is_getitem name = false /\ is_getall name = false /\ String.eqb name "__getitems__" = false.
Proof.
  unfold plain_name. intros H. apply negb_true_iff in H.
  apply orb_false_iff in H as [H H4]. apply orb_false_iff in H as [H H3]. apply orb_false_iff in H as [H1 H2]. auto.
Qed.

Lemma getshape_plain k : plain_name ("getshape_" ++ k) = true.
Proof. reflexivity. Qed.

Lemma prefix_cons a s1 b s2 :
  prefix (String a s1) (String b s2) = (if ascii_dec a b then prefix s1 s2 else false).
Proof. reflexivity. Qed.

(* a getdim_ name is no getitem_ / getall_ / __getitems__ name *)
Lemma getdim_not_special name : is_getdim name = true ->
  is_getitem name = false /\ is_getall name = false /\ String.eqb name "__getitems__" = false.
Proof.
  unfold is_getdim, is_getitem, is_getall. intros H.
  destruct name as [|a0 name]; [discriminate|]. rewrite prefix_cons in H.
  destruct (ascii_dec "g"%char a0) as [<-|]; [|discriminate].
  destruct name as [|a1 name]; [discriminate|]. rewrite prefix_cons in H.
  destruct (ascii_dec "e"%char a1) as [<-|]; [|discriminate].
  destruct name as [|a2 name]; [discriminate|]. rewrite prefix_cons in H.
  destruct (ascii_dec "t"%char a2) as [<-|]; [|discriminate].
  destruct name as [|a3 name]; [discriminate|]. rewrite prefix_cons in H.
  destruct (ascii_dec "d"%char a3) as [<-|]; [|discriminate].
  repeat split; reflexivity.
Qed.

(* ---------------- linear chains: plain names ---------------- *)
Lemma alookup_chain_plain ls r name : plain_name name = true ->
  alookup (abuild ls r) name = LRes (nearest (nodes_of ls r) name).
Proof.
  intros Hp. destruct (plain_name_inv name Hp) as (H1 & H2 & H3 & H4).
  induction ls as [|[k n] ls IH]; unfold nodes_of in *; simpl.
  - destruct (own r name); [reflexivity|]. rewrite H1. reflexivity.
  - destruct k; unfold aapply; simpl; destruct (own n name); try reflexivity.
    + rewrite H2, H3. simpl. exact IH.
    + rewrite H1. exact IH.
    + rewrite H4. exact IH.
Qed.

Lemma attr_nearest ls r name : plain_name name = true ->
  aquery (abuild ls r) name = nearest (nodes_of ls r) name.
Proof. intros Hp. unfold aquery. rewrite alookup_chain_plain by exact Hp. reflexivity. Qed.

(* nearest in terms of positions: the answering node is the first one that defines the name *)
Lemma nearest_first ns name : forall x,
  nearest ns name = x -> x <> AMissing ->
  exists i n, nth_error ns i = Some n /\ own n name = Some x /\
              forall j m, (j < i)%nat -> nth_error ns j = Some m -> own m name = None.
Proof.
  induction ns as [|n ns IH]; intros x Hx Hne; simpl in Hx; [congruence|].
  destruct (own n name) as [y|] eqn:E.
  - subst y. exists 0%nat, n. split; [reflexivity|]. split; [exact E|]. intros j m Hj. lia.
  - destruct (IH x Hx Hne) as (i & n' & Hi & Ho & Hb). exists (S i), n'. split; [exact Hi|]. split; [exact Ho|].
    intros j m Hj Hm. destruct j; simpl in Hm; [inversion Hm; subst; exact E|]. eapply Hb; eauto. lia.
Qed.

Lemma nearest_missing ns name : nearest ns name = AMissing ->
  forall n, In n ns -> own n name = None \/ own n name = Some AMissing.
Proof.
  induction ns as [|m ns IH]; intros H n Hin; [destruct Hin|]. simpl in H.
  destruct (own m name) as [y|] eqn:E.
  - destruct Hin as [<-|Hin]; [right; congruence|]. subst y.
    (* own never answers AMissing *) exfalso. unfold own in E.
    destruct (cfind name (n_cls m)) as [[]|]; try destruct (smem name (n_inst m)); congruence.
  - destruct Hin as [<-|Hin]; [left; exact E|]. apply IH; assumption.
Qed.

(* ---------------- linear chains: the getdim_ alias ---------------- *)
Lemma aquery_pass_sub n s name :
  own n name = None -> is_getitem name = false -> is_getall name = false ->
  aquery (ASub n s) name = aquery s name.
Proof. intros Ho H1 H2. unfold aquery. cbn [alookup dim_site]. rewrite Ho, H1, H2. reflexivity. Qed.

Lemma aquery_pass_mode n s name :
  own n name = None -> String.eqb name "__getitems__" = false ->
  aquery (AMode n s) name = aquery s name.
Proof. intros Ho H1. unfold aquery. cbn [alookup dim_site]. rewrite Ho, H1. reflexivity. Qed.

Lemma getdim_chain ls r name :
  is_getdim name = true ->
  Forall (fun n => own n name = None) (nodes_of ls r) ->
  aquery (abuild ls r) name =
  shape1 (nearest (nodes_of (skip_to_kd ls) r) ("getshape_" ++ dim_kind name)).
Proof.
  intros Hd. destruct (getdim_not_special name Hd) as (H2 & H3 & H4).
  induction ls as [|[k n] ls IH]; intros Hall.
  - unfold nodes_of in Hall. simpl in Hall. inversion Hall as [|? ? Hr _]; subst.
    unfold aquery. cbn [abuild fold_right alookup]. rewrite Hr, Hd. cbn [dim_site]. rewrite Hr. unfold getdim_at.
    change (ARoot r) with (abuild [] r). rewrite alookup_chain_plain by apply getshape_plain.
    simpl skip_to_kd. unfold shape1. destruct (nearest (nodes_of [] r) _); reflexivity.
  - unfold nodes_of in Hall. simpl in Hall. inversion Hall as [|? ? Hn Hrest]; subst.
    destruct k.
    + (* KDSubset passes the request on *)
      change (abuild ((LKSub, n) :: ls) r) with (ASub n (abuild ls r)).
      rewrite aquery_pass_sub by assumption. simpl skip_to_kd. apply IH. exact Hrest.
    + (* KDWrapper answers it with its own getdim *)
      change (abuild ((LKWrap, n) :: ls) r) with (AWrap n (abuild ls r)).
      unfold aquery. cbn [alookup]. rewrite Hn, Hd. cbn [dim_site]. rewrite Hn. unfold getdim_at.
      change (AWrap n (abuild ls r)) with (abuild ((LKWrap, n) :: ls) r).
      rewrite alookup_chain_plain by apply getshape_plain.
      unfold shape1. destruct (nearest _ _); reflexivity.
    + change (abuild ((LKMode, n) :: ls) r) with (AMode n (abuild ls r)).
      rewrite aquery_pass_mode by assumption. simpl skip_to_kd. apply IH. exact Hrest.
Qed.

(* when the layers above the first KDDataset-family layer do not define getshape_<kind> themselves, the nearest
   provider seen from that layer is the nearest provider seen from the top *)
Lemma nearest_skip ls r g :
  (forall l, In l ls -> is_kd l = false -> own (snd l) g = None) ->
  nearest (nodes_of (skip_to_kd ls) r) g = nearest (nodes_of ls r) g.
Proof.
  induction ls as [|l ls IH]; intros H; [reflexivity|]. simpl.
  destruct (is_kd l) eqn:E; [reflexivity|].
  unfold nodes_of. simpl. rewrite (H l (or_introl eq_refl) E). apply IH.
  intros l' Hin. apply H. right; exact Hin.
Qed.

Lemma getdim_is_getshape0 ls r name :
  is_getdim name = true ->
  Forall (fun n => own n name = None) (nodes_of ls r) ->
  (forall l, In l ls -> is_kd l = false -> own (snd l) ("getshape_" ++ dim_kind name) = None) ->
  aquery (abuild ls r) name = shape1 (aquery (abuild ls r) ("getshape_" ++ dim_kind name)).
Proof.
  intros Hd Hall Hs. rewrite getdim_chain by assumption. rewrite nearest_skip by exact Hs.
  rewrite attr_nearest by apply getshape_plain. reflexivity.
Qed.

(* ---------------- concat: the first part answers ---------------- *)
Lemma attr_concat_first_part n p ps name :
  own n name = None -> is_getitem name = false -> is_getall name = false ->
  aquery (ACat n (p :: ps)) name = aquery p name.
Proof. intros Ho H1 H2. unfold aquery. cbn [alookup dim_site]. rewrite Ho, H1, H2. reflexivity. Qed.

(* ---------------- introspection of linear chains ---------------- *)
Definition no_mode (ls : list alayer) : Prop := Forall (fun l => fst l <> LKMode) ls.

Definition wrap_fo (l : alayer) : list Z := if is_kd l then bo_fo (n_bo (snd l)) else [].

Lemma afused_chain ls r : no_mode ls ->
  afused (abuild ls r) = Some (bo_fo (n_bo r) ++ flat_map wrap_fo (rev ls)).
Proof.
  induction ls as [|[k n] ls IH]; intros H; simpl.
  - now rewrite app_nil_r.
  - inversion H as [|? ? Hk Hr]; subst. specialize (IH Hr).
    destruct k; unfold aapply; simpl; try (now elim Hk).
    + rewrite IH. rewrite flat_map_app. simpl. now rewrite app_nil_r.
    + rewrite IH. rewrite flat_map_app. simpl. unfold wrap_fo at 2. simpl. now rewrite app_nil_r, app_assoc.
Qed.

Lemma areq_chain ls r : no_mode ls ->
  areq (abuild ls r) = Some (existsb (fun l => is_kd l && bo_req (n_bo (snd l))) ls || bo_req (n_bo r)).
Proof.
  induction ls as [|[k n] ls IH]; intros H; simpl; [reflexivity|].
  inversion H as [|? ? Hk Hr]; subst. specialize (IH Hr).
  destruct k; unfold aapply; simpl; try (now elim Hk).
  - exact IH.
  - destruct (bo_req (n_bo n)); [reflexivity|]. exact IH.
Qed.

Lemma afused_mode n s : afused (AMode n s) = None /\ areq (AMode n s) = None.
Proof. split; reflexivity. Qed.

Lemma acoll_chain ls r : acoll (abuild ls r) = bo_coll (n_bo r).
Proof. induction ls as [|[[] n] ls IH]; simpl; auto. Qed.

Lemma aroot_chain ls r : aroot (abuild ls r) = n_uid r.
Proof. induction ls as [|[[] n] ls IH]; simpl; auto. Qed.

Lemma awrappers_chain ls r : awrappers (abuild ls r) = map (fun l => n_uid (snd l)) ls.
Proof. induction ls as [|[[] n] ls IH]; simpl; auto; now rewrite IH. Qed.

Lemma ahas_wrapper_chain w ls r :
  ahas_wrapper w (abuild ls r) = existsb (fun l => n_uid (snd l) =? w) ls.
Proof.
  induction ls as [|[[] n] ls IH]; simpl; auto; unfold aapply; simpl; rewrite IH; destruct (n_uid n =? w); reflexivity.
Qed.

Lemma adispose_chain ls r : adispose (abuild ls r) = [n_uid r].
Proof. induction ls as [|[[] n] ls IH]; simpl; auto. Qed.

Lemma awreach_chain ls r :
  awreach (abuild ls r) = map (fun l => n_uid (snd l)) (filter is_kd ls) ++ [n_uid r].
Proof. induction ls as [|[[] n] ls IH]; simpl; auto; unfold aapply; simpl; now rewrite IH. Qed.

Lemma abuild_aunbuild s ls r : aunbuild s = Some (ls, r) -> abuild ls r = s.
Proof.
  revert ls r. induction s as [n | n s IH | n parts IH | n s IH | n s IH] using astack_ind'; intros ls r H; simpl in H;
    try discriminate; try (inversion H; subst; reflexivity);
    destruct (aunbuild s) as [[ls' r']|]; try discriminate; inversion H; subst; simpl; unfold aapply; simpl;
    now rewrite (IH ls' r eq_refl).
Qed.

(* ---------------- any nesting: what dispose / worker_init_fn reach ---------------- *)
Lemma filter_flat_map {A B} (p : B -> bool) (f : A -> list B) l :
  filter p (flat_map f l) = flat_map (fun x => filter p (f x)) l.
Proof. induction l as [|x l IH]; simpl; [reflexivity|]. now rewrite filter_app, IH. Qed.

Lemma map_flat_map {A B C} (g : B -> C) (f : A -> list B) l :
  map g (flat_map f l) = flat_map (fun x => map g (f x)) l.
Proof. induction l as [|x l IH]; simpl; [reflexivity|]. now rewrite map_app, IH. Qed.

Lemma flat_map_ext_forall {A B} (f g : A -> list B) l :
  Forall (fun x => f x = g x) l -> flat_map f l = flat_map g l.
Proof. induction 1 as [|x l Hx _ IH]; simpl; [reflexivity|]. now rewrite Hx, IH. Qed.

Lemma adispose_roots s : adispose s = uids_of_kind (Nat.eqb 0) s.
Proof.
  unfold uids_of_kind.
  induction s as [n | n s IH | n parts IH | n s IH | n s IH] using astack_ind'; simpl; auto.
  rewrite filter_flat_map, map_flat_map. apply flat_map_ext_forall. exact IH.
Qed.

Lemma awreach_nodes s : awreach s = uids_of_kind (fun k => Nat.eqb k 0 || Nat.eqb k 1) s.
Proof.
  unfold uids_of_kind.
  induction s as [n | n s IH | n parts IH | n s IH | n s IH] using astack_ind'; simpl; auto.
  - rewrite filter_flat_map, map_flat_map. apply flat_map_ext_forall. exact IH.
  - now rewrite IH.
Qed.

(* ---------------- get_wrapper_of_type ---------------- *)
Lemma wrapper_of_type_spec ws :
  (wrapper_of_type ws = inl None <-> ws = []) /\
  (forall p, wrapper_of_type ws = inl (Some p) <-> ws = [p]) /\
  (wrapper_of_type ws = inr tt <-> (2 <= List.length ws)%nat).
Proof.
  destruct ws as [|a [|b ws]]; simpl; repeat split; intros; try congruence; try lia; try discriminate.
Qed.

(* ---- the kind a getdim_ alias resolves is EXACTLY what follows "getdim_" (underscores, digits, anything) ---- *)
Lemma substring_all k : substring 0 (String.length k) k = k.
Proof. induction k as [|c k IH]; simpl; [reflexivity | now rewrite IH]. Qed.

Lemma getdim_kind_exact k : is_getdim ("getdim_" ++ k) = true /\ dim_kind ("getdim_" ++ k) = k.
Proof.
  split; [destruct k; reflexivity|].
  unfold dim_kind.
  replace (String.length ("getdim_" ++ k) - 7)%nat with (String.length k) by (simpl; lia).
  simpl. apply substring_all.
Qed.

(* hence on every chain: getdim_<k>() is getshape_<k>()[0] for that very k, seen from the first KDDataset-family layer *)
Lemma getdim_alias_exact_kind ls r k :
  Forall (fun n => own n ("getdim_" ++ k) = None) (nodes_of ls r) ->
  aquery (abuild ls r) ("getdim_" ++ k) =
  shape1 (nearest (nodes_of (skip_to_kd ls) r) ("getshape_" ++ k)).
Proof.
  intros H. destruct (getdim_kind_exact k) as [Hd Hk].
  rewrite (getdim_chain ls r _ Hd H). now rewrite Hk.
Qed.
