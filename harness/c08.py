"""C08 - seeded sample wrappers make sample i a pure function of (data, config, seed, i).

Proof side: coq/C07 (RngGraph.v + ModelC08.v + ProofsC08.v over the tables regenerated from the sources on every
run; PropertyC08.v).  Dynamic side (this module): real wrapper stacks with seeded sample wrappers (transform
wrappers for x / y / target / source, multi-view, BYOL / minaug / MUGS multi-view, sample-level mix, semseg) above
and below other wrappers are built twice, independently, under different global random states; both instances are
asked for samples in different random orders with repeats, the first with spy generators handed out by a patched
np.random.default_rng and the global-RNG tripwire armed.  Thorough tier: DataLoader(num_workers in {0,1,2,3}).
"""
import traceback

from . import rnglive as L
from . import rngstack as K
from . import translate_rng as T
from .common import coq, Raw

ID = "C08"
COQ_FILES = ["C07/RngGraph.v", "C07/gen/RngTable.v", "C07/Check.v", "C07/Proofs.v", "C07/TableProofs.v",
             "C07/ModelC08.v", "C07/CheckC08.v", "C07/ProofsC08.v", "C07/TableProofsC08.v", "C07/PropertyC08.v"]
COQ_PRELUDE = """From Coq Require Import ZArith List Bool String.
Import ListNotations.
From KD Require Import C07.RngGraph C07.gen.RngTable C07.Check C07.ModelC08 C07.CheckC08.
Open Scope string_scope.
"""
COQ_CHECK = "CheckC08.check"
COQ_CASE_TYPE = "CheckC08.case_t"
SHARD = 60
TRUSTED = L.TRUSTED_COMMON + [
    "harness/rngstack.py: patched np.random.default_rng (every generator created while a request runs is a spy tagged "
    "with the seed it was created from), class-level frames around the wrappers' per-item functions (draws are "
    "attributed to the innermost running request), live extraction of wrapper objects through vars()",
    "equal draw sequences give equal samples: torch / torchvision / PIL determinism (observed bit for bit between the "
    "spied and the plain instance, not proved)",
    "DataLoader runtime (index-to-worker assignment, fork copies of the dataset): exercised by the thorough tier only",
]
ASSUMPTIONS = [
    "wrapper stacks are trees: no transform instance is shared between two wrappers or two fields",
    "the other wrappers in the stack are deterministic (index remapping, label smoothing, deterministic transforms) or "
    "seeded themselves; an unseeded stochastic wrapper in the stack is outside the claim",
    "KDScheduledTransform members change strength with their own sample counter once worker_init_fn has run; that "
    "schedule is not randomness and is excluded from the DataLoader comparison",
    "different indices -> different streams is shown as: different seeds seed+i (injective); that differently seeded "
    "NumPy generators give unrelated streams is NumPy's property",
]
ALLOWED_AXIOMS = []
RULE = ("stacks: seeded X/Y/Target/Source transform wrapper over every container / registered class as direct "
        "transform plus random trees, KDMultiViewWrapper (1-3 configs), BYOL / minaug / MUGS multi-view and minaug-X "
        "wrappers on PIL data, KDMixWrapper, SemsegTransformWrapper; a second seeded layer and subset / shuffle / repeat "
        "/ label-smoothing wrappers above and below; two instances, two global states, two access orders with "
        "repeats; non-trivial = some request drew from its per-item generator and nothing raised; distinct by "
        "(stack signature, access-order shapes)")


def pre_build():
    T.regenerate()


def _info():
    if "info" not in T._LAST:
        T.regenerate()
    return T._LAST["info"]


# ---------------------------------------------------------------------------
# case generation
# ---------------------------------------------------------------------------
SEMSEG_X_ONLY = ["KDAdditiveGaussianNoise", "KDRandomColorJitter", "KDRandomGrayscale", "KDRandomSolarize",
                 "KDRandomAdditiveGaussianNoise", "KDColorJitter"]
DET_LEAVES = [{"c": "KDSolarize"}, {"c": "KDGrayscale"}]


def has_class(spec, name):
    return spec["c"] == name or any(has_class(k, name) for k in spec.get("k", []))


def img_tree(rng, S, no_sched=False):
    for _ in range(50):
        t = L.gen_tree(rng, rng.choice([1, 2, 2, 3]), S)
        if t["c"] == L.FOREIGN:
            t = {"c": "KDComposeTransform", "k": [t]}
        if no_sched and has_class(t, "KDScheduledTransform"):
            continue
        return t
    return {"c": "KDRandomHorizontalFlip", "a": 0}


def stochastic_leaf(rng):
    c = rng.choice(["KDRandomHorizontalFlip", "KDRandomCrop", "KDAdditiveGaussianNoise", "KDRandomErasing",
                    "KDRandomColorJitter", "KDRandomResizedCrop"])
    opts = [i for i, (kind, _) in enumerate(L.REG[c]) if kind == "img"]
    return {"c": c, "a": rng.choice(opts)}


def index_layer(rng, n):
    k = rng.choice(["SubsetWrapper", "ShuffleWrapper", "RepeatWrapper", "KDSubset"])
    if k in ("SubsetWrapper", "KDSubset"):
        m = rng.randrange(max(2, n // 2), n + 3)
        return {"w": k, "idx": [rng.randrange(n) for _ in range(m)]}
    if k == "ShuffleWrapper":
        return {"w": k, "seed": rng.randrange(100)}
    return {"w": k, "r": 2}


def _len_after(n, l):
    if l["w"] in ("SubsetWrapper", "KDSubset"):
        return len(l["idx"])
    if l["w"] == "RepeatWrapper":
        return n * l.get("r", 2)
    return n


def gen_stack(rng, family=None, no_sched=False):
    S = rng.choice([16, 16, 8])
    N = rng.choice([6, 8, 10])
    family = family or rng.choice(["x", "x", "x", "mv", "mv", "pil", "pil", "mix", "mix", "semseg", "two"])
    seed = lambda: rng.randrange(0, 10 ** 6)  # noqa
    layers = []
    n = N
    kind = "img"
    mode = "x"

    def maybe_index():
        nonlocal n
        if rng.random() < 0.45:
            l = index_layer(rng, n)
            layers.append(l)
            n = _len_after(n, l)

    if family == "pil":
        kind, S = "pil", 32
        maybe_index()
        w = rng.choice(["ByolMultiViewWrapper", "ImagenetMinaugMultiViewWrapper", "MUGSMultiViewWrapper",
                        "ImagenetMinaugXTransformWrapper", "XTransformWrapper", "KDMultiViewWrapper"])
        if w == "XTransformWrapper":
            c = rng.choice(["BYOLTransform", "MUGSStrongTransform", "ImagenetMinaugTransform", "KDRandAugment",
                            "KDThreeAugment", "MAEFinetuneTransform"])
            a = rng.randrange(len(L.REG[c]))
            t = {"c": c, "a": a}
            if c in ("KDRandAugment", "KDThreeAugment"):
                t = {"c": "KDComposeTransform", "k": [t]}
            layers.append({"w": w, "t": t, "seed": seed()})
        elif w == "KDMultiViewWrapper":
            cfg = [[rng.choice([1, 2]), {"c": rng.choice(["BYOLTransform0", "BYOLTransform1", "MUGSStrongLocalTransform",
                                                         "ImagenetMinaugTransform"]), "a": 0}]
                   for _ in range(rng.choice([1, 2]))]
            layers.append({"w": w, "cfg": cfg, "seed": seed()})
        else:
            layers.append({"w": w, "seed": seed(), "n": rng.choice([1, 2, 3]), "nloc": rng.choice([1, 2, 3])})
        maybe_index()
        mode = rng.choice(["x", "index x", "x class"])
    elif family == "semseg":
        maybe_index()
        ts = []
        for _ in range(rng.choice([1, 2, 3, 4])):
            r = rng.random()
            if r < 0.6:
                c = rng.choice(["KDSemsegRandomHorizontalFlip", "KDSemsegRandomResize", "KDSemsegRandomCrop"])
                ts.append({"c": c, "a": rng.randrange(len(L.REG[c]))})
            elif r < 0.9:
                c = rng.choice(SEMSEG_X_ONLY)
                opts = [i for i, (k_, _) in enumerate(L.REG[c]) if k_ == "img"]
                ts.append({"c": c, "a": rng.choice(opts)})
            else:
                ts.append({"c": "KDComposeTransform", "k": [{"c": "KDAdditiveGaussianNoise", "a": 0}]})
        layers.append({"w": "SemsegTransformWrapper", "ts": ts, "seed": seed()})
        # (no index layer above: with a fused operation in the stack ModeWrapper wants getitem_* on the top TYPE)
        mode = rng.choice(["x semseg", "index x semseg", "x"])
    elif family == "mv":
        maybe_index()
        if rng.random() < 0.3:
            layers.append({"w": "XTransformWrapper", "t": rng.choice(DET_LEAVES), "seed": None})
        cfg = [[rng.choice([1, 1, 2]), img_tree(rng, S, no_sched)] for _ in range(rng.choice([1, 2, 3]))]
        layers.append({"w": "KDMultiViewWrapper", "cfg": cfg, "seed": seed()})
        maybe_index()
        mode = rng.choice(["x", "x class", "index x"])
    elif family == "mix":
        maybe_index()
        below = rng.random() < 0.4
        if below:
            # (grayscale returns an expanded view, which the in-place mixup of KDMixWrapper cannot write to)
            t = img_tree(rng, S, no_sched)
            while has_class(t, "KDRandomGrayscale") or has_class(t, "KDGrayscale"):
                t = img_tree(rng, S, no_sched)
            layers.append({"w": "XTransformWrapper", "t": t, "seed": seed()})
        layers.append({"w": "KDMixWrapper", "p": rng.choice([0.5, 0.8, 1.0]), "alpha": rng.choice([0.4, 0.8, 1.0]),
                       "seed": seed()})
        if not below and rng.random() < 0.4:
            layers.append({"w": "XTransformWrapper", "t": img_tree(rng, S, no_sched), "seed": seed()})
        mode = rng.choice(["x class", "x", "class", "index x class"])
    else:
        maybe_index()
        w = rng.choice(["XTransformWrapper"] * 3 + ["YTransformWrapper", "TargetTransformWrapper", "SourceTransformWrapper"])
        layers.append({"w": w, "t": img_tree(rng, S, no_sched), "seed": seed()})
        if rng.random() < 0.3:
            layers.append({"w": "LabelSmoothingWrapper"})
        if family == "two" or rng.random() < 0.25:
            maybe_index()
            layers.append({"w": "XTransformWrapper", "t": img_tree(rng, S, no_sched), "seed": seed()})
        maybe_index()
        item = K.X_WRAPPERS[w]
        mode = rng.choice([item, item + " class", "index " + item] + (["x y"] if item == "y" else []))
    return {"root": {"kind": kind, "N": N, "S": S}, "layers": layers, "mode": mode}


def mk_case(rng, spec):
    n = K.stack_len(spec)
    base = [rng.randrange(n) for _ in range(rng.choice([3, 4, 6]))]
    ha = base + [rng.choice(base) for _ in range(rng.choice([1, 2, 4]))] + [rng.randrange(n) for _ in range(2)]
    rng.shuffle(ha)
    hb = list(base) + [rng.choice(ha) for _ in range(rng.choice([0, 2, 5]))]
    rng.shuffle(hb)
    return {"kind": "stack", "spec": spec, "ha": ha, "hb": hb, "ga": rng.randrange(10 ** 6), "gb": rng.randrange(10 ** 6)}


def directed_cases(rng, info):
    """the direct transform of a seeded wrapper is each container class / each registered img class once"""
    out = []
    names = {d["name"] for d in info["classes"]}
    for cont in L.CONTAINERS:
        if cont not in names:
            continue
        for w in ("XTransformWrapper", "KDMultiViewWrapper", "SemsegTransformWrapper"):
            kid = stochastic_leaf(rng)
            if cont == "KDComposeTransform":
                t = {"c": cont, "k": [kid, stochastic_leaf(rng)]}
            elif cont == "KDTransformChoice":
                t = {"c": cont, "k": [kid, stochastic_leaf(rng)]}
            else:
                t = {"c": cont, "a": 1, "k": [kid]}
            if w == "SemsegTransformWrapper":
                if cont in ("PatchwiseTransform",) or kid["c"] in ("KDRandomCrop", "KDRandomResizedCrop"):
                    t = {**t, "k": [{"c": "KDAdditiveGaussianNoise", "a": 0}] * len(t["k"])}
                lay = {"w": w, "ts": [{"c": "KDSemsegRandomHorizontalFlip", "a": 0}, t], "seed": rng.randrange(10 ** 6)}
                mode = "x semseg"
            elif w == "KDMultiViewWrapper":
                lay = {"w": w, "cfg": [[2, t], [1, stochastic_leaf(rng)]], "seed": rng.randrange(10 ** 6)}
                mode = "x"
            else:
                lay = {"w": w, "t": t, "seed": rng.randrange(10 ** 6)}
                mode = "x class"
            out.append(mk_case(rng, {"root": {"kind": "img", "N": 8, "S": 16}, "layers": [lay], "mode": mode}))
    for c in L.IMG_SAFE:
        if c in (L.FOREIGN, "KDSolarize", "KDGrayscale") or c not in names:
            continue
        a = rng.choice([i for i, (k_, _) in enumerate(L.REG[c]) if k_ == "img"])
        w = rng.choice(list(K.X_WRAPPERS))
        out.append(mk_case(rng, {"root": {"kind": "img", "N": 8, "S": 16},
                                 "layers": [{"w": w, "t": {"c": c, "a": a}, "seed": rng.randrange(10 ** 6)}],
                                 "mode": K.X_WRAPPERS[w]}))
    for w in ("ByolMultiViewWrapper", "ImagenetMinaugMultiViewWrapper", "MUGSMultiViewWrapper",
              "ImagenetMinaugXTransformWrapper"):
        out.append(mk_case(rng, {"root": {"kind": "pil", "N": 6, "S": 32},
                                 "layers": [{"w": w, "seed": rng.randrange(10 ** 6), "n": 2, "nloc": 2}], "mode": "x"}))
    return out


def loader_case(rng):
    spec = gen_stack(rng, no_sched=True)
    if "index" not in spec["mode"].split(" "):
        spec["mode"] = "index " + spec["mode"]
    return {"kind": "loader", "spec": spec, "bs": rng.choice([1, 2, 3]), "ga": rng.randrange(10 ** 6),
            "shuffle": [rng.randrange(10 ** 6) for _ in range(4)]}


def gen_cases(rng, tier):
    info = T.regenerate()
    out = []
    if info["errors"]:
        out.append({"kind": "translator", "errors": info["errors"]})
    out += directed_cases(rng, info)
    n = 300 if tier == "quick" else 3000
    out += [mk_case(rng, gen_stack(rng)) for _ in range(n)]
    out += [loader_case(rng) for _ in range(0 if tier == "quick" else 60)]
    return out


def search_cases(rng, tier):
    info = T.regenerate()
    for _ in range(3):
        for c in directed_cases(rng, info):
            yield c
    for _ in range(1500):
        yield mk_case(rng, gen_stack(rng))


def shrink(case):
    if case.get("kind") != "stack":
        return
    spec = case["spec"]
    layers = spec["layers"]
    # drop unseeded layers / all but one seeded layer
    for i, l in enumerate(layers):
        if len(layers) > 1 and (l.get("seed") is None or l["w"] == "ShuffleWrapper"
                                or sum(1 for x in layers if x.get("seed") is not None and x["w"] != "ShuffleWrapper") > 1):
            if l["w"] in ("SubsetWrapper", "KDSubset", "RepeatWrapper", "ShuffleWrapper"):
                continue      # removing an index layer changes the valid index range; keep it simple
            yield {**case, "spec": {**spec, "layers": layers[:i] + layers[i + 1:]}}
    for i, l in enumerate(layers):
        if "t" in l:
            for s in L.shrink_spec(l["t"]):
                if s["c"] != L.FOREIGN:
                    yield {**case, "spec": {**spec, "layers": layers[:i] + [{**l, "t": s}] + layers[i + 1:]}}
        if "cfg" in l and len(l["cfg"]) > 1:
            for j in range(len(l["cfg"])):
                yield {**case, "spec": {**spec, "layers": layers[:i] + [{**l, "cfg": l["cfg"][:j] + l["cfg"][j + 1:]}] + layers[i + 1:]}}
        if "ts" in l and len(l["ts"]) > 1:
            for j in range(len(l["ts"])):
                yield {**case, "spec": {**spec, "layers": layers[:i] + [{**l, "ts": l["ts"][:j] + l["ts"][j + 1:]}] + layers[i + 1:]}}
    if len(case["ha"]) > 1:
        yield {**case, "ha": case["ha"][:-1]}
        yield {**case, "ha": case["ha"][1:]}
    if len(case["hb"]) > 1:
        yield {**case, "hb": case["hb"][:-1]}
        yield {**case, "hb": case["hb"][1:]}


# ---------------------------------------------------------------------------
# running the real code
# ---------------------------------------------------------------------------
def _get(ds, i):
    try:
        return L.canon(ds[i])
    except Exception as e:  # noqa
        return K.exc_info(e)


def _is_seeded_layer(w):
    return type(w).__name__ != "ShuffleWrapper" and getattr(w, "seed", None) is not None


def run_stack_case(case):
    spec = case["spec"]
    obs = {}
    with K.FrameRecorder(_info()) as FR:
        try:
            L.seed_globals(case["ga"])
            A = K.build_stack(spec)
            L.seed_globals(case["gb"])
            B = K.build_stack(spec)
        except Exception as e:  # noqa
            return {"construct_error": f"{type(e).__name__}: {e}", "tb": traceback.format_exc()[-800:]}
        wrappers = K.sample_wrappers(A)
        seeded = [w for w in wrappers if "seed" in vars(w) and _is_seeded_layer(w)]
        K.tag_stack_slots(A, "ctor")
        obs["layers"] = [{"cls": type(w).__name__, "seed": int(w.seed), "w0": K.live_wobj(w)} for w in seeded]
        ids = {id(w): k for k, w in enumerate(seeded)}
        with K.PatchedDefaultRng("inj"):
            L.seed_globals(case["ga"] + 17)
            trip = L.Tripwire()
            obs["out_a"] = [[i, _get(A, i)] for i in case["ha"]]
            obs["touched_a"] = trip.touched()
        for k, w in enumerate(seeded):
            obs["layers"][k]["after"] = K.wobj_slots(K.live_wobj(w))
            obs["layers"][k]["acc"] = []
        obs["stray"] = [t for t in FR.outside]
        for e in FR.log:
            if e["obj"] in ids:
                obs["layers"][ids[e["obj"]]]["acc"].append([e["idx"], e["src"]])
            elif e["src"]:
                obs["stray"] += e["src"]
        n_log = len(FR.log)
        L.seed_globals(case["gb"] + 4242)
        trip = L.Tripwire()
        obs["out_b"] = [[i, _get(B, i)] for i in case["hb"]]
        obs["touched_b"] = trip.touched()
        obs["frames_b"] = len(FR.log) - n_log
    return obs


def _list_collate(batch):
    """no stacking: samples may be PIL images or tensors of different sizes"""
    return batch


def run_loader_case(case):
    import gc
    import torch
    from functools import partial
    from torch.utils.data import DataLoader
    spec = case["spec"]
    L.seed_globals(case["ga"])
    ds = K.build_stack(spec)
    pos = spec["mode"].split(" ").index("index")
    n = len(ds)
    obs = {"runs": []}

    for k, nw in enumerate([0, 1, 2, 3]):
        L.seed_globals(case["ga"] + 31 * k)
        g = torch.Generator().manual_seed(case["shuffle"][k])
        kw = dict(worker_init_fn=ds.worker_init_fn) if nw > 0 else {}
        per_index = {}
        it = None
        try:
            it = iter(DataLoader(ds, batch_size=case["bs"], num_workers=nw, shuffle=True, generator=g,
                                 collate_fn=_list_collate, **kw))
            for batch in it:
                for sample in batch:
                    per_index[int(sample[pos])] = L.canon([x for j, x in enumerate(sample) if j != pos])
        except Exception as e:  # noqa
            obs["runs"].append({"nw": nw, "error": f"{type(e).__name__}: {str(e)[:300]}", "origin": K.exc_info(e)[3]})
            if nw == 0:
                break     # in-process failure (e.g. a transform composition that cannot run): nothing to compare
            continue
        finally:
            del it      # shut the workers down now, not in some later forked child
            gc.collect()
        obs["runs"].append({"nw": nw, "per_index": [[i, per_index.get(i)] for i in range(n)]})
    return obs


def run_impl(case):
    if case.get("kind") == "translator":
        return {"skipped": "translator"}
    if case.get("kind") == "loader":
        return run_loader_case(case)
    return run_stack_case(case)


# ---------------------------------------------------------------------------
# independent Python statement of the property
# ---------------------------------------------------------------------------
def oracle(case, obs):
    if "harness_exception" in obs:
        return "harness exception: " + obs["harness_exception"] + obs.get("tb", "")
    if case.get("kind") == "translator":
        return None
    sig = K.spec_sig(case["spec"]) + " mode='" + case["spec"]["mode"] + "'"
    if case.get("kind") == "loader":
        ref = None
        for r in obs["runs"]:
            if "error" in r and r["nw"] == 0 and "transforms" in r.get("origin", ""):
                return None    # the composition itself raises in-process; not this property's business
            if "error" in r:
                return f"{sig}: DataLoader(num_workers={r['nw']}) raised {r['error']}"
            if ref is None:
                ref = r
                continue
            for (i, a), (_, b) in zip(ref["per_index"], r["per_index"]):
                if a != b:
                    return (f"{sig}: sample {i} differs between DataLoader(num_workers={ref['nw']}) and "
                            f"DataLoader(num_workers={r['nw']}), batch_size={case['bs']}: {str(a)[:200]} vs {str(b)[:200]}")
        return None
    if "construct_error" in obs:
        return f"{sig}: construction failed: {obs['construct_error']}"
    for who, outs in (("first", obs["out_a"]), ("second", obs["out_b"])):
        for i, v in outs:
            # an exception out of the wrapper / dataset code is the wrapper's fault; one out of the transform code (an
            # unlucky composition, e.g. an in-place op on the expanded view a grayscale transform returns) is a value
            # like any other: it has to be the same for every request of that index (checked below)
            if isinstance(v, list) and v and v[0] == "EXC" and not v[3].startswith("transforms") \
                    and not v[3].startswith("common" + __import__("os").sep + "transforms"):
                return f"{sig}: request for index {i} on the {who} instance raised {v[1]}: {v[2]} (in {v[3] or 'library code'})"
    if obs["touched_a"] or obs["touched_b"]:
        return (f"{sig}: serving seeded samples consumed / re-seeded process-global generators "
                f"{obs['touched_a'] or obs['touched_b']}")
    if obs["stray"]:
        return f"{sig}: draws outside the per-item code of a seeded wrapper, from generators {obs['stray'][:4]}"
    for lay in obs["layers"]:
        for idx, src in lay["acc"]:
            want = ["inj", lay["seed"] + idx]
            bad = [s for s in src if s != want]
            if bad:
                return (f"{sig}: {lay['cls']}(seed={lay['seed']}) serving index {idx} drew from {bad[:4]} instead of only "
                        f"the generator seeded with seed+idx={lay['seed'] + idx}")
    seen = {}
    for who, outs in (("first instance", obs["out_a"]), ("second instance", obs["out_b"])):
        for pos, (i, v) in enumerate(outs):
            if i in seen and seen[i][0] != v:
                return (f"{sig}: sample {i} is not a function of (data, config, seed, index): {seen[i][1]} gave "
                        f"{str(seen[i][0])[:200]}, {who} request #{pos} gave {str(v)[:200]} "
                        f"(orders {case['ha']} / {case['hb']}, global seeds {case['ga']} / {case['gb']})")
            seen.setdefault(i, (v, f"{who} request #{pos}"))
    return None


# ---------------------------------------------------------------------------
# Coq side
# ---------------------------------------------------------------------------
def coq_applicable(case, obs):
    # a request that raised half way (a transform composition that cannot run on some draws) leaves the objects in a
    # state the model of a COMPLETED request does not describe
    return (case.get("kind") == "stack" and "layers" in obs and all("acc" in l for l in obs["layers"])
            and not any(isinstance(v, list) and v and v[0] == "EXC" for _, v in obs["out_a"]))


def coq_case(case, obs):
    out = []
    for lay in obs["layers"]:
        acc = [Raw("(" + coq(int(i)) + ", " + coq([L.coq_prov(p) for p in src]) + ")") for i, src in lay["acc"]]
        out.append(Raw("(" + coq(K.coq_wobj(lay["w0"])) + ", " + coq(int(lay["seed"])) + ", " + coq(acc) + ", "
                       + coq([L.coq_slot(p) for p in lay["after"]]) + ")"))
    return coq(out)


def features(case, obs):
    if case.get("kind") != "stack":
        yield "kind=" + str(case.get("kind"))
        return
    spec = case["spec"]
    yield "root=" + spec["root"]["kind"]
    yield "mode=" + spec["mode"]
    for l in spec["layers"]:
        yield "layer=" + l["w"] + ("#seeded" if l.get("seed") is not None and l["w"] != "ShuffleWrapper" else "")
    n_seeded = len(obs.get("layers", []))
    yield "seeded_layers=%d" % n_seeded
    top_down = [l for l in reversed(spec["layers"])]
    kinds = ["S" if (l.get("seed") is not None and l["w"] != "ShuffleWrapper") else "o" for l in top_down]
    yield "shape(top-down)=" + "".join(kinds)
    if "layers" in obs:
        yield "drew=%s" % any(src for l in obs["layers"] for _, src in l.get("acc", []))
        yield "repeats=%s" % (len(set(case["ha"])) < len(case["ha"]))


def nontrivial_key(case, obs):
    if case.get("kind") == "loader":
        if any("error" in r for r in obs.get("runs", [])):
            return None
        return ("loader", K.spec_sig(case["spec"]), case["bs"])
    if case.get("kind") != "stack" or "layers" not in obs:
        return None
    if not any(src for l in obs["layers"] for _, src in l.get("acc", [])):
        return None
    if any(isinstance(v, list) and v and v[0] == "EXC" for _, v in obs["out_a"] + obs["out_b"]):
        return None
    return (K.spec_sig(case["spec"]), case["spec"]["mode"], len(case["ha"]), len(case["hb"]))
