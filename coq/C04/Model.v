(* Implementation model of kappadata/samplers/interleaved_sampler.py
   (InterleavedSampler.__init__ checkpoint derivation, __iter__, _eval_loop,
   _training_loop, _InterleavedBatchSampler.__iter__, _InterleavedConcatDataset
   index resolution).  Mirrors the code statement by statement; no proofs here. *)
From Coq Require Import ZArith List Bool.
Import ListNotations.
Open Scope Z_scope.

Inductive budget := Epochs (e : Z) | Updates (u : Z) | Samples (s : Z).

(* one InterleavedSamplerConfig: the three optional intervals, optional batch
   size, the sampler's iteration (same list on every pass), len(config.sampler)
   and len(data_source) *)
Record side_cfg := {
  ene : option Z; enu : option Z; ens : option Z; sbs : option Z;
  sidx : list Z; slen : Z; dslen : Z }.

Record cfg := {
  cN : Z;            (* len(main_sampler) *)
  dsN : Z;          (* len(data_source of main sampler) *)
  cB : Z;            (* batch_size *)
  drop_last : bool;
  cD : option Z;     (* drop_last_batch_size *)
  bud : budget;
  sides : list side_cfg }.

(* observable events: set_epoch calls received by the main sampler and the
   (is_full_batch, index) stream; Main/Side are distinguished in the model only,
   [render] forgets the distinction *)
Inductive event :=
| SetEpoch (e : Z)
| Main (full : bool) (idx : Z)
| Side (cfgidx : nat) (full : bool) (idx : Z).

Inductive obs := OSetEpoch (e : Z) | OYield (full : bool) (idx : Z).

Definition or_default (o : option Z) (d : Z) : Z := match o with Some x => x | None => d end.

(* samples_per_epoch of _training_loop (the len<batch_size adjustments are
   unreachable: the constructor asserts batch_size <= dlbs <= len) *)
Definition spe (c : cfg) : Z :=
  if drop_last c then let bs := or_default (cD c) (cB c) in cN c / bs * bs else cN c.

(* updates per epoch as computed by the constructor *)
Definition upe (c : cfg) : Z :=
  if drop_last c then spe c / cB c else (cN c + cB c - 1) / cB c.

(* index_offsets[config_idx] *)
Fixpoint offsets_from (acc : Z) (l : list side_cfg) : list Z :=
  match l with [] => [] | sc :: l' => acc :: offsets_from (acc + dslen sc) l' end.
Definition offsets (c : cfg) : list Z := offsets_from (dsN c) (sides c).

(* the inner "for interleaved_idx in config.sampler" loop *)
Fixpoint side_pass_aux (ci : nat) (ibs len_ off k : Z) (l : list Z) : list event :=
  match l with
  | [] => []
  | i :: l' =>
      let k' := k + 1 in
      Side ci ((k' mod ibs =? 0) || (k' =? len_)) (off + i) :: side_pass_aux ci ibs len_ off k' l'
  end.
Definition side_pass (c : cfg) (ci : nat) (off : Z) (sc : side_cfg) : list event :=
  side_pass_aux ci (or_default (sbs sc) (cB c)) (slen sc) off 0 (sidx sc).

(* should_iter for one config after the counters were increased *)
Definition should_iter (sc : side_cfg) (epoch_end : bool) (epoch update sample salu : Z) : bool :=
  (match ene sc with Some n => epoch_end && (epoch mod n =? 0) | None => false end)
  || (match enu sc with Some n => update mod n =? 0 | None => false end)
  || (match ens sc with
      | Some n => (sample mod n =? 0) || (salu / n <? sample / n)
      | None => false end).

Fixpoint sides_pass (c : cfg) (ci : nat) (offs : list Z) (l : list side_cfg)
         (epoch_end : bool) (epoch update sample salu : Z) : list event :=
  match l, offs with
  | sc :: l', off :: offs' =>
      (if should_iter sc epoch_end epoch update sample salu then side_pass c ci off sc else [])
      ++ sides_pass c (S ci) offs' l' epoch_end epoch update sample salu
  | _, _ => []
  end.

Definition budget_reached (c : cfg) (epoch update sample : Z) : bool :=
  match bud c with
  | Epochs e => epoch =? e
  | Updates u => update =? u
  | Samples s => s <=? sample
  end.

Record st := { epoch : Z; update : Z; sample : Z; siu : Z; salu : Z }.

Inductive status := Done | EpochBreak | Exhausted.

(* body of "for main_idx in self.main_sampler" *)
Fixpoint epoch_loop (c : cfg) (l : list Z) (sie : Z) (s : st) : list event * st * status :=
  match l with
  | [] => ([], s, Exhausted)
  | i :: l' =>
      let sample' := sample s + 1 in
      let sie' := sie + 1 in
      let siu' := siu s + 1 in
      if (siu' =? cB c) || (sie' =? spe c) then
        let update' := update s + 1 in
        let epoch_end := sie' =? spe c in
        let epoch' := if epoch_end then epoch s + 1 else epoch s in
        let passes := sides_pass c 0 (offsets c) (sides c) epoch_end epoch' update' sample' (salu s) in
        let s' := {| epoch := epoch'; update := update'; sample := sample'; siu := 0; salu := sample' |} in
        if budget_reached c epoch' update' sample' then (Main true i :: passes, s', Done)
        else if epoch_end then (Main true i :: passes, s', EpochBreak)
        else let '(evs, s'', stt) := epoch_loop c l' sie' s' in (Main true i :: passes ++ evs, s'', stt)
      else
        let s' := {| epoch := epoch s; update := update s; sample := sample'; siu := siu'; salu := salu s |} in
        let '(evs, s'', stt) := epoch_loop c l' sie' s' in (Main false i :: evs, s'', stt)
  end.

(* "while True": one iteration per unit of fuel; None = out of fuel *)
Fixpoint run (c : cfg) (main_iter : Z -> list Z) (fuel : nat) (s : st) : option (list event) :=
  match fuel with
  | O => None
  | S fuel' =>
      let '(evs, s', stt) := epoch_loop c (main_iter (epoch s)) 0 s in
      match stt with
      | Done => Some (SetEpoch (epoch s) :: evs)
      | _ => match run c main_iter fuel' s' with
             | Some rest => Some (SetEpoch (epoch s) :: evs ++ rest)
             | None => None
             end
      end
  end.

(* _eval_loop *)
Fixpoint eval_loop (c : cfg) (ci : nat) (offs : list Z) (l : list side_cfg) : list event :=
  match l, offs with
  | sc :: l', off :: offs' => side_pass c ci off sc ++ eval_loop c (S ci) offs' l'
  | _, _ => []
  end.

Definition zero_budget (c : cfg) : bool :=
  match bud c with Epochs e => e =? 0 | Updates u => u =? 0 | Samples s => s =? 0 end.

Inductive start_arg := NoStart | StartEpoch (e : Z) | StartUpdate (u : Z) | StartSample (s : Z).
Inductive ctor_result := Start (e u s : Z) | NotImplemented | AssertFail.

(* the constructor's derivation of (start_epoch, start_update, start_sample) *)
Definition init_checkpoint (c : cfg) (a : start_arg) : ctor_result :=
  match a with
  | NoStart => Start 0 0 0
  | StartEpoch e => Start e (upe c * e) (spe c * e)
  | StartUpdate u =>
      if negb (u mod upe c =? 0) || negb (drop_last c) then NotImplemented
      else Start (u / upe c) u (u * cB c)
  | StartSample s =>
      if negb (s mod cB c =? 0) then AssertFail
      else let u := s / cB c in
           if negb (u mod upe c =? 0) || negb (drop_last c) then NotImplemented
           else Start (u / upe c) u s
  end.

Definition init_state (e u s : Z) : st :=
  {| epoch := e; update := u; sample := s; siu := 0; salu := s |}.

(* fuel that always suffices (proved in Proofs.v): remaining budget *)
Definition default_fuel (c : cfg) (s : st) : nat :=
  match bud c with
  | Epochs e => Z.to_nat (e - epoch s)
  | Updates u => Z.to_nat (u - update s)
  | Samples x => Z.to_nat (x - sample s)
  end.

(* __iter__ *)
Definition sampler_iter (c : cfg) (main_iter : Z -> list Z) (e u s : Z) : option (list event) :=
  if zero_budget c then
    if (e =? 0) && (u =? 0) && (s =? 0) then Some (eval_loop c 0 (offsets c) (sides c)) else None
  else run c main_iter (default_fuel c (init_state e u s)) (init_state e u s).

Definition render1 (e : event) : obs :=
  match e with
  | SetEpoch x => OSetEpoch x
  | Main f i => OYield f i
  | Side _ f i => OYield f i
  end.
Definition render (l : list event) : list obs := map render1 l.

(* _InterleavedBatchSampler.__iter__ ; the trailing assert is the bool *)
Fixpoint batches_aux (cur : list Z) (l : list obs) : list (list Z) * bool :=
  match l with
  | [] => ([], match cur with [] => true | _ => false end)
  | OSetEpoch _ :: l' => batches_aux cur l'
  | OYield f i :: l' =>
      if f then let '(bs, ok) := batches_aux [] l' in (rev (i :: cur) :: bs, ok)
      else batches_aux (i :: cur) l'
  end.
Definition batches (l : list obs) := batches_aux [] l.

(* _InterleavedConcatDataset.__getitem__ for idx >= 0: bisect_right over the
   cumulative sizes; returns (dataset_idx, sample_idx) *)
Fixpoint concat_lookup_aux (sizes : list Z) (di : nat) (idx : Z) : option (nat * Z) :=
  match sizes with
  | [] => None
  | n :: rest => if idx <? n then Some (di, idx) else concat_lookup_aux rest (S di) (idx - n)
  end.
Definition concat_lookup (c : cfg) (idx : Z) : option (nat * Z) :=
  concat_lookup_aux (dsN c :: map dslen (sides c)) 0 idx.
