(* C20 — what "crash-safe and idempotent" means.  Definitions only.

   The content of the source is described here independently of the order in
   which the implementation walks it (Model.src_entries): `src_lookup c r` is
   what must be found at  dst/r  after a complete copy. *)
From Coq Require Import List String Bool Arith ZArith.
Import ListNotations.
From KD Require Import C20.Model.

(* ---- content of the source, by path ---- *)
Fixpoint find_item (n : name) (items : list (name * tree)) : option tree :=
  match items with
  | [] => None
  | (k, t) :: r => if String.eqb k n then Some t else find_item n r
  end.

Definition root_entry (t : tree) : entry := match t with TFile c => File c | TDir _ => Dir end.

Fixpoint node_lookup (t : tree) (r : path) {struct r} : option entry :=
  match r with
  | [] => Some (root_entry t)
  | n :: r' =>
      match t with
      | TFile _ => None
      | TDir ch => match find_item n ch with None => None | Some t' => node_lookup t' r' end
      end
  end.

(* unzipping: a member is found under its name; every proper prefix of a member name is a directory *)
Definition zip_lookup (ms : list member) (r : path) : option entry :=
  match find (fun m => path_eqb (m_path m) r) ms with
  | Some m => Some (entry_of_member m)
  | None => if existsb (fun m => strictly_under r (m_path m)) ms then Some Dir else None
  end.

Definition src_lookup (c : config) (r : path) : option entry :=
  match c_dir c with
  | Some items => if mostly_zips items then zip_lookup (all_members c items) r else node_lookup (TDir items) r
  | None => match c_zip c with Some ms => zip_lookup ms r | None => None end
  end.

(* ---- well-formed sources (domain of the property) ---- *)
Fixpoint nodupb (l : list path) : bool :=
  match l with [] => true | a :: r => negb (existsb (path_eqb a) r) && nodupb r end.

Fixpoint tree_ok (t : tree) : bool :=
  match t with
  | TFile _ => true
  | TDir ch => nodupb (map (fun nt => [fst nt]) ch) && forallb (fun nt => tree_ok (snd nt)) ch
  end.

Definition members_ok (ms : list member) : bool :=
  forallb (fun m => match m_path m with [] => false | _ => true end) ms
  && nodupb (map m_path ms)
  && forallb (fun m1 => match m_file m1 with
                        | Some _ => forallb (fun m2 => negb (strictly_under (m_path m1) (m_path m2))) ms
                        | None => true
                        end) ms.

Definition absent (o : option entry) : bool := match o with None => true | Some _ => false end.

(* sibling names are distinct, zip member names are distinct and no file member is a directory of another
   member, and nothing at the top of the source is named like one of the two markers *)
Definition src_ok (c : config) : bool :=
  match c_dir c with
  | Some items => if mostly_zips items then members_ok (all_members c items) else tree_ok (TDir items)
  | None => match c_zip c with Some ms => members_ok ms | None => false end
  end
  && absent (src_lookup c [sname]) && absent (src_lookup c [ename]).

(* ---- states ---- *)
(* dst holds exactly the source plus the two markers *)
Definition complete_copy (c : config) (s : fs) : Prop :=
  lookup s (dst c) = Some Dir /\
  (exists a, lookup s (smark c) = Some (File a)) /\
  (exists b, lookup s (emark c) = Some (File b)) /\
  forall r, r <> [] -> r <> [sname] -> r <> [ename] -> lookup s (dst c ++ r) = src_lookup c r.

(* before the first call: nothing at dst (and the temporary sibling name is unused) ... *)
Definition fresh (c : config) (s : fs) : Prop :=
  (forall r, lookup s (dst c ++ r) = None) /\ (forall r, lookup s (tmp c ++ r) = None).
(* ... or a folder the user put there (it has no start marker) *)
Definition manual (c : config) (s : fs) : Prop :=
  lookup s (dst c) <> None /\ lookup s (smark c) = None.

(* the invariant of automatic copying: whenever dst exists it contains the start marker
   (so it can never be mistaken for a manual folder), and the end marker is only ever present
   on a complete copy *)
Definition tmp_small (c : config) (s : fs) : Prop :=
  forall r, lookup s (tmp c ++ r) <> None -> r = [] \/ r = [sname].
Definition auto_state (c : config) (s : fs) : Prop :=
  tmp_small c s /\
  match lookup s (dst c) with
  | None => forall r, lookup s (dst c ++ r) = None
  | Some e => e = Dir /\ (exists a, lookup s (smark c) = Some (File a))
              /\ (lookup s (emark c) <> None -> complete_copy c s)
  end.

(* ---- contract of the directory scans (the oracle) ---- *)
(* they only return entries below dst ... *)
Definition order_in_dst (c : config) (order : list path) : Prop :=
  Forall (fun p => strictly_under (dst c) p = true) order.
(* ... and a call that runs to its end has seen every entry that was there *)
Definition order_covers (c : config) (s : fs) (order : list path) : Prop :=
  forall r, r <> [] -> lookup s (dst c ++ r) <> None -> In (dst c ++ r) order.
(* the call gets as far as creating the end marker: it is not killed before its last two operations
   (open(end_copy_file, "w"), write) *)
Definition seals (c : config) (s : fs) (a : attempt) : Prop :=
  match plan c (a_order a) (a_sched a) s with
  | ORun ops _ => List.length ops - 2 < a_kill a
  | _ => False
  end.
(* what is assumed of the interrupted calls of a history: their directory scans return entries below dst only,
   and a call that gets as far as the end marker has seen every entry that was there when it started.
   (Calls killed earlier may have seen any part of the listing.) *)
Fixpoint attempts_ok (c : config) (h : list attempt) (s : fs) : Prop :=
  match h with
  | [] => True
  | a :: h' => order_in_dst c (a_order a) /\ (seals c s a -> order_covers c s (a_order a))
               /\ attempts_ok c h' (invoke_crashed true true c s a)
  end.
(* the stronger assumption "every call of the history sees an honest listing" (implies attempts_ok) *)
Fixpoint attempts_honest (c : config) (h : list attempt) (s : fs) : Prop :=
  match h with
  | [] => True
  | a :: h' => order_in_dst c (a_order a) /\ order_covers c s (a_order a)
               /\ attempts_honest c h' (invoke_crashed true true c s a)
  end.

(* decidable versions used by the correspondence check *)
Fixpoint content_eqb (a b : content) : bool :=
  match a, b with
  | [], [] => true
  | x :: a', y :: b' => Z.eqb x y && content_eqb a' b'
  | _, _ => false
  end.
Definition entry_eqb (a b : entry) : bool :=
  match a, b with Dir, Dir => true | File x, File y => content_eqb x y | _, _ => false end.
Definition oentry_eqb (a b : option entry) : bool :=
  match a, b with None, None => true | Some x, Some y => entry_eqb x y | _, _ => false end.
Definition is_file (o : option entry) : bool := match o with Some (File _) => true | _ => false end.

(* complete_copy on a finite state: the listed keys below dst agree with the source, and every source path
   (enumerated by the model's own walk) is there *)
Definition complete_copyb (c : config) (s : fs) : bool :=
  oentry_eqb (lookup s (dst c)) (Some Dir) && is_file (lookup s (smark c)) && is_file (lookup s (emark c))
  && forallb (fun ke => match strip (dst c) (fst ke) with
                        | Some r => match r with
                                    | [] => true
                                    | _ => path_eqb r [sname] || path_eqb r [ename]
                                           || oentry_eqb (lookup s (fst ke)) (src_lookup c r)
                                    end
                        | None => true
                        end) s
  && forallb (fun pe => match fst pe with
                        | [] => true
                        | r => oentry_eqb (lookup s (dst c ++ r)) (src_lookup c r)
                        end) (src_entries c).
