(* C15 — proofs for the interleaved histories on shared augmentation objects (Sched.v second part, Spec.v ispec_run).
   Uses from Proofs.v: tree_last_wins (scaling reads only the constructed parameters), the round-robin arithmetic
   (rr_forward, cnt, cnt_owner, cnt_succ, cnt_0) and the set_nth lemmas. *)
From Coq Require Import ZArith QArith List Bool Lia.
Import ListNotations.
From KD Require Import C15.Base C15.gen.Strength C15.Sched C15.Spec C15.Proofs.
Open Scope Z_scope.

(* ---- upd ---- *)
Lemma upd_same : forall A (c : nat -> A) k x, upd c k x k = x.
Proof. intros. unfold upd. rewrite Nat.eqb_refl. reflexivity. Qed.
Lemma upd_other : forall A (c : nat -> A) k x y, y <> k -> upd c k x y = c y.
Proof. intros A c k x y H. unfold upd. destruct (Nat.eqb_spec y k); [contradiction|reflexivity]. Qed.

(* ---- the heap: every cell is the constructed cell scaled by the last factor it was given ---- *)
Lemma cell_at_scale : forall t o f, tree_scale (cell_at t o) f = tree_scale t f.
Proof. intros t [g|] f; simpl; [apply tree_last_wins|reflexivity]. Qed.

Lemma heap_from_ext : forall I j0 l l', (forall j, (j0 <= j)%nat -> l j = l' j) -> heap_from j0 I l = heap_from j0 I l'.
Proof.
  induction I as [|t r IH]; intros j0 l l' H; simpl; [reflexivity|].
  rewrite (H j0) by lia. f_equal. apply IH. intros j Hj. apply H. lia.
Qed.

Lemma heap_from_none : forall I j0, heap_from j0 I (fun _ => None) = I.
Proof. induction I as [|t r IH]; intros j0; simpl; [reflexivity|]. rewrite IH. reflexivity. Qed.

Lemma scale_cell_cons : forall a h j f, scale_cell (a :: h) (S j) f = a :: scale_cell h j f.
Proof. intros a h j f. unfold scale_cell. simpl. destruct (nth_error h j); reflexivity. Qed.

Lemma scale_cell_heap : forall I j0 l j f,
  scale_cell (heap_from j0 I l) j f = heap_from j0 I (upd l (j0 + j)%nat (Some f)).
Proof.
  induction I as [|t r IH]; intros j0 l j f.
  - unfold scale_cell. simpl. destruct j; reflexivity.
  - destruct j as [|j].
    + unfold scale_cell. simpl. rewrite Nat.add_0_r, upd_same. simpl. rewrite cell_at_scale. f_equal.
      apply heap_from_ext. intros j Hj. rewrite upd_other by lia. reflexivity.
    + simpl heap_from. rewrite scale_cell_cons. rewrite IH. rewrite upd_other by lia. f_equal.
      replace (S j0 + j)%nat with (j0 + S j)%nat by lia. reflexivity.
Qed.

Lemma scale_cells_heap : forall I js l f,
  scale_cells (heap_of I l) js f = heap_of I (upd_cells l js f).
Proof.
  intros I js. unfold scale_cells, upd_cells, heap_of. induction js as [|j js IH]; intros l f; simpl; [reflexivity|].
  rewrite scale_cell_heap. simpl. apply IH.
Qed.

(* ---- the invariant ---- *)
Definition sched_at (W : nat) (r : nat) (counts : nat -> nat) (k : nat) (c : scfg) : sstate :=
  let '(B, i, js) := c in
  mk_sstate (Z.of_nat r) (Z.of_nat W) B (n_batches_of i B)
            (cnt (Z.of_nat W) B (Z.of_nat r) (Z.of_nat (counts k))) js.

Definition ipool_inv (W : nat) (cfgs : list scfg) (inners0 : list tree)
                     (counts : nat -> nat) (last : nat -> nat -> option Q) (pool : list pstate) : Prop :=
  length pool = W /\
  forall r, (r < W)%nat -> exists p,
    nth_error pool r = Some p /\
    ps_inners p = heap_of inners0 (last r) /\
    forall k, nth_error (ps_scheds p) k = option_map (sched_at W r counts k) (nth_error cfgs k).

Definition cfgs_ok (cfgs : list scfg) : Prop := Forall (fun c : scfg => 0 < fst (fst c)) cfgs.

Lemma cfgs_ok_nth : forall cfgs k B i js, cfgs_ok cfgs -> nth_error cfgs k = Some (B, i, js) -> 0 < B.
Proof.
  intros cfgs k B i js H E. unfold cfgs_ok in H. rewrite Forall_forall in H.
  apply nth_error_In in E. apply H in E. exact E.
Qed.

Lemma iinit_pool_inv : forall W cfgs inners0, cfgs_ok cfgs ->
  ipool_inv W cfgs inners0 (fun _ => O) (fun _ _ => None) (iinit_pool W cfgs inners0).
Proof.
  intros W cfgs inners0 Hc. unfold ipool_inv, iinit_pool. split.
  - rewrite map_length, seq_length. reflexivity.
  - intros r Hr. eexists. split; [apply nth_error_map_seq; exact Hr|]. simpl. split.
    + unfold heap_of. rewrite heap_from_none. reflexivity.
    + intros k. rewrite nth_error_map. destruct (nth_error cfgs k) as [[[B i] js]|] eqn:E; simpl; [|reflexivity].
      rewrite cnt_0; [reflexivity|lia|eapply cfgs_ok_nth; eassumption|lia].
Qed.

(* a step that is not a call of a scheduled transform changes one copy's heap only *)
Lemma ipool_inv_heap_step : forall W cfgs inners0 counts last pool w p lw,
  ipool_inv W cfgs inners0 counts last pool -> (w < W)%nat -> nth_error pool w = Some p ->
  ipool_inv W cfgs inners0 counts (upd last w lw) (set_nth w (mk_pstate (ps_scheds p) (heap_of inners0 lw)) pool).
Proof.
  intros W cfgs inners0 counts last pool w p lw [Hlen Hinv] Hw Hp. split; [rewrite set_nth_length; exact Hlen|].
  intros r Hr. destruct (Nat.eq_dec w r) as [E|E].
  - subst r. eexists. split; [apply set_nth_same; lia|]. simpl. rewrite upd_same. split; [reflexivity|].
    destruct (Hinv w Hw) as (p' & Hp' & _ & Hs). rewrite Hp in Hp'. inversion Hp'. subst p'. exact Hs.
  - destruct (Hinv r Hr) as (p' & Hp' & Hh & Hs). exists p'. split; [rewrite set_nth_other by exact E; exact Hp'|].
    rewrite upd_other by lia. split; assumption.
Qed.

Lemma ipool_run_from : forall schedules W cfgs outer inners0, (0 < W)%nat -> cfgs_ok cfgs ->
  forall gs counts last pool, ipool_inv W cfgs inners0 counts last pool ->
  ipool_run schedules outer pool (route W cfgs counts gs) = ispec_run W cfgs schedules outer inners0 counts last gs.
Proof.
  intros schedules W cfgs outer inners0 HW Hc gs.
  induction gs as [|g gs IH]; intros counts last pool Inv; [reflexivity|].
  destruct g as [k|w j f|w f]; simpl.
  - (* scheduled transform k processes its next sample *)
    destruct (nth_error cfgs k) as [[[B i] js]|] eqn:Ek; [|reflexivity].
    pose proof (cfgs_ok_nth _ _ _ _ _ Hc Ek) as HB.
    set (n := counts k).
    pose proof (rr_forward (Z.of_nat W) B (Z.of_nat n) ltac:(lia) HB ltac:(lia)) as (Ebatch & Hown & Hloc).
    set (o := rr_owner_nat W B n).
    assert (Ho : (o < W)%nat) by (unfold o, rr_owner_nat; lia).
    assert (Eo : Z.of_nat o = rr_owner (Z.of_nat W) B (Z.of_nat n)) by (unfold o, rr_owner_nat; lia).
    pose proof Inv as [Hlen Hinv].
    destruct (Hinv o Ho) as (p & Hp & Hh & Hs).
    simpl. rewrite Hp. unfold shared_call. rewrite (Hs k), Ek. simpl.
    assert (Hidx : cnt (Z.of_nat W) B (Z.of_nat o) (Z.of_nat n) / B * Z.of_nat W + Z.of_nat o = rr_batch B (Z.of_nat n)).
    { rewrite Eo, cnt_owner. exact Ebatch. }
    unfold ss_batch_idx. simpl. fold n. rewrite Hidx.
    set (v := schedules k (rr_batch B (Z.of_nat n)) (n_batches_of i B)).
    rewrite Hh, scale_cells_heap.
    f_equal. apply IH.
    (* the invariant after the call *)
    assert (Hcnt : forall r, (r < W)%nat ->
              cnt (Z.of_nat W) B (Z.of_nat r) (Z.of_nat (S n)) =
              cnt (Z.of_nat W) B (Z.of_nat r) (Z.of_nat n) + (if Nat.eq_dec o r then 1 else 0)).
    { intros r Hr. replace (Z.of_nat (S n)) with (Z.of_nat n + 1) by lia.
      rewrite cnt_succ by lia. rewrite <- Eo.
      destruct (Nat.eq_dec o r); destruct (Z.eqb_spec (Z.of_nat r) (Z.of_nat o)); lia. }
    assert (Hk : (k < length (ps_scheds p))%nat).
    { apply nth_error_Some. rewrite (Hs k), Ek. discriminate. }
    split; [rewrite set_nth_length; exact Hlen|].
    intros r Hr. destruct (Nat.eq_dec o r) as [E|E].
    + subst r. eexists. split; [apply set_nth_same; lia|]. simpl. rewrite upd_same. split; [reflexivity|].
      intros k'. destruct (Nat.eq_dec k k') as [E'|E'].
      * subst k'. rewrite set_nth_same by exact Hk. rewrite Ek. simpl. rewrite upd_same.
        rewrite Hcnt by exact Ho. destruct (Nat.eq_dec o o); [reflexivity|contradiction].
      * rewrite set_nth_other by exact E'. rewrite (Hs k').
        destruct (nth_error cfgs k') as [[[B' i'] js']|]; simpl; [|reflexivity]. rewrite upd_other by lia. reflexivity.
    + destruct (Hinv r Hr) as (p' & Hp' & Hh' & Hs'). exists p'.
      split; [rewrite set_nth_other by exact E; exact Hp'|]. rewrite upd_other by lia. split; [exact Hh'|].
      intros k'. rewrite (Hs' k'). destruct (Nat.eq_dec k k') as [E'|E'].
      * subst k'. rewrite Ek. simpl. rewrite upd_same. rewrite Hcnt by exact Hr.
        destruct (Nat.eq_dec o r); [contradiction|]. rewrite Z.add_0_r. reflexivity.
      * destruct (nth_error cfgs k') as [[[B' i'] js']|]; simpl; [|reflexivity]. rewrite upd_other by lia. reflexivity.
  - (* somebody scales heap object j of copy w *)
    destruct (Nat.ltb_spec w W) as [Hw|Hw].
    + pose proof Inv as [Hlen Hinv]. destruct (Hinv w Hw) as (p & Hp & Hh & Hs). rewrite Hp.
      rewrite Hh. unfold heap_of. rewrite scale_cell_heap. simpl. fold (heap_of inners0 (upd (last w) j (Some f))).
      f_equal. apply IH. eapply ipool_inv_heap_step; eassumption.
    + destruct Inv as [Hlen _]. assert (E : nth_error pool w = None) by (apply nth_error_None; lia).
      rewrite E. reflexivity.
  - (* somebody scales copy w's outer composition *)
    destruct (Nat.ltb_spec w W) as [Hw|Hw].
    + pose proof Inv as [Hlen Hinv]. destruct (Hinv w Hw) as (p & Hp & Hh & Hs). rewrite Hp.
      rewrite Hh, scale_cells_heap.
      f_equal. apply IH. eapply ipool_inv_heap_step; eassumption.
    + destruct Inv as [Hlen _]. assert (E : nth_error pool w = None) by (apply nth_error_None; lia).
      rewrite E. reflexivity.
Qed.

Lemma ipool_run_interleaved : forall schedules W cfgs outer inners0 gs, (0 < W)%nat -> cfgs_ok cfgs ->
  ipool_run schedules outer (iinit_pool W cfgs inners0) (route W cfgs (fun _ => O) gs) =
  ispec_run W cfgs schedules outer inners0 (fun _ => O) (fun _ _ => None) gs.
Proof. intros. apply ipool_run_from; try assumption. apply iinit_pool_inv; assumption. Qed.

(* ---- the same statement without the spec's bookkeeping: the observation of ONE call, after any valid history ---- *)
Lemma nth_error_heap_from : forall I j0 l j,
  nth_error (heap_from j0 I l) j = option_map (fun t => cell_at t (l (j0 + j)%nat)) (nth_error I j).
Proof.
  induction I as [|t r IH]; intros j0 l j; destruct j as [|j]; simpl; try reflexivity.
  - rewrite Nat.add_0_r. reflexivity.
  - rewrite IH. replace (S j0 + j)%nat with (j0 + S j)%nat by lia. reflexivity.
Qed.

Lemma upd_cells_notin : forall js l f j, ~ In j js -> upd_cells l js f j = l j.
Proof.
  unfold upd_cells. induction js as [|a js IH]; intros l f j H; simpl; [reflexivity|].
  rewrite IH by (intros X; apply H; right; exact X). apply upd_other. intros E. apply H. left. congruence.
Qed.

Lemma upd_cells_in : forall js l f j, In j js -> upd_cells l js f j = Some f.
Proof.
  induction js as [|a js IH]; intros l f j H; [destruct H|].
  change (upd_cells l (a :: js) f) with (upd_cells (upd l a (Some f)) js f).
  destruct (in_dec Nat.eq_dec j js) as [I|I]; [apply IH; exact I|].
  rewrite upd_cells_notin by exact I. destruct H as [H|H]; [subst a; apply upd_same|contradiction].
Qed.

Lemma ispec_call_obs : forall W (cfgs : list scfg) schedules outer inners0 pre counts last k B i js post,
  nth_error cfgs k = Some (B, i, js) -> Forall (gstep_valid W (length cfgs)) pre ->
  let v := schedules k (rr_batch B (Z.of_nat (counts k + count_calls k pre))) (n_batches_of i B) in
  exists h,
    nth_error (ispec_run W cfgs schedules outer inners0 counts last (pre ++ GCall k :: post)) (length pre) = Some (v, h) /\
    forall j, In j js -> nth_error h j = option_map (fun t => tree_scale t v) (nth_error inners0 j).
Proof.
  intros W cfgs schedules outer inners0 pre. induction pre as [|g pre IH]; intros counts last k B i js post Ek Hv.
  - simpl. eexists. rewrite Ek. unfold count_calls. simpl. rewrite Nat.add_0_r. split; [reflexivity|].
    intros j Hj. unfold heap_of. rewrite nth_error_heap_from. simpl. rewrite upd_cells_in by exact Hj. reflexivity.
  - inversion Hv as [|g' pre' Hg Hpre]; subst. destruct g as [k'|w j f|w f]; simpl in Hg |- *.
    + destruct (nth_error cfgs k') as [[[B' i'] js']|] eqn:Ek'; [|apply nth_error_None in Ek'; lia].
      simpl. specialize (IH (upd counts k' (S (counts k'))) (upd last (rr_owner_nat W B' (counts k'))
                               (upd_cells (last (rr_owner_nat W B' (counts k'))) js'
                                  (schedules k' (rr_batch B' (Z.of_nat (counts k'))) (n_batches_of i' B'))))
                            k B i js post Ek Hpre).
      unfold count_calls in *. simpl. destruct (Nat.eqb_spec k' k) as [E|E].
      * subst k'. rewrite upd_same in IH. simpl. replace (counts k + S (length (filter _ pre)))%nat
          with (S (counts k) + length (filter (fun g => match g with GCall k' => Nat.eqb k' k | _ => false end) pre))%nat by lia.
        exact IH.
      * rewrite upd_other in IH by congruence. exact IH.
    + apply Nat.ltb_lt in Hg. rewrite Hg. simpl. apply IH; assumption.
    + apply Nat.ltb_lt in Hg. rewrite Hg. simpl. apply IH; assumption.
Qed.

Lemma interleaved_call_obs : forall schedules W (cfgs : list scfg) outer inners0 pre k B i js post,
  (0 < W)%nat -> cfgs_ok cfgs -> nth_error cfgs k = Some (B, i, js) -> Forall (gstep_valid W (length cfgs)) pre ->
  let v := schedules k (rr_batch B (Z.of_nat (count_calls k pre))) (n_batches_of i B) in
  exists h,
    nth_error (ipool_run schedules outer (iinit_pool W cfgs inners0)
                         (route W cfgs (fun _ => O) (pre ++ GCall k :: post))) (length pre) = Some (v, h) /\
    forall j, In j js -> nth_error h j = option_map (fun t => tree_scale t v) (nth_error inners0 j).
Proof.
  intros schedules W cfgs outer inners0 pre k B i js post HW Hc Ek Hv.
  rewrite ipool_run_interleaved by assumption.
  exact (ispec_call_obs W cfgs schedules outer inners0 pre (fun _ => O) (fun _ _ => None) k B i js post Ek Hv).
Qed.
