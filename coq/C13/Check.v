(* Executable comparison of what the real samplers showed (all ranks of one
   configuration, torch draw functions spied) with the model (replaying the
   recorded draws) and with the spec.  Used by harness/c13.py. *)
From Coq Require Import ZArith List Bool Arith.
Import ListNotations.
From KD Require Import C12.Model C12.Spec C13.Model C13.Spec.

Inductive kcfg := KCB (c : cbcfg) | KSemi (c : semicfg) | KW (c : wcfg).

(* one rank: result code (0 ok, 1 AssertionError, 2 did not return), list(sampler),
   len(sampler), manual_seed arguments, (requested size, result) of every draw on
   the epoch's generator, values of the Tensor.random_() calls *)
Definition rank_rec : Type := nat * list nat * nat * list Z * list (nat * list nat) * list Z.

(* configuration, the records of rank 0..W-1, and the stream of the same sampler
   built with world size 1 (the global draw seen from outside; [] for the semi sampler) *)
(* one sampler OBJECT of some rank driven through a call sequence: set_epoch(e) calls and list(sampler) calls, with
   what every list(sampler) showed (a fresh object: self.epoch = 0 before the first call) *)
Inductive hop := HSet (e : Z) | HIter (rr : rank_rec).
Definition hist_t : Type := nat * list hop.

(* a sampler constructed with (possibly default) rank / world_size arguments in a process with a history:
   the events of the process before the construction (C12.Model.pg_event), the rank and world_size arguments
   (None = default), the epoch set, and what len(sampler) / list(sampler) showed *)
Definition pg_rec : Type := list pg_event * option nat * option nat * Z * rank_rec.

Definition case_t : Type := kcfg * list rank_rec * list nat * hist_t * list pg_rec.

Definition replay (ds : list (nat * list nat)) : oracle := fun _ h _ => snd (nth (length h) ds (0, [])).
Definition code_of (o : outcome (list nat)) : nat := match o with Ok _ => 0 | AssertFail => 1 | Runaway => 2 end.

Definition model_run (k : kcfg) (ds : list (nat * list nat)) (rnd : list Z) (rank : nat) : option run :=
  match k with
  | KCB c => Some (cb_run c (replay ds) rank)
  | KW c => Some (w_run c (replay ds) rank)
  | KSemi c =>
      if semi_ctor_ok c then
        match rnd with
        | [rank_seed; epoch_seed] => Some (semi_run c rank_seed epoch_seed (replay ds) rank)
        | _ => None
        end
      else Some (semi_run c 0 0 (replay ds) rank)
  end.

Definition run_agrees (m : run) (rr : rank_rec) : bool :=
  let '(code, stream, len, seeds, ds, _) := rr in
  (code_of (r_out m) =? code) &&
  (if code =? 0
   then list_eqb Nat.eqb (stream_of (r_out m)) stream && (r_len m =? len)
        && list_eqb Z.eqb (r_seeds m) seeds && list_eqb Nat.eqb (r_reqs m) (map fst ds)
   else true).

Definition rank_agrees (k : kcfg) (rank : nat) (rr : rank_rec) : bool :=
  let '(_, _, _, _, ds, rnd) := rr in
  match model_run k ds rnd rank with
  | None => false
  | Some m => run_agrees m rr
  end.

(* --- the object history --- *)
Definition ops_of (hs : list hop) : list op :=
  map (fun x => match x with HSet e => SetEpoch e | HIter _ => Iterate end) hs.
Definition iters_of (hs : list hop) : list rank_rec :=
  flat_map (fun x => match x with HIter rr => [rr] | HSet _ => [] end) hs.

(* generator determinism: the draws of a generator are a function of its seed and the requests made on it, and so is
   the value of random_() on a fresh generator.  The replay oracle of a history is keyed by the seed of the drawing
   generator (the last manual_seed of a call): the draws recorded for the FIRST call that seeded so; rnd is keyed by
   the seeds of the two auxiliary generators of SemiSampler (rank, epoch). *)
Definition seed_table (recs : list rank_rec) : list (Z * list (nat * list nat)) :=
  flat_map (fun rr : rank_rec => let '(_, _, _, seeds, ds, _) := rr in
                                 match rev seeds with s :: _ => [(s, ds)] | [] => [] end) recs.
Definition replay_by_seed (tab : list (Z * list (nat * list nat))) : oracle :=
  fun seed h _ => match find (fun e => Z.eqb (fst e) seed) tab with
                  | Some (_, ds) => snd (nth (length h) ds (0, []))
                  | None => []
                  end.
Definition rnd_table (recs : list rank_rec) : list (Z * Z) :=
  flat_map (fun rr : rank_rec => let '(_, _, _, seeds, _, rnd) := rr in
                                 match seeds, rnd with
                                 | [r; e; _], [vr; ve] => [(r, vr); (e, ve)]
                                 | _, _ => []
                                 end) recs.
Definition rnd_of (tab : list (Z * Z)) : Z -> Z :=
  fun x => match find (fun e => Z.eqb (fst e) x) tab with Some (_, v) => v | None => 0%Z end.

Definition model_object (k : kcfg) (recs : list rank_rec) (rank : nat) (ops : list op) : list run :=
  let draw := replay_by_seed (seed_table recs) in
  match k with
  | KCB c => cb_object (cb_set_epoch c 0) draw rank ops
  | KW c => w_object (w_set_epoch c 0) draw rank ops
  | KSemi c => semi_object (se_set_epoch c 0) (rnd_of (rnd_table recs)) draw rank ops
  end.

Definition hist_agrees (k : kcfg) (h : hist_t) : bool :=
  let '(rank, hs) := h in
  let recs := iters_of hs in
  let ms := model_object k recs rank (ops_of hs) in
  (length ms =? length recs) && forallb (fun '(m, rr) => run_agrees m rr) (combine ms recs).

(* --- samplers built with default arguments under a process-group history --- *)
Definition built_agrees (k : kcfg) (p : pg_rec) : bool :=
  let '(evs, rank, world, e, rr) := p in
  let '(_, _, _, _, ds, rnd) := rr in
  let g := pg_after pg_fresh evs in
  match k with
  | KCB c => run_agrees (cb_built (cb_set_epoch c e) rank world g (replay ds)) rr
  | KW c => run_agrees (w_built (w_set_epoch c e) rank world g (replay ds)) rr
  | KSemi c =>
      let '(r, _) := resolve_rank_world rank world g in
      let c' := se_set_epoch c e in
      if semi_ctor_ok c' then
        match rnd with
        | [rank_seed; epoch_seed] =>
            run_agrees (semi_built c' rank world g
                          (fun x => if Z.eqb x (Z.of_nat r) then rank_seed else epoch_seed) (replay ds)) rr
        | _ => false
        end
      else run_agrees (semi_built c' rank world g (fun _ => 0%Z) (replay ds)) rr
  end.

Definition cfg_epoch (k : kcfg) : Z :=
  match k with KCB c => cb_epoch c | KSemi c => se_epoch c | KW c => w_epoch c end.

(* spec of a history, on the implementation's output only: every list(sampler) call has len(sampler) = L entries;
   two calls under the same epoch show the same stream; a call under the case's epoch shows the stream of the fresh
   sampler of that rank *)
Definition hist_spec (k : kcfg) (L : nat) (streams : list (list nat)) (h : hist_t) : bool :=
  let '(rank, hs) := h in
  let tagged := combine (iter_epochs 0 (ops_of hs)) (iters_of hs) in
  forallb (fun '(e1, (_, st1, len1, _, _, _)) =>
             (len1 =? L) && (length st1 =? L) &&
             (if Z.eqb e1 (cfg_epoch k) then list_eqb Nat.eqb st1 (nth rank streams []) else true) &&
             forallb (fun '(e2, (_, st2, _, _, _, _)) => if Z.eqb e1 e2 then list_eqb Nat.eqb st1 st2 else true) tagged)
          tagged.

Definition world (k : kcfg) : nat := match k with KCB c => cb_W c | KSemi c => se_W c | KW c => w_W c end.

Definition spec_mode (m : lmode) : length_mode :=
  match m with MLabeled => ByLabeled | MUnlabeled => ByUnlabeled | _ => ByAll end.

Definition spec_holds (k : kcfg) (recs : list rank_rec) (G : list nat) (h : hist_t) : bool :=
  let streams := map (fun '(_, st, _, _, _, _) => st) recs in
  let L := match recs with (_, _, len, _, _, _) :: _ => len | [] => 0 end in
  let W := world k in
  (* every rank reports the same len(sampler) and yields exactly that many indices *)
  forallb (fun '(_, st, len, _, _, _) => (len =? L) && (length st =? L)) recs &&
  (* one object over several epochs / iterated again *)
  (if forallb (fun '(code, _, _, _, _, _) => code =? 0) (iters_of (snd h)) then hist_spec k L streams h else true) &&
  match k with
  | KCB c =>
      let classes := cb_classes c in
      let C := cb_C c in let spc := cb_spc c in
      (L =? C * spc / W) &&
      exact_per_classb classes C spc G && reuse_evenb classes C spc G &&
      indices_validb (length classes) G && forallb (indices_validb (length classes)) streams &&
      split_ofb true W L G streams
  | KSemi c =>
      let classes := se_classes c in
      (L =? epoch_length (spec_mode (se_mode c)) (length (labeled_pool classes)) (length (unlabeled_pool classes))
                         (se_L c) (se_U c) / W) &&
      forallb (fun s => alternationb classes (se_L c) (se_U c) s &&
                        blocks_exhaustb (labeled_pool classes) (labeled_picks classes s) &&
                        blocks_exhaustb (unlabeled_pool classes) (unlabeled_picks classes s)) streams
  | KW c =>
      let E := match w_size c with Some s => s | None => w_n c end in
      (L =? E / W) && (length G =? E) &&
      nodupb (interleave streams) && nodupb G &&
      indices_validb (w_n c) G && forallb (indices_validb (w_n c)) streams &&
      split_ofb true W L G streams
  end.

(* 0 = implementation, model and spec agree; 1 = the model differs from the
   implementation; 2 = the spec is false of the implementation's output
   (whether or not the model agrees) *)
Definition check (t : case_t) : nat :=
  let '(k, recs, G, h, pgs) := t in
  if forallb (fun '(code, _, _, _, _, _) => code =? 0) recs && negb (spec_holds k recs G h) then 2
  else if negb ((length recs =? world k) &&
                forallb (fun '(rank, rr) => rank_agrees k rank rr) (combine (seq 0 (length recs)) recs) &&
                hist_agrees k h && forallb (built_agrees k) pgs)
  then 1
  else 0.
