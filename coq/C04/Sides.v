(* the model's side passes equal the spec's: batching flags, offsets, due test *)
From Coq Require Import ZArith List Bool Lia.
Import ListNotations.
From KD Require Import C04.Model C04.Spec C04.Lists C04.Arith.
Open Scope Z_scope.

Lemma mod_step n k0 x : 0 < n -> k0 mod n = 0 -> 0 <= x < n -> (k0 + x) mod n = x.
Proof.
  intros Hn H0 Hx. rewrite Z.add_mod by lia. rewrite H0, Z.add_0_l, Z.mod_mod by lia.
  apply Z.mod_small. lia.
Qed.
Lemma mod_full n k0 : 0 < n -> k0 mod n = 0 -> (k0 + n) mod n = 0.
Proof.
  intros Hn H0. rewrite Z.add_mod by lia. rewrite H0, Z_mod_same_full. reflexivity.
Qed.

Section SidePass.
  Variables (ci : nat) (ibs len_ off : Z).
  Hypothesis Hibs : 0 < ibs.

  (* one batch of a side pass *)
  Lemma side_pass_batch : forall bt rest k0 r,
    bt <> [] -> k0 mod ibs = 0 -> 0 <= r -> r + len bt <= ibs -> k0 + r + len bt <= len_ ->
    (r + len bt = ibs \/ k0 + r + len bt = len_) ->
    side_pass_aux ci ibs len_ off (k0 + r) (bt ++ rest) =
    emit (Side ci) (map (Z.add off) bt) ++ side_pass_aux ci ibs len_ off (k0 + r + len bt) rest.
  Proof.
    induction bt as [|i bt IH]; intros rest k0 r Hne Hk Hr Hle Hle2 Hclose; [congruence|].
    destruct bt as [|j bt].
    - (* last element of the batch: flag true *)
      rewrite len_cons, len_nil in *. cbn [app side_pass_aux map emit].
      replace (k0 + r + (1 + 0)) with (k0 + r + 1) by lia.
      assert (((k0 + r + 1) mod ibs =? 0) || (k0 + r + 1 =? len_) = true) as ->.
      { destruct Hclose as [Hc|Hc].
        - replace (k0 + r + 1) with (k0 + ibs) by lia. rewrite mod_full by auto. reflexivity.
        - apply orb_true_iff. right. apply Z.eqb_eq. lia. }
      reflexivity.
    - rewrite len_cons in *. 
      change ((i :: j :: bt) ++ rest) with (i :: ((j :: bt) ++ rest)).
      cbn [side_pass_aux]. rewrite map_cons, (map_cons _ j), emit_cons2.
      pose proof (len_nonneg bt). rewrite (len_cons j bt) in *.
      assert (((k0 + r + 1) mod ibs =? 0) || (k0 + r + 1 =? len_) = false) as ->.
      { apply orb_false_iff. split.
        - replace (k0 + r + 1) with (k0 + (r + 1)) by lia. rewrite mod_step by (auto; lia).
          apply Z.eqb_neq. lia.
        - apply Z.eqb_neq. lia. }
      replace (k0 + r + 1) with (k0 + (r + 1)) by lia.
      rewrite <- map_cons.
      change (j :: bt ++ rest) with ((j :: bt) ++ rest).
      rewrite (IH rest k0 (r + 1)); try lia; try discriminate; auto.
      rewrite <- app_comm_cons. f_equal. f_equal. f_equal. lia.
  Qed.

  (* a whole pass: chunks of ibs with a short final one *)
  Lemma side_pass_chunks : forall l k0,
    k0 mod ibs = 0 -> len_ = k0 + len l ->
    side_pass_aux ci ibs len_ off k0 l =
    flat_map (emit (Side ci)) (chunk (Z.to_nat ibs) (map (Z.add off) l)).
  Proof.
    intros l. pattern l. apply (chunk_ind (Z.to_nat ibs)); [lia| |].
    - intros k0 _ _. reflexivity.
    - intros x l0 IH k0 Hk Hlen.
      rewrite map_cons, chunk_cons by lia. rewrite <- map_cons. cbn [flat_map].
      rewrite <- (firstn_skipn (Z.to_nat ibs) (x :: l0)) at 1.
      set (bt := firstn (Z.to_nat ibs) (x :: l0)) in *.
      set (rest := skipn (Z.to_nat ibs) (x :: l0)) in *.
      assert (Hbt : len bt = Z.min ibs (len (x :: l0))).
      { unfold bt, len. rewrite firstn_length. lia. }
      assert (Hrest : len (x :: l0) = len bt + len rest).
      { rewrite <- len_app. unfold bt, rest. now rewrite firstn_skipn. }
      assert (bt <> []) as Hne.
      { unfold bt. destruct (Z.to_nat ibs) eqn:E; [lia|]. discriminate. }
      pose proof (len_nonneg rest). rewrite len_cons in *. pose proof (len_nonneg l0).
      replace k0 with (k0 + 0) at 1 by lia.
      rewrite (side_pass_batch bt rest k0 0); auto; try lia.
      rewrite firstn_map, skipn_map. fold bt rest. f_equal.
        destruct (Z.eq_dec (len bt) ibs) as [E|E].
        * rewrite <- (IH (k0 + 0 + len bt)).
          -- reflexivity.
          -- replace (k0 + 0 + len bt) with (k0 + ibs) by lia. now apply mod_full.
          -- lia.
        * assert (rest = []) as ->.
          { assert (len rest = 0) by lia. destruct rest; [reflexivity|rewrite len_cons in *; pose proof (len_nonneg rest); lia]. }
          reflexivity.
  Qed.
End SidePass.

Section Sides.
  Variables (c : cfg) (mi : Z -> list Z).
  Hypothesis W : WF c mi.

  Definition sum_ds (l : list side_cfg) : Z := fold_right Z.add 0 (map dslen l).

  Lemma side_pass_eq ci sc p : wf_side sc ->
    side_pass c ci (offset_of c ci) sc p = side_events c ci sc p.
  Proof.
    intros [_ [_ [_ [Hb [Hl _]]]]]. unfold side_pass, side_events. rewrite (lB_eq c mi W).
    assert (0 < or_default (sbs sc) (cB c)) as Hibs.
    { unfold or_default. destruct (sbs sc) eqn:E; [now apply Hb|]. pose proof (wf_B c mi W). lia. }
    apply side_pass_chunks; auto. specialize (Hl p). lia.
  Qed.

  Lemma should_iter_due sc (k : counters) : wf_side sc -> k_prev_sample k < k_sample k ->
    should_iter sc (k_epoch_end k) (k_epoch k) (k_update k) (k_sample k) (k_prev_sample k) = due sc k.
  Proof.
    intros [_ [_ [Hs _]]] Hlt. unfold should_iter, due. f_equal.
    destruct (ens sc) as [n|] eqn:E; [|reflexivity].
    apply samples_test_crossed; auto.
  Qed.

  Lemma offset_of_app pre l : sides c = pre ++ l -> offset_of c (length pre) = dsN c + sum_ds pre.
  Proof. intros H. unfold offset_of, sum_ds. rewrite H, firstn_app_exact. reflexivity. Qed.

  Lemma sum_ds_snoc pre sc : sum_ds (pre ++ [sc]) = sum_ds pre + dslen sc.
  Proof. unfold sum_ds. induction pre; simpl; lia. Qed.

  (* the sampler objects' iteration counts after an update: one more for every due config *)
  Fixpoint bump (l : list side_cfg) (pn : list nat) (k : counters) : list nat :=
    match l, pn with
    | sc :: l', p :: pn' => (if due sc k then S p else p) :: bump l' pn' k
    | _, _ => []
    end.

  Lemma sides_pass_eq (k : counters) : k_prev_sample k < k_sample k ->
    forall l pre pn, sides c = pre ++ l ->
    sides_pass c (length pre) (offsets_from (dsN c + sum_ds pre) l) l pn
               (k_epoch_end k) (k_epoch k) (k_update k) (k_sample k) (k_prev_sample k)
    = (passes_from c (length pre) l pn k, bump l pn k).
  Proof.
    intros Hlt. induction l as [|sc l IH]; intros pre pn Hs; [reflexivity|].
    assert (wf_side sc) as Hw.
    { pose proof (wf_sides c mi W) as HF. rewrite Hs in HF. apply Forall_app in HF.
      destruct HF as [_ HF]. now inversion HF. }
    destruct pn as [|p pn]; [reflexivity|].
    cbn [offsets_from sides_pass passes_from bump].
    rewrite should_iter_due by auto.
    specialize (IH (pre ++ [sc]) pn). rewrite app_length in IH. simpl length in IH.
    replace (length pre + 1)%nat with (S (length pre)) in IH by lia.
    rewrite sum_ds_snoc in IH.
    replace (dsN c + sum_ds pre + dslen sc) with (dsN c + (sum_ds pre + dslen sc)) by lia.
    rewrite IH by (rewrite <- app_assoc; exact Hs).
    rewrite <- (offset_of_app pre (sc :: l)) by auto. rewrite side_pass_eq by auto.
    reflexivity.
  Qed.

  Lemma sides_pass_spec (k : counters) pn : k_prev_sample k < k_sample k ->
    sides_pass c 0 (offsets c) (sides c) pn
               (k_epoch_end k) (k_epoch k) (k_update k) (k_sample k) (k_prev_sample k)
    = (passes_from c 0 (sides c) pn k, bump (sides c) pn k).
  Proof.
    intros Hlt. pose proof (sides_pass_eq k Hlt (sides c) [] pn eq_refl) as H.
    unfold sum_ds in H. simpl in H. rewrite Z.add_0_r in H. exact H.
  Qed.

  (* zero budget: the eval loop is one pass over every config *)
  Lemma eval_loop_eq : forall l pre pn, sides c = pre ++ l ->
    eval_loop c (length pre) (offsets_from (dsN c + sum_ds pre) l) l pn = spec_eval c (length pre) l pn.
  Proof.
    induction l as [|sc l IH]; intros pre pn Hs; [reflexivity|].
    assert (wf_side sc) as Hw.
    { pose proof (wf_sides c mi W) as HF. rewrite Hs in HF. apply Forall_app in HF.
      destruct HF as [_ HF]. now inversion HF. }
    destruct pn as [|p pn]; [reflexivity|].
    cbn [offsets_from eval_loop spec_eval].
    rewrite <- (offset_of_app pre (sc :: l)) by auto. rewrite side_pass_eq by auto. f_equal.
    specialize (IH (pre ++ [sc]) pn). rewrite app_length in IH. simpl length in IH.
    replace (length pre + 1)%nat with (S (length pre)) in IH by lia.
    rewrite sum_ds_snoc in IH. rewrite (offset_of_app pre (sc :: l)) by auto.
    replace (dsN c + sum_ds pre + dslen sc) with (dsN c + (sum_ds pre + dslen sc)) by lia.
    apply IH. rewrite <- app_assoc. exact Hs.
  Qed.

  Lemma eval_loop_spec pn : eval_loop c 0 (offsets c) (sides c) pn = spec_eval c 0 (sides c) pn.
  Proof.
    pose proof (eval_loop_eq (sides c) [] pn eq_refl) as H.
    unfold sum_ds in H. simpl in H. rewrite Z.add_0_r in H. exact H.
  Qed.
End Sides.

(* index_offsets as built by the constructor (one entry for the main data source,
   one more per config but the last) is what the loops index with config_idx *)
Lemma index_offsets_from_eq : forall l acc, l <> [] ->
  acc :: index_offsets_from acc (removelast l) = offsets_from acc l.
Proof.
  induction l as [|sc l IH]; intros acc Hne; [congruence|].
  destruct l as [|sc' r]; [reflexivity|].
  change (removelast (sc :: sc' :: r)) with (sc :: removelast (sc' :: r)).
  cbn [index_offsets_from offsets_from]. f_equal. apply IH. discriminate.
Qed.
Lemma index_offsets_eq c : sides c <> [] -> index_offsets c = offsets c.
Proof. intros H. unfold index_offsets, offsets. now apply index_offsets_from_eq. Qed.

(* the k-th entry is the main data source's length plus the lengths of the data
   sources of the configs before k *)
Lemma offsets_nth c ci : (ci < length (sides c))%nat -> nth ci (offsets c) 0 = offset_of c ci.
Proof.
  unfold offsets, offset_of. generalize (dsN c) as acc. generalize (sides c) as l. revert ci.
  induction ci as [|ci IH]; intros l acc Hl; (destruct l as [|sc l]; [simpl in Hl; lia|]).
  - cbn. lia.
  - cbn [offsets_from nth firstn map fold_right]. simpl in Hl. rewrite IH by lia. lia.
Qed.
