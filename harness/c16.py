"""C16 — label-rewriting wrappers are coherent, in range and reproducible.

Runs the REAL wrappers (class groups, random superclass, swap label, overwrite classes, all-gather, pseudo label,
random class, semi, label smoothing, one-hot) over generated label layouts with spy generators that record every
random draw, compares per-sample accessor, bulk accessor and class-shape query with the Coq model
(coq/C16/Model.v, vm_compute) and states the property directly in Python on what the real code returned."""
import math
import types
from fractions import Fraction

from .common import C as K, Nat, Opt, Raw, Rec, coq

ID = "C16"
COQ_FILES = ["C16/Model.v", "C16/Spec.v", "C16/Check.v", "C16/Proofs.v", "C16/Property.v"]
COQ_PRELUDE = ("From Coq Require Import ZArith List Bool QArith.\nImport ListNotations.\n"
               "From KD Require Import C16.Model C16.Spec C16.Check.\nOpen Scope Z_scope.\n")
COQ_CHECK = "check"
COQ_CASE_TYPE = "case_t"
SHARD = 150
ALLOWED_AXIOMS = []
TRUSTED = [
    "ops histories (accessor order, setter calls, rewritten table files) are judged by the Python oracle only (oracle_ops: per "
    "step and per wrapper of the stack bulk == per-sample, labels inside the range announced at that moment, random class / "
    "pseudo label / overwrite equal in both accessors and shape to a FRESH wrapper built in memory from the current settings "
    "on a pristine dataset); the Coq model covers the stack up to the first ops step",
    "label-source-change histories are judged by the Python oracle only (oracle_source_change: bulk == per-sample for the "
    "wrapper under test, every layer of the wrapped stack and every sibling; SNAPSHOT_KINDS keep the construction-time "
    "labels in both accessors, LIVE_KINDS follow the current wrapped labels in both, class -> group maps and slots of "
    "class groups / superclass stay as fixed at construction); the Coq model covers the stack up to that step",
    "hand-written model coq/C16/Model.v of the ten wrappers (repaired tree); tied to KD_REPO by this run's "
    "correspondence evaluation (per-sample list, bulk list, shape, recorded draws)",
    "harness/c16.py: spy generators (module-level `np` / `torch` names of the wrapper modules are replaced by recording "
    "proxies for the duration of a case), case rendering, exact float->rational conversion",
    "float decisions are shipped as outcomes (rng.random() < p, k = int(n * semi_percent) in double precision; row argmax and "
    "row top-k indices by the harness's own torch.argmax / torch.topk call on the float32 row, the Python oracle accepts any "
    "index of a maximal / top-k VALUE); torch's argmax / topk / softmax themselves are not modelled",
    "thresholded pseudo labels: the decision `softmax(row).max() > threshold` is shipped three times -- the rule evaluated by "
    "the harness (float32 softmax of the single row, torch's tensor-vs-Python-float comparison; cross-checked in double "
    "precision whenever the confidence is >= 1e-3 away from the threshold), the outcome on the real per-sample path and the "
    "outcome on the real bulk path (each read off that path's answer: -1 iff the comparison was false); Check.decisions_code "
    "tests the premise of the coherence theorem (equal decisions) on them",
    "draw contracts: integers(lo,hi) in [lo,hi), permutation(n) / randperm(n) a permutation, permuted(x) a rearrangement "
    "of x, multinomial(1,w) one-hot of length len(w) — each is evaluated on the recorded draws in Coq (Check.draws_okb)",
    "einops.rearrange '(s w) -> (w s)' is out[w*S+s] = in[s*W+w]; np.argsort of a permutation is its inverse; "
    "iteration order of the python set SemiWrapper.semi_idxs is irrelevant (all writes store -1)",
    "'wrapped data other than the label is untouched': Model.wrap states it at model level (a wrapper replaces the class "
    "accessors of a dataset and nothing else; theorem other_items_untouched is then immediate) -- that the real wrapper "
    "classes have this shape is a translator-free STRUCTURAL check of the harness on every case: the class dicts between the "
    "wrapper's type and KDWrapper define no accessor that shadows one of the wrapped dataset and none of __len__ / "
    "__getitem__ / __getattr__ / getshape / getdim (c16.shadowed_accessors), plus the observed pass-through of getitem_x / "
    "getall_x; 'the wrapped dataset's own labels are unchanged after every accessor call' is checked on the real objects "
    "(labels re-read after the constructor and each accessor) by the Python oracle and Check.check (code 5)",
    "'a function of the constructor arguments and seed': every case is built twice under different states of the "
    "process-wide generators (numpy legacy, torch default, python random); a seeded wrapper must give the same labels and "
    "leave all three generators untouched (fingerprint before / after); seeds 0 and 1 are over-represented",
    "label smoothing / one-hot theorems are over Q; the float32 results are compared with the rational model within 1e-6",
]
ASSUMPTIONS = [
    "class-group wrapper: group size divides the class count (otherwise only coherence is checked)",
    "all-gather wrapper and the gatherbug mode: 1 <= world_size <= dataset size",
    "wrapped labels in [0,C) or -1 for every wrapper (class groups / superclass index their tables with -1 from the end "
    "and so give an unlabeled sample a real class of the last group: in the announced range, not -1; smoothing and one-hot "
    "keep an unlabeled sample marked with a vector of -1)",
    "overwrite classes / hard pseudo labels: the user-provided labels are themselves in [0,C) or -1",
    "pseudo labels with seed=None (dynamic) are resampled on every access by design: only range is claimed there",
    "re-encoding wrappers (smoothing, one-hot): the bulk accessor intentionally stays the integer label; the claim is "
    "argmax(getitem_class(i)) == getall_class()[i] (DESIGN.md reading decision)",
    "binary convention (getshape_class == (1,) with labels 0/1/-1): exercised for label smoothing (which implements it) and for "
    "the wrappers that do not use the class count as a table size (swap, overwrite, all-gather, hard pseudo labels, random "
    "class, semi): coherence, untouched data, reproducibility and labels in {0,1,-1} are claimed, the 'announced range' clause "
    "is not (label 1 is outside [0, shape) by the convention itself) and these cases are judged by the Python oracle only "
    "(the Coq contract speaks about [0, C)); class groups / superclass / one-hot read the shape as "
    "the number of classes and raise on label 1 -- not generated",
]
RULE = ("one wrapper kind per case (12 kinds incl. 4 pseudo-label table kinds), n in 1..24 (thorough ..60), C in 1..10 "
        "(..20), label layouts uniform/sorted/single-class/skewed with -1 entries where the wrapper allows them, "
        "optionally wrapped around a KDRandomClassWrapper and (25%) stacked on 1-3 further label wrappers (swap, all-gather, "
        "semi, overwrite, pseudo label hard/soft/thresholded, random class, class groups, class-permuting superclass); group sizes (mostly divisors of C), splits 1..3, swap p in "
        "{0,1,grid}, world sizes 1..n, semi percent grid, smoothing a/b; non-trivial = at least one sample's label differs "
        "from the wrapped label or an encoding vector is produced; distinct by (kind, params, n, C, labels hash); root dataset "
        "storage list / ndarray / tensor handed out as is or copied (6 providers, array-backed over-represented); 30% of the "
        "cases with C > 1 carry a construction history (1-3 siblings before, 0-2 after: same kind with another seed / other "
        "kinds, beside / stacked / on top of the wrapper under test); directed: every seeded kind x every own-storage provider "
        "with a same-kind-other-seed sibling; 30% of the cases (and a directed block: every kind x every provider x "
        "{root, inner}) end with a LABEL-SOURCE CHANGE after everything was built -- the root dataset's label storage "
        "edited in place (whole list or one corrected annotation) or the inner KDRandomClassWrapper re-configured through "
        "its setters (seed / mode='randperm') -- after which the wrapper under test, every layer below it and every "
        "sibling are read again through both accessors; ACCESSOR ORDER is generated: 30% of the cases ask the bulk accessor "
        "first of the new wrapper, and 30% (70% of the file-backed ones; directed block directed_ops) end with an ops history "
        "of 1-4 steps on the finished stack, each = optionally a public setter call (KDRandomClassWrapper.seed / .mode / "
        ".num_classes of the wrapper under test, an under-layer or the inner wrapper; KDPseudoLabelWrapper.threshold / .seed) "
        "or a change of the table file behind uri= (pseudo-label tables of all kinds incl. dict(label, confidence) and "
        "overwrite tables are supplied through torch.save'd files in 35% of those cases, str or Path; the file is "
        "torch.save'd over with another table of the same shape, overwritten byte-wise through r+b, truncated and zero-filled, "
        "or deleted), then every wrapper of the stack is read in the step's order (bulk / per-sample / shape permutations, "
        "interleaved)")

# wrappers that may SHOW the -1 marker (pass it through or create it)
UNLABELED_OK = {"swap", "overwrite", "allgather", "pseudo", "semi", "smoothing"}
# wrappers that accept -1 among the wrapped labels: all of the above, and class groups / superclass / random class, which
# turn it into a real class (numpy negative indexing / labels ignored) -- in range, so fine by the property text
UNLABELED_IN = UNLABELED_OK | {"class_groups", "superclass", "random_class", "onehot"}
KINDS = ["class_groups", "superclass", "swap", "overwrite", "allgather", "pseudo", "random_class", "semi",
         "smoothing", "onehot"]


# ---------------------------------------------------------------------------
# case generation
# ---------------------------------------------------------------------------
def gen_labels(rng, n, C, unl):
    layout = rng.choice(["uniform", "uniform", "sorted", "single", "skewed"])
    if layout == "uniform":
        ls = [rng.randrange(C) for _ in range(n)]
    elif layout == "sorted":
        ls = sorted(rng.randrange(C) for _ in range(n))
    elif layout == "single":
        ls = [rng.randrange(C)] * n
    else:
        a = rng.randrange(C)
        ls = [a if rng.random() < 0.7 else rng.randrange(C) for _ in range(n)]
    if unl and rng.random() < 0.5:
        q = rng.choice([0.1, 0.3, 0.6])
        ls = [-1 if rng.random() < q else y for y in ls]
    return ls


def gen_table(rng, n, C, probs):
    rows = []
    for _ in range(n):
        if probs:
            a = rng.sample(range(1, 1000), C)
            s = sum(a)
            rows.append([x / s for x in a])
        else:
            rows.append([x / 1000 for x in rng.sample(range(-3000, 3000), C)])
    return rows


def gen_tie_row(rng, C, probs):
    """a row built to hit ties and boundaries exactly in float32: saturated two-way / k-way ties (confidence exactly
    1/2, 1/k), uniform rows (exactly 1/C for C a power of two), saturated rows (exactly 1.0), rows of few repeated
    values (ties inside and at the edge of the top-k); probability rows are dyadic, non-negative and sum to <= 1"""
    if probs:
        m = rng.randint(1, min(C, 8))
        row = [0.0] * C
        for j in rng.sample(range(C), m):
            row[j] = 0.125
        if m < min(C, 8) and rng.random() < 0.4:
            row[rng.choice([j for j in range(C) if row[j] == 0.0])] = 0.0625
        return row
    style = rng.choice(["tie2", "tiek", "uniform", "saturated", "dup", "dup"])
    if style == "tie2" and C >= 2:
        row = [-50.0] * C
        for j in rng.sample(range(C), 2):
            row[j] = 50.0
        return row
    if style == "tiek" and C >= 2:
        k = rng.choice([k for k in (2, 4, 8, 16) if k <= C])
        row = [-60.0] * C
        for j in rng.sample(range(C), k):
            row[j] = 40.0
        return row
    if style == "uniform":
        return [rng.choice([0.0, 1.5, -2.0, 7.0])] * C
    if style == "saturated":
        row = [-60.0] * C
        row[rng.randrange(C)] = 60.0
        return row
    return [float(rng.choice([-1, 0, 1, 2])) for _ in range(C)]


def softmax_max(row):
    """confidence of a row in double precision (independent of torch)"""
    m = max(row)
    e = [math.exp(x - m) for x in row]
    return 1.0 / sum(e)


def row32(row):
    """the float32 numbers the wrapper sees, as exact doubles"""
    import torch
    return torch.tensor(row, dtype=torch.float32).tolist()


def conf32(row):
    """the row's confidence as the wrapper's rule defines it: max of the float32 softmax of the row (0-d tensor)"""
    import torch
    return torch.tensor(row, dtype=torch.float32).softmax(dim=0).max()


def rule_above(row, threshold):
    """`softmax(row).max() > threshold` evaluated on its own by the harness with the float32 softmax of this one row
    and torch's comparison of a float32 tensor with a Python float"""
    return bool(conf32(row) > threshold)


def argmax32(row):
    import torch
    return int(torch.tensor(row, dtype=torch.float32).argmax())


def topk32(row, k):
    import torch
    return [int(j) for j in torch.tensor(row, dtype=torch.float32).topk(k=k).indices.tolist()]


def gen_threshold(rng, table, C):
    """thresholds on and next to the boundaries: the classic values, 1/C, the exact float32 confidence of one of the
    rows (as a double), its float32 neighbours, a double that rounds to it, and arbitrary ones"""
    import numpy as np
    c = float(conf32(rng.choice(table)))
    return rng.choice([
        0.5, 1.0, 1.0 / C, 0.25, 0.0, 0.99, 0.3,
        c, c, c,
        float(np.nextafter(np.float32(c), np.float32(2.0))), float(np.nextafter(np.float32(c), np.float32(-1.0))),
        c + 1e-10, c - 1e-10, c - 0.01, c + 0.01, round(rng.random(), 3),
    ])


def gen_seed(rng):
    """seeds incl. the falsy 0 (an `if seed:` test would fall back to the global generator) and 1"""
    return rng.choice([0, 0, 0, 1, rng.randint(0, 9999), rng.randint(0, 9999), rng.randint(0, 9999), rng.randint(0, 9999)])


def gen_under(rng, n, C):
    """one more label-rewriting wrapper to put UNDER the wrapper of the case (they keep length and class count)"""
    k = rng.choice(["swap", "allgather", "semi", "semi", "overwrite", "pseudo", "pseudo", "random_class", "class_groups",
                    "superclass"])
    if k == "superclass":       # one class per superclass, one split: a permutation of the classes (keeps the class count)
        return {"w": "superclass", "cps": 1, "splits": 1, "shuffle": rng.random() < 0.7, "seed": gen_seed(rng)}
    if k == "swap":
        return {"w": "swap", "p": rng.choice([0.25, 0.5, 1.0]), "seed": gen_seed(rng)}
    if k == "allgather":
        return {"w": "allgather", "W": rng.randint(1, n)}
    if k == "semi":
        return {"w": "semi", "pct": rng.choice([0.3, 0.5, 0.7, 1.0]), "seed": gen_seed(rng)}
    if k in ("overwrite", "pseudo"):
        spec = _gen_under_table(rng, n, C, k)
        if rng.random() < 0.25:
            spec["via"] = gen_via(rng, spec)
        return spec
    return _gen_under_rest(rng, n, C, k)


def _gen_under_table(rng, n, C, k):
    if k == "overwrite":
        return {"w": "overwrite", "classes": gen_labels(rng, n, C, True), "as_tensor": rng.random() < 0.5}
    if k == "pseudo":
        if C == 1 or rng.random() < 0.4:
            return {"w": "pseudo", "mode": "hard", "table": gen_labels(rng, n, C, True), "as2d": False, "seed": None}
        table = [gen_tie_row(rng, C, False) if rng.random() < 0.3 else r for r in gen_table(rng, n, C, probs=False)]
        if rng.random() < 0.3:
            return {"w": "pseudo", "mode": "soft", "table": table, "tau": None, "seed": None}
        return {"w": "pseudo", "mode": "thr", "table": table, "tau": None, "seed": None,
                "threshold": gen_threshold(rng, table, C)}
    raise ValueError(k)


def _gen_under_rest(rng, n, C, k):
    if k == "random_class":
        return {"w": "random_class", "mode": rng.choice(["random", "randperm"]), "num_classes": None, "seed": gen_seed(rng)}
    divs = [d for d in range(1, C + 1) if C % d == 0]
    return {"w": "class_groups", "cpg": rng.choice(divs), "shuffle": rng.random() < 0.5, "seed": gen_seed(rng)}


SEEDED_KINDS = {"class_groups", "superclass", "swap", "random_class", "semi"}
# wrappers that can sit on top of any label wrapper of this file whatever its class count (they take the class count
# from the dataset they wrap and keep it)
ON_TOP_KINDS = ["swap", "swap", "semi", "allgather", "random_class"]


def other_seed(rng, seed):
    while True:
        s = gen_seed(rng)
        if s != seed:
            return s


def gen_sibling(rng, case, allow_same=True):
    """one more wrapper for the construction history: the wrapper of the case once more with ANOTHER seed (same class,
    same arguments) or any label wrapper that keeps length and class count; -> (spec, keeps the class count)"""
    k = case["w"]
    if allow_same and rng.random() < 0.45 and (k in SEEDED_KINDS or (k == "pseudo" and case.get("mode") == "topk")):
        spec = {kk: v for kk, v in case.items() if kk not in ("labels", "n", "C", "inner", "under", "hist", "post", "prov", "src", "ops", "first")}
        spec["seed"] = other_seed(rng, case.get("seed"))
        return spec, False
    return gen_under(rng, case["n"], case["C"]), True


def gen_history(rng, case):
    """construction history on the objects of the case: `hist` = wrappers built (and mostly read) BEFORE the wrapper
    under test, beside it on the same wrapped dataset object or stacked on an earlier sibling; `post` = wrappers built
    AFTER it, beside it, on top of it or on top of a sibling (then the wrapper under test is read again).
    on = -1: on the wrapped dataset, -2: on the wrapper under test, j >= 0: on sibling j"""
    hist, post, keeps = [], [], []

    def step(spec, on):
        return {"spec": spec, "on": on, "read": rng.random() < 0.8}

    for _ in range(rng.choice([1, 1, 1, 2, 2, 3])):
        spec, keep = gen_sibling(rng, case)
        bases = [j for j, kp in enumerate(keeps) if kp]
        on = rng.choice(bases) if bases and rng.random() < 0.35 else -1
        hist.append(step(spec, on))
        keeps.append(keep)
    if rng.random() < 0.4:
        for _ in range(rng.choice([1, 1, 2])):
            r = rng.random()
            # (not on a re-encoding wrapper -- its per-sample labels are vectors -- and not on sampled pseudo labels,
            # whose bulk accessor raises NotImplementedError by design)
            if r < 0.4 and case["w"] not in ("smoothing", "onehot") and case.get("mode") != "topk":
                n = case["n"]
                kind = rng.choice(ON_TOP_KINDS)
                spec = {"swap": {"w": "swap", "p": rng.choice([0.25, 0.5, 1.0]), "seed": gen_seed(rng)},
                        "semi": {"w": "semi", "pct": rng.choice([0.3, 0.5, 1.0]), "seed": gen_seed(rng)},
                        "allgather": {"w": "allgather", "W": rng.randint(1, n)},
                        "random_class": {"w": "random_class", "mode": "random", "num_classes": None,
                                         "seed": gen_seed(rng)}}[kind]
                post.append(step(spec, -2))
                keeps.append(False)
            else:
                spec, keep = gen_sibling(rng, case)
                bases = [j for j, kp in enumerate(keeps) if kp]
                post.append(step(spec, rng.choice(bases) if bases and r > 0.8 else -1))
                keeps.append(keep)
    return hist, post


# which accessors follow the wrapped dataset after construction (read off the code, mirrored by the oracle):
#   snapshot-at-construction for BOTH accessors: swap (np.where over the labels fetched by the constructor), overwrite /
#   pseudo / random_class (labels come from the wrapper's own arguments, the wrapped labels are never shown);
#   live for BOTH accessors: semi, allgather, smoothing, onehot (pure functions of the current wrapped label and the
#   index), class_groups / superclass (class -> group map and per-sample slot fixed at construction, applied to the
#   CURRENT wrapped label)
SNAPSHOT_KINDS = {"swap", "overwrite", "pseudo", "random_class"}
LIVE_KINDS = {"semi", "allgather", "smoothing", "onehot", "class_groups", "superclass"}


def gen_src(rng, case):
    """history step 'the wrapped dataset's labels change AFTER the wrapper was built': the root dataset's label storage
    is corrected in place, or an inner KDRandomClassWrapper is re-configured through its public setters"""
    n, C, k = case["n"], case["C"], case["w"]
    if case.get("inner") is not None and rng.random() < 0.7:
        if rng.random() < 0.6:
            return {"how": "inner_seed", "seed": other_seed(rng, case["inner"])}
        return {"how": "inner_mode", "mode": "randperm"}
    if k == "smoothing" and C == 1:
        new = [rng.choice([0, 1, 1, -1]) for _ in range(n)]
    else:
        new = gen_labels(rng, n, C, k in UNLABELED_IN)
    if new == case["labels"]:
        i = rng.randrange(n)
        new[i] = (new[i] + 1) % C if new[i] >= 0 else 0
    if rng.random() < 0.4:      # a single corrected annotation
        i = rng.randrange(n)
        new = [y if j != i else new[i] for j, y in enumerate(case["labels"])]
    return {"how": "root_edit", "labels": new}


def _ops_targets(case):
    specs = _specs(case)
    setters = [j for j, sp in enumerate(specs) if sp is not None and (
        (sp["w"] == "random_class" and sp.get("mode") != "gatherbug") or sp["w"] == "pseudo")]
    files = [j for j, sp in enumerate(specs) if sp is not None and sp.get("via")]
    return specs, setters, files


def _other_table(rng, case, sp):
    """another table of the same shape and dtype as the one the wrapper was built from"""
    n, C = case["n"], case["C"]
    old = sp["classes"] if sp["w"] == "overwrite" else sp["table"]
    for _ in range(20):
        if sp["w"] == "overwrite" or sp.get("mode") == "hard":
            new = gen_labels(rng, n, C, True)
            if new == old:
                new = [(y + 1) % C if y >= 0 and C > 1 else (-1 if y >= 0 else 0) for y in old]
        else:
            new = gen_table(rng, n, C, probs=sp.get("mode") == "topk" and sp.get("tau") is None)
            if rng.random() < 0.5:      # every row's winner moves
                new = [r[1:] + r[:1] for r in old]
        if new != old:
            return new
    return new


def gen_ops(rng, case, steps=None, force=None):
    """history on the finished objects: accessor order per step (bulk first / per-sample first / shape first /
    interleaved) for every wrapper of the stack, with calls of the documented public setters (KDRandomClassWrapper.mode /
    .num_classes / .seed properties, KDPseudoLabelWrapper.threshold / .seed attributes) and rewrites of the table file
    behind `uri=` between the reads"""
    specs, setters, files = _ops_targets(case)
    cur = [None if sp is None else dict(sp) for sp in specs]
    _src_settings(case, cur)
    ops = []
    for _ in range(steps or rng.choice([1, 2, 2, 3, 4])):
        st = {"order": rng.choice(ORDERS + ["bis", "bsi", "sbi", "mix"])}
        r = rng.random()
        what = force or ("set" if r < 0.55 else "file" if r < 0.85 else "read")
        if what == "file" and not files:
            what = "set"
        if what == "set" and setters:
            j = rng.choice(setters)
            sp = cur[j]
            if sp["w"] == "random_class":
                attrs = ["seed", "seed", "mode"] + (["num_classes", "num_classes"] if j == 0 else [])
                a = rng.choice(attrs)
                if a == "seed":
                    v = other_seed(rng, sp["seed"])
                elif a == "mode":
                    v = "randperm" if sp["mode"] == "random" else "random"
                else:
                    have = sp["num_classes"] if sp["num_classes"] is not None else case["C"]
                    v = rng.choice([x for x in (1, 2, 3, max(1, have - 1), max(1, have // 2), have + 3, rng.randint(1, 12))
                                    if x != have])
                sp[a] = v
            else:
                two_d = sp.get("mode") in ("soft", "thr")
                a = rng.choice(["threshold", "threshold", "seed"]) if two_d else "seed"
                if a == "seed":
                    v = rng.choice([0, 1, rng.randint(0, 9999)])
                    if v == sp.get("seed"):
                        v += 1
                    sp["seed"] = v
                else:
                    v = rng.choice([None, gen_threshold(rng, sp["table"], case["C"]), gen_threshold(rng, sp["table"], case["C"])])
                    if v == sp.get("threshold"):
                        v = None if v is not None else 0.5
                    sp["threshold"] = v
                    sp["mode"] = "soft" if v is None else "thr"
            st.update(target=j, set=[a, v])
        elif what == "file" and files:
            j = rng.choice(files)
            how = rng.choice(["overwrite", "overwrite", "rplus", "delete", "truncate"])
            st.update(target=j, file=how)
            if how in ("overwrite", "rplus"):
                st["table"] = _other_table(rng, case, specs[j])
        ops.append(st)
    return ops


def gen_via(rng, spec):
    if spec["w"] == "pseudo" and spec.get("mode") == "hard":
        return rng.choice(["file", "file_str", "file_dict"])
    return rng.choice(["file", "file", "file_str"])


def directed_ops(rng):
    """(a) every setter of a KDRandomClassWrapper under test x bulk-first / shape-first / interleaved orders; (b) every
    wrapper kind over an inner KDRandomClassWrapper whose seed / mode is set, bulk accessor asked first; (c) pseudo-label
    (all table kinds) and overwrite tables given through uri= files that are rewritten / truncated / deleted after
    construction; (d) threshold / seed of a pseudo-label wrapper reassigned"""
    out = []

    def base(kind, ok=lambda c: True):
        for _ in range(60):
            c = _gen_case(rng, kind=kind)
            if (c["C"] > 1 and c["n"] > 1 and not (kind == "class_groups" and c["C"] % c["cpg"]) and ok(c)):
                for key in ("hist", "post", "src", "ops", "first"):
                    c.pop(key, None)
                return c
        return None

    for attr in ("seed", "mode", "num_classes"):
        for order in ("bis", "sbi", "mix", "bsi"):
            c = base("random_class", lambda c: c["mode"] != "gatherbug")
            if c is None:
                continue
            c.pop("under", None)
            for _ in range(30):
                ops = gen_ops(rng, c, steps=rng.choice([1, 2]), force="set")
                if ops[0]["set"][0] == attr:
                    break
            ops[0]["order"] = order
            c["ops"] = ops
            out.append(c)
    for kind in KINDS:
        for order in ("bis", "sbi", "mix"):
            c = base(kind)
            if c is None:
                continue
            if rng.random() < 0.7:
                c.pop("under", None)
            c["inner"] = gen_seed(rng)
            j = len(_specs(c)) - 2
            v = rng.choice([["seed", other_seed(rng, c["inner"])], ["mode", "randperm"]])
            c["ops"] = [{"order": order, "target": j, "set": v}]
            if rng.random() < 0.5:
                c["ops"].append({"order": rng.choice(ORDERS)})
            out.append(c)
    for mode in ("hard", "hard", "soft", "thr", "topk", "overwrite"):
        for how in ("overwrite", "rplus", "delete", "truncate", "overwrite"):
            c = base("overwrite") if mode == "overwrite" else base(
                "pseudo", lambda c: c["mode"] == mode and not (mode == "topk" and c["seed"] is None))
            if c is None:
                continue
            c.pop("under", None)
            c["via"] = gen_via(rng, c)
            st = {"order": rng.choice(ORDERS), "target": 0, "file": how}
            if how in ("overwrite", "rplus"):
                st["table"] = _other_table(rng, c, c)
            c["ops"] = [st] + ([{"order": rng.choice(ORDERS)}] if rng.random() < 0.5 else [])
            out.append(c)
    for mode in ("soft", "thr", "hard", "topk"):
        for _ in range(3):
            c = base("pseudo", lambda c: c["mode"] == mode)
            if c is None:
                continue
            c["ops"] = gen_ops(rng, c, steps=rng.choice([1, 2, 3]), force="set")
            out.append(c)
    return out


BINARY_KINDS = {"swap", "overwrite", "allgather", "pseudo", "semi", "random_class"}


def to_binary(case, rng):
    """the same wrapper over a BINARY dataset: getshape_class() == (1,), labels 0 / 1 (/ -1).  Only the wrappers that do
    not read the class count as a table size are defined there (class groups / superclass / one-hot index or encode with it
    and reject label 1); label smoothing has its own binary cases"""
    n = case["n"]
    c = {k: v for k, v in case.items() if k not in ("under", "topk", "tau", "threshold", "table", "as2d", "ties", "hist", "post", "src", "ops")}
    c.update(C=1, inner=None, binary=True, labels=[rng.choice([0, 1, 1, -1]) for _ in range(n)])
    if c["w"] == "overwrite":
        c["classes"] = [rng.choice([0, 1, -1]) for _ in range(n)]
    if c["w"] == "pseudo":
        c.update(mode="hard", table=[rng.choice([0, 1, -1]) for _ in range(n)], as2d=False, seed=None)
    if c["w"] == "random_class":
        c["num_classes"] = None
    return c


def gen_case(rng, big=False, kind=None):
    case = _gen_case(rng, big, kind)
    if case["w"] in BINARY_KINDS and rng.random() < 0.08:
        return to_binary(case, rng)
    return case


def _gen_case(rng, big=False, kind=None):
    kind = kind or rng.choice(KINDS + ["pseudo", "semi"])
    n = rng.choice([1, 2, 3, 4, 5, 6, 7, 8, 9, 10, 12, 13, 16, 24]) if not big else rng.randint(1, 60)
    C = rng.choice([1, 2, 3, 4, 5, 6, 8, 9, 10]) if not big else rng.randint(1, 20)
    case = {"w": kind, "n": n, "C": C, "inner": None}
    unl = kind in UNLABELED_IN
    if kind == "onehot":
        C = case["C"] = max(2, C)
    if kind == "class_groups":
        divs = [d for d in range(1, C + 1) if C % d == 0]
        case["cpg"] = rng.choice(divs) if rng.random() < 0.85 else rng.randint(1, C + 1)
        case["shuffle"] = rng.random() < 0.6
        case["seed"] = gen_seed(rng)
    elif kind == "superclass":
        case["cps"] = rng.randint(1, C + 1)
        case["splits"] = rng.choice([1, 1, 2, 3])
        case["shuffle"] = rng.random() < 0.7
        case["seed"] = gen_seed(rng)
    elif kind == "swap":
        case["p"] = rng.choice([0.0, 1.0, 0.1, 0.25, 0.5, 0.5, 0.75, 0.9])
        case["seed"] = gen_seed(rng)
    elif kind == "overwrite":
        case["classes"] = gen_labels(rng, n, C, True)
        case["as_tensor"] = rng.random() < 0.5
    elif kind == "allgather":
        case["W"] = rng.choice([1, n, rng.randint(1, n), rng.randint(1, n), min(n, 2), min(n, 4)])
    elif kind == "pseudo":
        mode = rng.choice(["hard", "soft", "thr", "thr", "topk", "topk"])
        case["mode"] = mode
        case["seed"] = None
        if mode == "hard":
            case["table"] = gen_labels(rng, n, C, True)
            case["as2d"] = rng.random() < 0.2           # (n,1) tensors are squeezed by the constructor
            if case["as2d"] and n == 1:
                case["as2d"] = False                    # squeeze() of a (1,1) tensor gives ndim 0: outside the contract
        else:
            if C == 1:
                C = case["C"] = 2                       # a (n,1) table is squeezed into hard labels
            tau = None
            if mode == "topk":
                case["topk"] = rng.randint(1, C)
                tau = rng.choice(["inf", None, 1.0, 0.5, 2.0])
                case["seed"] = rng.choice([None, 0, gen_seed(rng), rng.randint(0, 9999)])
            case["tau"] = tau
            probs = mode == "topk" and tau is None
            case["table"] = gen_table(rng, n, C, probs=probs)
            if rng.random() < 0.5:
                # rows that hit ties / boundaries exactly (row argmax ties, top-k edge ties, confidence == threshold)
                q = rng.choice([0.3, 0.6, 1.0])
                case["table"] = [gen_tie_row(rng, C, probs) if rng.random() < q else r for r in case["table"]]
                case["ties"] = True
                if mode == "topk" and rng.random() < 0.5:
                    case["topk"] = rng.choice([1, C, case["topk"]])
            if mode == "thr":
                case["threshold"] = gen_threshold(rng, case["table"], C)
            if mode != "topk" and rng.random() < 0.3:
                case["seed"] = rng.choice([0, rng.randint(0, 99)])          # seed without sampling: must change nothing
    elif kind == "random_class":
        case["mode"] = rng.choice(["random", "random", "randperm", "gatherbug"])
        case["num_classes"] = rng.choice([None, None, rng.randint(1, 12)])
        case["seed"] = gen_seed(rng)
        if case["mode"] == "gatherbug":
            case["W"] = rng.choice([1, n, rng.randint(1, n), rng.randint(1, n)])
    elif kind == "semi":
        case["pct"] = rng.choice([0.0, 1.0, 0.1, 0.3, 0.5, 0.7, 0.29, rng.randint(0, n) / n, rng.randint(0, n) / n])
        case["seed"] = gen_seed(rng)
    elif kind == "smoothing":
        b = rng.choice([1, 2, 4, 5, 10, 20])
        a = rng.choice([0, b, rng.randint(0, b), rng.randint(0, b)])
        case["sm"] = [a, b]
    if kind == "smoothing" and C == 1:
        case["labels"] = [rng.choice([0, 1, 1, -1]) for _ in range(n)]      # binary convention
    else:
        case["labels"] = gen_labels(rng, n, C, unl)
    if kind in ("class_groups", "superclass", "swap", "allgather", "semi", "smoothing", "onehot") and C > 1:
        if rng.random() < (0.5 if kind == "semi" else 0.15):
            case["inner"] = gen_seed(rng)
    if case["C"] > 1 and rng.random() < 0.25:
        # wrappers stacked on each other (semi over pseudo label over class groups ...): the wrapper of the case sits on top
        case["under"] = [gen_under(rng, n, case["C"]) for _ in range(rng.choice([1, 1, 2, 3]))]
    # what the root dataset's bulk accessors hand out: its own storage (list / ndarray / tensor) or a copy
    case["prov"] = rng.choice(PROVIDERS + ["own_np", "own_torch"])
    if case["C"] > 1 and rng.random() < 0.3:
        case["hist"], case["post"] = gen_history(rng, case)
    if rng.random() < 0.3:
        if case["inner"] is None and kind in LIVE_KINDS and C > 1 and rng.random() < 0.4:
            case["inner"] = gen_seed(rng)
        case["src"] = gen_src(rng, case)
    if kind in ("pseudo", "overwrite") and rng.random() < 0.35:
        case["via"] = gen_via(rng, case)
    if rng.random() < 0.3:
        case["first"] = rng.choice(["bulk", "bulk", "mix"])
    if rng.random() < (0.7 if case.get("via") else 0.3):
        case["ops"] = gen_ops(rng, case)
    return case


def directed_cases(rng):
    """thresholded / soft / top-k pseudo-label tables whose rows sit exactly on a boundary: two-way saturated ties with
    threshold 1/2, k-way ties with 1/k, uniform rows over C = 2,4,8,16 classes with threshold 1/C, saturated rows with
    threshold 1.0, each mixed with ordinary rows and with rows on the other side of the threshold"""
    out = []

    def case(C, table, **kw):
        n = len(table)
        c = {"w": "pseudo", "n": n, "C": C, "inner": None, "mode": "thr", "seed": None, "tau": None, "table": table,
             "labels": [rng.randrange(C) for _ in range(n)], "ties": True}
        c.update(kw)
        return c

    for C in (2, 3, 4, 8, 16):
        plain = gen_table(rng, 3, C, probs=False)
        tie2 = [-50.0] * C
        tie2[0] = tie2[C - 1] = 50.0
        sat = [-60.0] * C
        sat[C // 2] = 60.0
        uni = [1.5] * C
        out.append(case(C, [tie2, plain[0], sat], threshold=0.5))
        out.append(case(C, [plain[1], tie2], threshold=0.5, seed=3))
        out.append(case(C, [sat, plain[0], tie2, sat], threshold=1.0))
        out.append(case(C, [sat], threshold=1.0))
        out.append(case(C, [uni, plain[2], sat, uni], threshold=1.0 / C))
        out.append(case(C, [uni, uni], threshold=1.0 / C))
        for k in (2, 4, 8):
            if k <= C:
                row = [40.0] * k + [-60.0] * (C - k)
                rng.shuffle(row)
                out.append(case(C, [row, plain[0], uni, sat], threshold=1.0 / k))
        out.append(case(C, [tie2, uni, sat, plain[1]], mode="soft"))
        out.append(case(C, [tie2, uni, sat, plain[1]], mode="topk", topk=rng.randint(1, C), tau="inf", seed=5))
        out.append(case(C, [tie2, uni, sat, plain[1]], mode="topk", topk=C, tau=1.0, seed=0))
    return out


def directed_histories(rng):
    """for every seeded wrapper kind and every provider that hands out the dataset's own storage: the wrapper built
    after the SAME kind of wrapper with another seed, beside it and stacked; and after / before one of every other
    kind"""
    out = []
    for kind in sorted(SEEDED_KINDS) + ["pseudo", "overwrite", "allgather", "smoothing", "onehot"]:
        for prov in ("own_list", "own_np", "own_torch"):
            for _ in range(40):
                case = _gen_case(rng, kind=kind)
                if case["C"] > 1 and not (kind == "class_groups" and case["C"] % case["cpg"]):
                    break
            else:
                continue
            case["prov"] = prov
            case.pop("under", None)
            a, _ = gen_sibling(rng, case)
            b = gen_under(rng, case["n"], case["C"])
            hist = [{"spec": a, "on": -1, "read": True}]
            if rng.random() < 0.5:
                hist.append({"spec": b, "on": -1, "read": True})
                hist.append({"spec": gen_sibling(rng, case)[0], "on": 1, "read": rng.random() < 0.5})
            case["hist"] = hist
            case["post"] = [{"spec": gen_sibling(rng, case)[0], "on": -1, "read": True}] if rng.random() < 0.5 else []
            case.pop("ops", None)
            if rng.random() < 0.3:
                case["ops"] = gen_ops(rng, case)
            out.append(case)
    return out


def directed_source_changes(rng):
    """every wrapper kind x every provider: the label source changes after construction (root storage edited in place;
    inner KDRandomClassWrapper re-seeded / switched to randperm), alone and under a stack / with a construction history"""
    out = []
    for kind in KINDS:
        for prov in PROVIDERS:
            for how in ("root", "inner"):
                for _ in range(40):
                    case = _gen_case(rng, kind=kind)
                    if case["C"] > 1 and not (kind == "class_groups" and case["C"] % case["cpg"]) and case["n"] > 1:
                        break
                else:
                    continue
                case["prov"] = prov
                if rng.random() < 0.6:
                    case.pop("under", None)
                case["inner"] = gen_seed(rng) if how == "inner" else None
                case["src"] = gen_src(rng, case)
                case.pop("ops", None)
                if rng.random() < 0.3:
                    case["ops"] = gen_ops(rng, case)
                out.append(case)
    return out


def gen_cases(rng, tier):
    if tier == "quick":
        out = directed_cases(rng) + directed_histories(rng) + directed_source_changes(rng) + directed_ops(rng)
        out += [gen_case(rng, kind=k) for k in KINDS for _ in range(12)]
        out += [gen_case(rng) for _ in range(900)]
    else:
        out = directed_cases(rng) + [c for _ in range(6) for c in directed_histories(rng) + directed_source_changes(rng) + directed_ops(rng)] + [gen_case(rng) for _ in range(10000)] + [gen_case(rng, big=True) for _ in range(4000)]
    return out


def search_cases(rng, tier):
    for c in directed_cases(rng) + directed_histories(rng) + directed_source_changes(rng) + directed_ops(rng):
        yield c
    for _ in range(30000):
        yield gen_case(rng, big=rng.random() < 0.3)


def _drop(case, i):
    """the case without sample i (None if that leaves the domain)"""
    n = case["n"]
    if n <= 1 or case.get("under") or case.get("hist") or case.get("post"):
        return None
    c = dict(case)
    c["n"] = n - 1
    c["labels"] = case["labels"][:i] + case["labels"][i + 1:]
    for k in ("classes", "table"):
        if k in c:
            c[k] = case[k][:i] + case[k][i + 1:]
    if "labels" in c.get("src", {}):
        c["src"] = {**c["src"], "labels": c["src"]["labels"][:i] + c["src"]["labels"][i + 1:]}
    if c.get("ops"):
        c["ops"] = [dict(st, table=st["table"][:i] + st["table"][i + 1:]) if "table" in st else st for st in c["ops"]]
    if "W" in c and c["W"] > c["n"]:
        return None
    if c.get("as2d") and c["n"] == 1:
        return None
    return c


def _ops_valid(case):
    if not case.get("ops"):
        return True
    specs, setters, files = _ops_targets(case)
    for st in case["ops"]:
        j = st.get("target", 0)
        if st.get("set") and (j not in setters or (st["set"][0] == "threshold" and specs[j].get("mode") not in ("soft", "thr"))):
            return False
        if st.get("file") and j not in files:
            return False
    return True


def shrink(case):
    for c in _shrink(case):
        if _ops_valid(c):
            yield c


def _shrink(case):
    if case.get("ops"):
        yield {k: v for k, v in case.items() if k != "ops"}
        if len(case["ops"]) > 1:
            yield {**case, "ops": case["ops"][1:]}
            yield {**case, "ops": case["ops"][:-1]}
        for i, st in enumerate(case["ops"]):
            if st["order"] not in ("bis", "ibs"):
                for o in ("ibs", "bis"):
                    yield {**case, "ops": [dict(x, order=o) if j == i else x for j, x in enumerate(case["ops"])]}
    if case.get("first"):
        yield {k: v for k, v in case.items() if k != "first"}
    if case.get("via") and not any(st.get("file") and st.get("target", 0) == 0 for st in case.get("ops", [])):
        yield {k: v for k, v in case.items() if k != "via"}
    if case.get("src") and case.get("ops"):
        yield {k: v for k, v in case.items() if k != "src"}
    if case.get("post"):
        yield {**case, "post": []}
    if case.get("hist"):
        yield {k: v for k, v in case.items() if k not in ("hist", "post")}
        if not case.get("post"):
            for i in range(len(case["hist"])):
                # drop step i unless a later step is stacked on it; renumber the steps stacked on later ones
                if len(case["hist"]) > 1 and not any(st["on"] == i for st in case["hist"]):
                    rest = [dict(st, on=st["on"] - 1 if st["on"] > i else st["on"])
                            for j, st in enumerate(case["hist"]) if j != i]
                    yield {**case, "hist": rest}
            for i, st in enumerate(case["hist"]):
                if st["on"] >= 0:
                    yield {**case, "hist": [dict(x, on=-1) if j == i else x for j, x in enumerate(case["hist"])]}
    if case.get("prov", "own_list") not in ("own_list", "own_np"):
        yield {**case, "prov": "own_np"}
    if case.get("prov", "own_list") != "own_list":
        yield {**case, "prov": "own_list"}
    if case.get("inner") is not None:
        if case.get("src", {}).get("how", "root_edit") == "root_edit":
            yield {**case, "inner": None}
        else:
            yield {k: v for k, v in case.items() if k != "src"} | {"inner": None}
    if case.get("under"):
        yield {k: v for k, v in case.items() if k != "under"}
        for i in range(len(case["under"])):
            if len(case["under"]) > 1:
                yield {**case, "under": case["under"][:i] + case["under"][i + 1:]}
    n = case["n"]
    for i in (n - 1, 0, n // 2):
        c = _drop(case, i)
        if c is not None:
            yield c
    if case.get("W", 1) > 1:
        yield {**case, "W": case["W"] - 1}
    if any(y not in (0, -1) for y in case["labels"]) and case["w"] not in ("pseudo",) and not case.get("src"):
        yield {**case, "labels": [min(y, 0) if y > 0 else y for y in case["labels"]]}
    if case.get("shuffle"):
        yield {**case, "shuffle": False}
    if case.get("splits", 1) > 1:
        yield {**case, "splits": case["splits"] - 1}


# ---------------------------------------------------------------------------
# spies
# ---------------------------------------------------------------------------
def _tolist(x):
    return x.tolist() if hasattr(x, "tolist") else x


class _SpyGen:
    """records what a numpy Generator returned; unknown methods fail closed"""

    def __init__(self, gen, trace):
        self._g, self._t = gen, trace

    def random(self, size=None):
        r = self._g.random(size=size)
        self._t.append(["random", _tolist(r)])
        return r

    def integers(self, low, high=None, size=None):
        r = self._g.integers(low, high, size=size)
        self._t.append(["integers", [int(low), None if high is None else int(high)], _tolist(r)])
        return r

    def permutation(self, x):
        r = self._g.permutation(x)
        self._t.append(["permutation", int(x) if isinstance(x, int) or hasattr(x, "__index__") else "array", _tolist(r)])
        return r

    def permuted(self, x, axis=None, out=None):
        r = self._g.permuted(x, axis=axis, out=out)
        self._t.append(["permuted", _tolist(x), _tolist(r)])
        return r

    def multinomial(self, n, pvals):
        r = self._g.multinomial(n, pvals)
        self._t.append(["multinomial", int(n), _tolist(r)])
        return r


class _GlobalNpRandom:
    """stands for the module np.random seen through kappadata.utils.global_rng.GlobalRng"""

    def __init__(self, trace):
        import numpy as np
        self._np, self._t = np, trace

    def randint(self, low, high=None, size=None):
        r = self._np.random.randint(low, high, size)
        self._t.append(["integers", [int(low), None if high is None else int(high)], _tolist(r)])
        return r

    def multinomial(self, n, pvals):
        r = self._np.random.multinomial(n, pvals)
        self._t.append(["multinomial", int(n), _tolist(r)])
        return r

    def random(self, size=None):
        r = self._np.random.random(size)
        self._t.append(["random", _tolist(r)])
        return r

    def permutation(self, x):
        r = self._np.random.permutation(x)
        self._t.append(["permutation", int(x) if isinstance(x, int) or hasattr(x, "__index__") else "array", _tolist(r)])
        return r

    def default_rng(self, seed=None):
        self._t.append(["default_rng", None if seed is None else int(seed)])
        return _SpyGen(self._np.random.default_rng(seed), self._t)


class _NpProxy:
    def __init__(self, trace):
        import numpy as np
        self._np = np
        self.random = _GlobalNpRandom(trace)

    def __getattr__(self, name):
        return getattr(self._np, name)


class _TorchProxy:
    def __init__(self, trace):
        import torch
        self._torch, self._t = torch, trace

    def randint(self, high, size, generator=None):
        r = self._torch.randint(high, size=size, generator=generator)
        self._t.append(["randint", int(high), r.tolist()])
        return r

    def randperm(self, n, generator=None):
        r = self._torch.randperm(n, generator=generator)
        self._t.append(["randperm", int(n), r.tolist()])
        return r

    def __getattr__(self, name):
        return getattr(self._torch, name)


class _Patched:
    """replace the module-level names `np` / `torch` of the wrapper modules by recording proxies"""

    def __init__(self, trace):
        self.trace = trace
        self.saved = []

    def __enter__(self):
        import importlib
        for name, attr, proxy in [
            ("kappadata.wrappers.dataset_wrappers.class_groups_wrapper", "np", _NpProxy),
            ("kappadata.wrappers.dataset_wrappers.random_superclass_wrapper", "np", _NpProxy),
            ("kappadata.wrappers.dataset_wrappers.swap_label_wrapper", "np", _NpProxy),
            ("kappadata.wrappers.dataset_wrappers.kd_pseudo_label_wrapper", "np", _NpProxy),
            ("kappadata.wrappers.sample_wrappers.semi_wrapper", "np", _NpProxy),
            ("kappadata.utils.global_rng", "np", _NpProxy),
            ("kappadata.wrappers.sample_wrappers.kd_random_class_wrapper", "torch", _TorchProxy),
        ]:
            mod = importlib.import_module(name)
            self.saved.append((mod, attr, getattr(mod, attr)))
            setattr(mod, attr, proxy(self.trace))
        return self

    def __exit__(self, *a):
        for mod, attr, old in self.saved:
            setattr(mod, attr, old)


# ---------------------------------------------------------------------------
# running the implementation
# ---------------------------------------------------------------------------
_BASE = {}
# label providers: what the root dataset's getall_class hands out.  "own_*": the dataset keeps its labels (and its x
# data) in a list / ndarray / tensor and the bulk accessor returns THAT OBJECT (as datasets holding a `targets` array
# do) -- a constructor / accessor that writes into what it got changes the dataset; "list" / "np" / "torch": a fresh
# copy per call.  getitem_class always reads from the storage.
PROVIDERS = ["own_list", "list", "np", "torch", "own_np", "own_torch"]
OWN_STORAGE = {"own_list": "list", "own_np": "ndarray", "own_torch": "tensor"}


def base_cls(prov="own_list"):
    if not _BASE:
        import numpy as np
        import torch
        from kappadata.datasets.kd_dataset import KDDataset

        class Base(KDDataset):
            """plain dataset; labels in self.store, x data in self.xs; the bulk accessors return the storage itself
            (like `return self.targets`) or a copy, depending on the provider"""
            own = True

            def __init__(self, classes, n_classes):
                super().__init__()
                self.store = self.make_store([int(c) for c in classes])
                self.xs = self.make_store([7 * i + 1 for i in range(len(classes))])
                self.n_classes = n_classes

            @staticmethod
            def make_store(values):
                return list(values)

            def state(self):
                """content of everything the dataset owns, read from the storage (not through the accessors)"""
                return {"labels": [int(v) for v in self.store], "x": [int(v) for v in self.xs]}

            def hand_out(self, store):
                return store if self.own else self.make_store([int(v) for v in store])

            def __len__(self):
                return len(self.store)

            def getitem_class(self, idx, ctx=None):
                return int(self.store[idx])

            def getall_class(self):
                return self.hand_out(self.store)

            def getshape_class(self):
                return (self.n_classes,)

            def getitem_x(self, idx, ctx=None):
                return int(self.xs[idx])

            def getall_x(self):
                return self.hand_out(self.xs)

        class BaseNp(Base):
            @staticmethod
            def make_store(values):
                return np.array(list(values), dtype=np.int64)

        class BaseTorch(Base):
            @staticmethod
            def make_store(values):
                return torch.tensor(list(values), dtype=torch.long)

        _BASE.update({
            "own_list": Base, "own_np": BaseNp, "own_torch": BaseTorch,
            "list": type("BaseCopy", (Base,), {"own": False}),
            "np": type("BaseNpCopy", (BaseNp,), {"own": False}),
            "torch": type("BaseTorchCopy", (BaseTorch,), {"own": False}),
        })
    return _BASE[prov]


_TMP = {"dir": None, "n": 0, "paths": {}}


def _file_payload(spec, t):
    """what is torch.save'd for a table given through `uri=`: the tensor, or (hard pseudo labels only) the documented
    dict(label=..., confidence=...)"""
    import torch
    if spec.get("via") == "file_dict":
        return {"label": t, "confidence": torch.linspace(0.5, 1.0, len(t))}
    return t


def _table_file(spec, t, ext=".th"):
    """torch.save the table into this run's scratch directory; the path is remembered per spec object so that a later
    history step can rewrite / delete that very file"""
    import os
    import tempfile
    import torch
    if _TMP["dir"] is None:
        _TMP["dir"] = tempfile.mkdtemp(prefix="c16_tables_")
    _TMP["n"] += 1
    path = os.path.join(_TMP["dir"], "table%d%s" % (_TMP["n"], ext))
    torch.save(_file_payload(spec, t), path)
    _TMP["paths"][id(spec)] = path
    return path


def _pseudo_uri(spec, t):
    from pathlib import Path
    path = _table_file(spec, t)
    return path if spec["via"] == "file_str" else Path(path)


def _tmp_cleanup():
    import shutil
    if _TMP["dir"] is not None:
        shutil.rmtree(_TMP["dir"], ignore_errors=True)
    _TMP.update(dir=None, n=0, paths={})


def build(case, wrapped, args=None):
    """construct the wrapper described by `case` on `wrapped`; args (a list) receives every mutable constructor
    argument as (what, live object, content at construction time)"""
    import torch
    from pathlib import Path
    k = case["w"]

    def arg(what, obj):
        if args is not None:
            args.append((what, obj, _tolist(obj.clone() if torch.is_tensor(obj) else list(obj))))
        return obj
    if k == "class_groups":
        from kappadata.wrappers.dataset_wrappers.class_groups_wrapper import ClassGroupsWrapper
        return ClassGroupsWrapper(wrapped, classes_per_group=case["cpg"], shuffle=case["shuffle"], seed=case["seed"])
    if k == "superclass":
        from kappadata.wrappers.dataset_wrappers.random_superclass_wrapper import RandomSuperclassWrapper
        return RandomSuperclassWrapper(wrapped, classes_per_superclass=case["cps"], superclass_splits=case["splits"],
                                       shuffle=case["shuffle"], seed=case["seed"])
    if k == "swap":
        from kappadata.wrappers.dataset_wrappers.swap_label_wrapper import SwapLabelWrapper
        return SwapLabelWrapper(wrapped, p=case["p"], seed=case["seed"])
    if k == "overwrite":
        from kappadata.wrappers.dataset_wrappers.overwrite_classes_wrapper import OverwriteClassesWrapper
        if case.get("via"):
            uri = _table_file(case, torch.tensor(case["classes"]), ".pth")
            return OverwriteClassesWrapper(wrapped, uri=uri if case["via"] == "file_str" else Path(uri))
        cl = arg("OverwriteClassesWrapper(classes=...)",
                 torch.tensor(case["classes"]) if case["as_tensor"] else list(case["classes"]))
        return OverwriteClassesWrapper(wrapped, classes=cl)
    if k == "allgather":
        from kappadata.wrappers.dataset_wrappers.allgather_class_wrapper import AllgatherClassWrapper
        return AllgatherClassWrapper(wrapped, world_size=case["W"])
    if k == "pseudo":
        from kappadata.wrappers.dataset_wrappers.kd_pseudo_label_wrapper import KDPseudoLabelWrapper
        if case["mode"] == "hard":
            t = torch.tensor(case["table"])
            if case["as2d"]:
                t = t.unsqueeze(1)
            if case.get("via"):
                return KDPseudoLabelWrapper(wrapped, uri=_pseudo_uri(case, t), seed=case["seed"])
            arg("KDPseudoLabelWrapper(pseudo_labels=...)", t)
            return KDPseudoLabelWrapper(wrapped, pseudo_labels=t, seed=case["seed"])
        t = torch.tensor(case["table"], dtype=torch.float32)
        tau = float("inf") if case["tau"] == "inf" else case["tau"]
        if case.get("via"):
            return KDPseudoLabelWrapper(wrapped, uri=_pseudo_uri(case, t), threshold=case.get("threshold"),
                                        topk=case.get("topk"), tau=tau, seed=case["seed"])
        arg("KDPseudoLabelWrapper(pseudo_labels=...)", t)
        return KDPseudoLabelWrapper(wrapped, pseudo_labels=t, threshold=case.get("threshold"), topk=case.get("topk"),
                                    tau=tau, seed=case["seed"])
    if k == "random_class":
        from kappadata.wrappers.sample_wrappers.kd_random_class_wrapper import KDRandomClassWrapper
        kw = {"world_size": case["W"]} if case["mode"] == "gatherbug" else None
        return KDRandomClassWrapper(wrapped, mode=case["mode"], mode_kwargs=kw, num_classes=case["num_classes"],
                                    seed=case["seed"])
    if k == "semi":
        from kappadata.wrappers.sample_wrappers.semi_wrapper import SemiWrapper
        return SemiWrapper(dataset=wrapped, semi_percent=case["pct"], seed=case["seed"])
    if k == "smoothing":
        from kappadata.wrappers.sample_wrappers.label_smoothing_wrapper import LabelSmoothingWrapper
        a, b = case["sm"]
        return LabelSmoothingWrapper(wrapped, smoothing=a / b)
    if k == "onehot":
        from kappadata.wrappers.sample_wrappers.one_hot_wrapper import OneHotWrapper
        return OneHotWrapper(wrapped)
    raise ValueError(k)


def make_wrapped(case, args=None):
    base = base_cls(case.get("prov", "own_list"))(case["labels"], case["C"])
    if case.get("inner") is not None:
        from kappadata.wrappers.sample_wrappers.kd_random_class_wrapper import KDRandomClassWrapper
        base = KDRandomClassWrapper(base, seed=case["inner"])
    for spec in case.get("under", []):
        base = build(spec, base, args)
    return base


LABEL_ACCESSORS = {"getitem_class", "getall_class", "getshape_class"}


def shadowed_accessors(w, wrapped):
    """structural reading of 'wrapped data other than the label is untouched': walk the wrapper's own classes (up to
    KDWrapper, which forwards every unknown attribute to the wrapped dataset) and list every name they define that would
    intercept an access to the wrapped dataset's data -- an accessor getitem_* / getall_* / getshape_* other than the
    three label accessors that the root dataset ALSO offers (a brand-new item such as getitem_apply shadows no data)
    and that does not return exactly what the wrapped dataset returns, a __len__ that changes the length, or one of the
    hooks __getitem__ / __getattr__ / __getattribute__ / getshape / getdim (which cannot be checked item by item)"""
    from kappadata.datasets.kd_wrapper import KDWrapper
    out = []

    def same(a, b):
        a, b = _tolist(a), _tolist(b)
        return type(a) == type(b) and a == b

    for klass in type(w).__mro__:
        if klass is KDWrapper:
            break
        for name in vars(klass):
            if name in LABEL_ACCESSORS:
                continue
            tag = klass.__name__ + "." + name
            if name.startswith(("getitem_", "getall_", "getshape_")) and hasattr(wrapped.root_dataset, name):
                # the wrapper intercepts an item of the wrapped dataset: it must hand it through unchanged
                try:
                    if name.startswith("getitem_"):
                        ok = all(same(getattr(w, name)(i), getattr(wrapped, name)(i)) for i in range(len(wrapped)))
                    else:
                        ok = same(getattr(w, name)(), getattr(wrapped, name)())
                except Exception as e:  # noqa
                    ok = False
                    tag += f" ({type(e).__name__})"
                if not ok:
                    out.append(tag)
            if name in ("__getitem__", "__getattr__", "__getattribute__", "getshape", "getdim"):
                out.append(tag)
            if name == "__len__" and len(w) != len(wrapped):
                out.append(tag)
    return sorted(out)


def _plain(v):
    """a returned label / encoding as JSON: int, or ['vec', [num, den]...] / ['scalar', [num, den]]"""
    import torch
    import numpy as np
    if isinstance(v, bool):
        return ["other", repr(v)]
    if isinstance(v, (int, np.integer)):
        return int(v)
    if torch.is_tensor(v) and v.ndim == 0 and not v.is_floating_point():
        return int(v.item())
    if torch.is_tensor(v) and v.ndim == 1:
        return ["vec", [list(Fraction(float(x)).as_integer_ratio()) for x in v.tolist()]]
    if isinstance(v, float) or (torch.is_tensor(v) and v.ndim == 0):
        return ["scalar", list(Fraction(float(v)).as_integer_ratio())]
    return ["other", repr(v)[:80]]


def _labels_of(ds):
    a = [_plain(ds.getitem_class(i)) for i in range(len(ds))]
    b = [_plain(y) for y in _tolist(ds.getall_class())]
    return a if a == b else ["INCONSISTENT", a, b]


def _layers(ds):
    """the wrapped dataset from the top wrapper down to the root dataset"""
    out = [ds]
    while "dataset" in vars(out[-1]):
        out.append(vars(out[-1])["dataset"])
    return out


class _Watch:
    """'constructors and accessors are pure': the content of everything below the wrapper under test -- the labels of
    EVERY layer of the wrapped stack (per-sample and bulk), the root dataset's own storage (labels and x data, read
    directly) and the mutable constructor arguments -- is compared with a snapshot taken before anything was built."""

    def __init__(self, wrapped, args):
        self.layers = _layers(wrapped)
        self.args = args
        self.snap = self.now()
        self.first = None           # first change seen: {"after": ..., "what": ..., "before": ..., "now": ...}
        self.tops = []              # labels of the top layer after every step (for the Coq check)

    def now(self):
        st = {}
        for d, layer in enumerate(self.layers):
            st[f"labels of layer {d} ({type(layer).__name__})"] = _labels_of(layer)
        root = self.layers[-1]
        if hasattr(root, "state"):
            for k, v in root.state().items():
                st[f"root dataset's stored {k}"] = v
        return st

    def verify(self, where, record=False):
        now = self.now()
        if self.first is None:
            for k in now:
                if now[k] != self.snap[k]:
                    self.first = {"after": where, "what": k, "before": self.snap[k], "now": now[k]}
                    break
        if self.first is None:
            for what, live, frozen in self.args:
                if _tolist(live) != frozen:
                    self.first = {"after": where, "what": "constructor argument " + what, "before": frozen,
                                  "now": _tolist(live)}
                    break
        if record:
            self.tops.append(now["labels of layer 0 (%s)" % type(self.layers[0]).__name__])


def _exercise(ds):
    """call both label accessors of a sibling wrapper on every sample (results are not judged here)"""
    for i in range(len(ds)):
        ds.getitem_class(i)
    try:
        ds.getall_class()
    except NotImplementedError:
        pass


def _history(steps, offset, sibs, wrapped, w, watch, obs, args):
    """run construction steps on the SAME objects: each builds one more wrapper beside the wrapper under test (on the
    wrapped dataset), on top of an earlier sibling, or on top of the wrapper under test, and (mostly) reads it"""
    for j, st in enumerate(steps):
        on = st["on"]
        base = wrapped if on == -1 else w if on == -2 else sibs[on]
        name = f"history step {offset + j} ({st['spec']['w']}" + (
            " beside" if on == -1 else " on top of the wrapper under test" if on == -2 else f" on top of sibling {on}") + ")"
        try:
            sib = build(st["spec"], base, args)
        except Exception as e:  # noqa
            obs.setdefault("hist_error", f"constructing {name}: {type(e).__name__}: {str(e)[:120]}")
            sibs.append(base)
            watch.verify("constructing " + name, record=True)
            continue
        sibs.append(sib)
        watch.verify("constructing " + name, record=True)
        if st.get("read", True):
            try:
                _exercise(sib)
            except Exception as e:  # noqa
                obs.setdefault("hist_error", f"reading {name}: {type(e).__name__}: {str(e)[:120]}")
            watch.verify("reading " + name, record=True)


def run_once(case, history=True):
    try:
        return _run_once(case, history)
    finally:
        _tmp_cleanup()


def _run_once(case, history=True):
    trace = []
    obs = {}
    with _Patched(trace):
        args = []
        wrapped = make_wrapped(case, args)
        watch = _Watch(wrapped, args)
        before = _labels_of(wrapped)
        obs["wrapped"] = before
        obs["changed_by"] = None
        sibs = []
        pre = case.get("hist", []) if history else []
        post = case.get("post", []) if history else []
        _history(pre, 0, sibs, wrapped, None, watch, obs, args)
        del trace[:]
        try:
            w = build(case, wrapped, args)
        except Exception as e:  # classified by the oracle
            obs["ctor_error"] = type(e).__name__ + ": " + str(e)[:120]
            if watch.first is not None:
                obs["changed_by"], obs["change"] = watch.first["after"], watch.first
            return obs
        obs["ctor_draws"] = list(trace)
        obs["shadowed"] = shadowed_accessors(w, wrapped)

        def guard(name, record=False):
            watch.verify(name, record)
            if obs["changed_by"] is None and watch.first is not None:
                obs["changed_by"] = watch.first["after"]
                obs["change"] = watch.first

        guard("the constructor", True)
        n = len(w)
        obs["len"] = n
        if case.get("first") in ("bulk", "mix"):
            # accessor order is a generated dimension: the bulk accessor is the FIRST thing asked of the new wrapper
            # ("mix": after one per-sample read)
            try:
                if case["first"] == "mix" and n:
                    w.getitem_class(n - 1)
                obs["bulk0"] = [_plain(y) for y in _tolist(w.getall_class())]
            except NotImplementedError:
                obs["bulk0"] = "NotImplementedError"
            except Exception as e:
                obs["bulk0"] = "error " + type(e).__name__ + ": " + str(e)[:120]
            guard("getall_class (first access)")
        try:
            sh = w.getshape_class()
            obs["shape"] = [int(s) for s in sh]
        except Exception as e:
            obs["shape"] = "error " + type(e).__name__
        guard("getshape_class")
        for key in ("items", "items2"):
            del trace[:]
            try:
                obs[key] = [_plain(w.getitem_class(i)) for i in range(n)]
            except Exception as e:
                obs[key] = "error " + type(e).__name__ + ": " + str(e)[:120]
            obs[key + "_draws"] = list(trace)
            guard("getitem_class", True)
            if key == "items":
                try:
                    obs["bulk"] = [_plain(y) for y in _tolist(w.getall_class())]
                except NotImplementedError:
                    obs["bulk"] = "NotImplementedError"
                except Exception as e:
                    obs["bulk"] = "error " + type(e).__name__ + ": " + str(e)[:120]
                guard("getall_class", True)
        try:
            obs["bulk2"] = [_plain(y) for y in _tolist(w.getall_class())]
        except Exception as e:
            obs["bulk2"] = type(e).__name__
        guard("getall_class")
        # data other than the label
        try:
            want = [7 * i + 1 for i in range(n)]
            obs["x_ok"] = ([int(w.getitem_x(i)) for i in range(n)] == want
                           and [int(v) for v in _tolist(w.getall_x())] == want)
        except Exception as e:
            obs["x_ok"] = "error " + type(e).__name__
        guard("getitem_x / getall_x")
        if post:
            # later constructions on the same objects, then the wrapper under test is read again
            _history(post, len(pre), sibs, wrapped, w, watch, obs, args)
            try:
                obs["items3"] = [_plain(w.getitem_class(i)) for i in range(n)]
            except Exception as e:
                obs["items3"] = "error " + type(e).__name__ + ": " + str(e)[:120]
            try:
                obs["bulk3"] = [_plain(y) for y in _tolist(w.getall_class())]
            except NotImplementedError:
                obs["bulk3"] = "NotImplementedError"
            except Exception as e:
                obs["bulk3"] = "error " + type(e).__name__ + ": " + str(e)[:120]
            guard("re-reading the wrapper after the later constructions", True)
        if obs["changed_by"] is None and watch.first is not None:
            obs["changed_by"], obs["change"] = watch.first["after"], watch.first
        obs["after"] = _labels_of(wrapped)
        obs["tops"] = watch.tops
        if case.get("src"):
            _source_change(case, wrapped, w, sibs, obs)
        if case.get("ops") and history:
            _run_ops(case, wrapped, w, obs)
    return obs


# ---------------------------------------------------------------------------
# accessor-order / setter / table-file histories on the finished objects
# ---------------------------------------------------------------------------
ORDERS = ["bis", "bsi", "sbi", "sib", "ibs", "isb", "mix"]
ENC_KINDS = ("smoothing", "onehot")


def _specs(case):
    """the wrapper specs aligned with [wrapper under test] + _layers(wrapped): case, the stack top-down, the inner
    KDRandomClassWrapper, None for the root dataset"""
    out = [case] + list(reversed(case.get("under", [])))
    if case.get("inner") is not None:
        out.append({"w": "random_class", "mode": "random", "num_classes": None, "seed": case["inner"]})
    return out + [None]


def _src_settings(case, cur):
    """the label-source-change step (before the ops) may already have re-configured the inner KDRandomClassWrapper"""
    src = case.get("src") or {}
    if src.get("how") == "inner_seed":
        cur[-2]["seed"] = src["seed"]
    elif src.get("how") == "inner_mode":
        cur[-2]["mode"] = src["mode"]


def _is_dynamic(spec):
    return spec["w"] == "pseudo" and spec.get("mode") == "topk" and spec.get("seed") is None


def _read(ds, order):
    """read the three label accessors of one wrapper in the given order (b = bulk, i = every sample, s = class shape;
    "mix" = one sample, bulk, shape, the remaining samples, bulk once more)"""
    r = {}

    def bulk(key="bulk"):
        try:
            r[key] = [_plain(y) for y in _tolist(ds.getall_class())]
        except NotImplementedError:
            r[key] = "NotImplementedError"
        except Exception as e:  # noqa
            r[key] = "error " + type(e).__name__ + ": " + str(e)[:120]

    def items(idx):
        try:
            got = [_plain(ds.getitem_class(i)) for i in idx]
            if isinstance(r.get("items", []), list):
                r["items"] = r.get("items", []) + got
        except Exception as e:  # noqa
            r["items"] = "error " + type(e).__name__ + ": " + str(e)[:120]

    def shape():
        try:
            r["shape"] = [int(v) for v in ds.getshape_class()]
        except Exception as e:  # noqa
            r["shape"] = "error " + type(e).__name__ + ": " + str(e)[:120]

    n = len(ds)
    if order == "mix":
        items(range(min(1, n)))
        bulk()
        shape()
        items(range(min(1, n), n))
        bulk("bulk_again")
    else:
        for ch in order:
            {"b": bulk, "i": lambda: items(range(n)), "s": shape}[ch]()
    r.setdefault("items", [])
    return r


def _apply_setter(obj, spec, attr, value):
    """assign a documented public attribute of a label wrapper and keep the spec of its CURRENT settings"""
    setattr(obj, attr, value)
    if spec["w"] == "pseudo" and attr == "threshold":
        spec["threshold"] = value
        spec["mode"] = "soft" if value is None else "thr"
    else:
        spec[attr] = value


def _rewrite_file(path, spec, how, table):
    """the file behind `uri=` changes AFTER the wrapper was built: another table torch.save'd to the same path (the
    same inode is truncated and rewritten), the same bytes range overwritten through r+b, the file truncated (and
    zero-filled back to its length) or deleted"""
    import io
    import os
    import torch
    if not os.path.exists(path) and how in ("delete", "truncate"):
        return                      # already deleted by an earlier step
    if not os.path.exists(path):
        how = "overwrite"           # a new file appears under the old name
    if how == "delete":
        os.remove(path)
        return
    if how == "truncate":
        size = os.path.getsize(path)
        os.truncate(path, 0)
        os.truncate(path, size)
        return
    if spec["w"] == "overwrite" or spec.get("mode") == "hard":
        t = torch.tensor(table)
        if spec.get("as2d"):
            t = t.unsqueeze(1)
    else:
        t = torch.tensor(table, dtype=torch.float32)
    payload = _file_payload(spec, t)
    if how == "rplus":
        buf = io.BytesIO()
        torch.save(payload, buf)
        data = buf.getvalue()
        if len(data) == os.path.getsize(path):
            with open(path, "r+b") as f:
                f.write(data)
            return
    torch.save(payload, path)


def _run_ops(case, wrapped, w, obs):
    """history on the finished objects: each step optionally calls a public setter of one wrapper of the stack /
    rewrites the file a table was loaded from, then EVERY wrapper of the stack is read, top-down, in the step's accessor
    order; wrappers that are a function of their arguments and seed are compared with a FRESH wrapper built from the
    current settings on a pristine dataset"""
    objs = [w] + _layers(wrapped)
    specs = _specs(case)
    if len(objs) != len(specs):
        obs["ops_error"] = "harness: %d objects, %d specs" % (len(objs), len(specs))
        return
    paths = [None if sp is None else _TMP["paths"].get(id(sp)) for sp in specs]
    cur = [None if sp is None else {k: v for k, v in sp.items() if k not in ("under", "hist", "post", "src", "ops")}
           for sp in specs]
    _src_settings(case, cur)
    out = []
    for st in case["ops"]:
        rec = {"layers": []}
        out.append(rec)
        d = st.get("target", 0)
        try:
            if (st.get("set") or st.get("file")) and cur[d] is None:
                raise ValueError("harness: ops step targets the root dataset")
            if st.get("set"):
                _apply_setter(objs[d], cur[d], st["set"][0], st["set"][1])
            elif st.get("file"):
                if paths[d] is None:
                    rec["skipped"] = "no file"
                else:
                    _rewrite_file(paths[d], cur[d], st["file"], st.get("table"))
        except Exception as e:  # noqa
            rec["error"] = type(e).__name__ + ": " + str(e)[:120]
            continue
        for j, (o, sp) in enumerate(zip(objs, cur)):
            if sp is None:
                continue
            r = _read(o, st["order"])
            r["kind"] = sp["w"]
            r["dynamic"] = _is_dynamic(sp)
            if sp["w"] in ("random_class", "pseudo", "overwrite") and not r["dynamic"]:
                try:
                    ref = build({k: v for k, v in sp.items() if k != "via"},
                                base_cls("list")(case["labels"], case["C"]))
                    r["fresh"] = _read(ref, "isb")
                except Exception as e:  # noqa
                    r["fresh"] = "error " + type(e).__name__ + ": " + str(e)[:120]
            rec["layers"].append(r)
    obs["ops"] = out


def _source_change(case, wrapped, w, sibs, obs):
    """the LABEL SOURCE changes after everything was built (done by the harness, after the purity checks): in-place edit
    of the root dataset's storage / attribute change of an inner KDRandomClassWrapper; then every wrapper of the stack,
    the wrapper under test and its siblings are read again through both accessors"""
    import torch
    from kappadata.wrappers.sample_wrappers.kd_random_class_wrapper import KDRandomClassWrapper
    src = case["src"]
    layers = _layers(wrapped)
    root = layers[-1]
    try:
        if src["how"] == "root_edit":
            new = [int(v) for v in src["labels"]]
            if torch.is_tensor(root.store):
                root.store[:] = torch.tensor(new, dtype=root.store.dtype)
            else:
                root.store[:] = new
        else:
            inner = layers[-2]
            assert isinstance(inner, KDRandomClassWrapper)
            if src["how"] == "inner_seed":
                inner.seed = src["seed"]
            else:
                inner.mode = src["mode"]
    except Exception as e:  # noqa
        obs["src_error"] = type(e).__name__ + ": " + str(e)[:120]
        return
    obs["src_wrapped"] = _labels_of(wrapped)
    obs["src_layers"] = [[type(l).__name__, _labels_of(l)] for l in layers]
    n = len(w)
    try:
        obs["items4"] = [_plain(w.getitem_class(i)) for i in range(n)]
    except Exception as e:
        obs["items4"] = "error " + type(e).__name__ + ": " + str(e)[:120]
    try:
        obs["bulk4"] = [_plain(y) for y in _tolist(w.getall_class())]
    except NotImplementedError:
        obs["bulk4"] = "NotImplementedError"
    except Exception as e:
        obs["bulk4"] = "error " + type(e).__name__ + ": " + str(e)[:120]
    sib_obs = []
    for j, sib in enumerate(sibs):
        if sib is wrapped or type(sib).__name__ in ("LabelSmoothingWrapper", "OneHotWrapper"):
            continue
        try:
            a = [_plain(sib.getitem_class(i)) for i in range(len(sib))]
            try:
                b = [_plain(y) for y in _tolist(sib.getall_class())]
            except NotImplementedError:
                continue
            sib_obs.append([j, type(sib).__name__, a, b])
        except Exception as e:  # noqa
            sib_obs.append([j, type(sib).__name__, "error " + type(e).__name__ + ": " + str(e)[:120], None])
    obs["src_sibs"] = sib_obs


def _seed_globals(a):
    import random
    import numpy as np
    import torch
    np.random.seed(a)
    torch.manual_seed(a)
    random.seed(a)


def _globals_digest():
    """fingerprint of the three process-wide generators (numpy legacy, torch default, python random)"""
    import hashlib
    import random
    import numpy as np
    import torch
    st = np.random.get_state()
    h = hashlib.sha1()
    h.update(st[1].tobytes())
    h.update(repr(st[2:]).encode())
    h.update(torch.get_rng_state().numpy().tobytes())
    h.update(repr(random.getstate()).encode())
    return h.hexdigest()


def run_impl(case):
    # tripwire: a wrapper that was given a seed must neither read nor advance a process-wide generator; the two
    # constructions run under DIFFERENT global generator states (the same state only for the by-design dynamic pseudo
    # labels, seed=None, which draw from the global generator on every access)
    _seed_globals(1234)
    before = _globals_digest()
    obs = run_once(case)
    obs["global_rng_touched"] = _globals_digest() != before
    if "ctor_error" not in obs:
        _seed_globals(1234 if dynamic(case) else 98765)
        # the reference: the same wrapper on a pristine copy of the dataset, WITHOUT the construction history
        again = run_once(case, history=False)
        obs["rebuild_items"] = again.get("items")
        obs["rebuild_bulk"] = again.get("bulk")
    return obs


# ---------------------------------------------------------------------------
# independent statement of the property on the real output
# ---------------------------------------------------------------------------
def dynamic(case):
    return case["w"] == "pseudo" and case["mode"] == "topk" and case["seed"] is None


def in_domain(case, wrapped):
    k = case["w"]
    C = case["C"]
    lab_ok = all(isinstance(y, int) and (0 <= y < C or (y == -1 and k in UNLABELED_IN)) for y in wrapped)
    if k == "class_groups":
        return lab_ok and C % case["cpg"] == 0
    if k == "smoothing" and C == 1:
        return True
    return lab_ok


def _vec(it):
    return [Fraction(a, b) for a, b in it[1]]


def oracle(case, obs):
    if "harness_exception" in obs:
        return "harness exception: " + obs["harness_exception"] + obs.get("tb", "")
    k = case["w"]
    if "ctor_error" in obs:
        return "constructor raised on an in-domain configuration: " + obs["ctor_error"]
    wrapped = obs["wrapped"]
    if wrapped and wrapped[0] == "INCONSISTENT":
        return "harness: wrapped dataset itself is incoherent"
    n = obs["len"]
    if n != len(wrapped):
        return f"len(wrapper)={n} differs from the wrapped dataset's {len(wrapped)}"
    items, bulk = obs["items"], obs["bulk"]
    if isinstance(items, str):
        return "getitem_class raised: " + items
    if isinstance(bulk, str) and bulk != "NotImplementedError":
        return "getall_class raised: " + bulk
    if obs.get("hist_error"):
        return "a construction of the history raised on an in-domain configuration: " + obs["hist_error"]
    if obs["changed_by"] is not None or obs["after"] != wrapped:
        ch = obs.get("change") or {"what": "labels of the wrapped dataset", "before": wrapped, "now": obs["after"]}
        own = OWN_STORAGE.get(case.get("prov", "own_list"))
        return (f"constructors and accessors must be pure, but the WRAPPED dataset changed after {obs['changed_by']}: "
                f"{ch['what']} before {ch['before']} now {ch['now']}"
                + (f" (the root dataset's bulk accessors hand out its own {own})" if own else ""))
    hist_desc = ""
    if case.get("hist") or case.get("post"):
        hist_desc = (" [construction history on the same objects: before "
                     + str([(st["spec"]["w"], st["spec"].get("seed"), st["on"]) for st in case.get("hist", [])])
                     + " after " + str([(st["spec"]["w"], st["spec"].get("seed"), st["on"]) for st in case.get("post", [])])
                     + f"; provider {case.get('prov', 'own_list')}]")
    if "items3" in obs and not dynamic(case):
        if obs["items3"] != items or obs["bulk3"] != bulk:
            return ("the wrapper's labels changed after LATER constructions on the same objects: per-sample "
                    f"{items} -> {obs['items3']}, bulk {bulk} -> {obs['bulk3']}" + hist_desc)
    bad = oracle_source_change(case, obs)
    if bad:
        return bad + hist_desc
    bad = oracle_ops(case, obs)
    if bad:
        return bad + hist_desc
    if isinstance(obs.get("bulk0"), str) and obs["bulk0"] != "NotImplementedError":
        return "getall_class as the first access to the new wrapper raised: " + obs["bulk0"]
    if isinstance(obs.get("bulk0"), list) and isinstance(bulk, list) and obs["bulk0"] != bulk and not dynamic(case):
        return (f"getall_class() asked FIRST (before any per-sample access) returned {obs['bulk0']}, after the per-sample "
                f"pass it returns {bulk} (per-sample {items})")
    if obs["x_ok"] is not True:
        return f"data other than the label is not passed through unchanged: {obs['x_ok']}"
    if obs.get("shadowed"):
        return (f"the wrapper's classes define {obs['shadowed']}: accesses to wrapped data other than the label no longer "
                "reach the wrapped dataset unchanged")
    if not (isinstance(obs["shape"], list) and len(obs["shape"]) == 1):
        return f"getshape_class returned {obs['shape']}"
    shape = obs["shape"][0]

    if k in ("smoothing", "onehot"):
        if bulk != wrapped:
            return f"bulk accessor of a re-encoding wrapper is not the integer label list: {bulk} vs {wrapped}"
        if shape != case["C"]:
            return f"getshape_class {shape} != {case['C']}"
        sm = Fraction(*case["sm"]) if k == "smoothing" else Fraction(0)
        for i, (y, it) in enumerate(zip(bulk, items)):
            if k == "smoothing" and sm == 0:
                if it != y:
                    return f"sample {i}: smoothing 0 must return the label {y}, got {it}"
                continue
            if not isinstance(it, list) or it[0] == "other":
                return f"sample {i}: unexpected encoding {it}"
            if it[0] == "scalar":
                q = Fraction(*it[1])
                if case["C"] != 1 or not (0 <= q <= 1) or (y == 1 and q < Fraction(1, 2)) or (y == 0 and q > Fraction(1, 2)):
                    return f"sample {i}: binary smoothing of {y} gave {float(q)}"
                continue
            v = _vec(it)
            if len(v) != case["C"]:
                return f"sample {i}: vector of length {len(v)}, announced {case['C']}"
            if y == -1:
                if any(q != -1 for q in v):
                    return f"sample {i}: unlabeled sample must stay all -1, got {[float(q) for q in v]}"
                continue
            if any(q < 0 for q in v):
                return f"sample {i}: negative entry in {[float(q) for q in v]}"
            if abs(sum(v) - 1) > Fraction(1, 10000):
                return f"sample {i}: entries sum to {float(sum(v))}"
            if any(q > v[y] for q in v):
                return f"sample {i}: class {y} is not an argmax of {[float(q) for q in v]}"
            if (k == "onehot" or sm < 1) and any(v[j] >= v[y] for j in range(len(v)) if j != y):
                return f"sample {i}: class {y} is not the strict argmax of {[float(q) for q in v]}"
        if obs["items2"] != items or obs["rebuild_items"] != items:
            return "second pass / construction on a pristine copy gives another encoding" + hist_desc
        if obs.get("global_rng_touched"):
            return "a re-encoding wrapper read / advanced a process-wide random generator"
        return None

    if any(not isinstance(y, int) for y in items):
        return f"non-integer label in {items}"
    # (1) coherence
    if bulk != "NotImplementedError" and bulk != items:
        d = next((i for i in range(min(len(bulk), len(items))) if bulk[i] != items[i]), min(len(bulk), len(items)))
        return (f"bulk accessor differs from the per-sample accessor at sample {d}: "
                f"getall_class()={bulk} per-sample={items}")
    if obs["bulk2"] != bulk:
        return f"second getall_class() call returns {obs['bulk2']}, first {bulk}"
    # (2) range
    if in_domain(case, wrapped) and not case.get("binary"):
        unl = k in UNLABELED_OK
        bad = [y for y in items if not (0 <= y < shape or (unl and y == -1))]
        if bad:
            return f"label(s) {sorted(set(bad))} outside the announced range [0,{shape})" + (" and not -1" if unl else "")
    if case.get("binary") and any(y not in (0, 1, -1) for y in items):
        return f"binary dataset (labels 0/1, class shape (1,)): label(s) {sorted(set(items) - {0, 1, -1})} produced"
    # (3) reproducible: a function of the constructor arguments and the seed alone
    if not dynamic(case) and obs.get("global_rng_touched"):
        return ("the wrapper read / advanced a process-wide random generator (numpy / torch / random) although it was "
                f"given seed={case.get('seed')!r}: the mapping is not a function of the constructor arguments and seed")
    if not dynamic(case):
        if obs["items2"] != items:
            return f"second pass over getitem_class differs: {obs['items2']} vs {items}"
        if obs["rebuild_items"] != items or obs["rebuild_bulk"] != bulk:
            return ("the mapping is not a function of the constructor arguments and seed: the same wrapper built from the "
                    f"same arguments on a pristine copy of the dataset gives {obs['rebuild_items']}, here {items}" + hist_desc)
    # wrapper-specific direct statements
    if k == "class_groups" and in_domain(case, wrapped):
        cpg = case["cpg"]
        seen = {}
        for i, (c, y) in enumerate(zip(wrapped, items)):
            occ = seen.setdefault(c, [])
            if occ and occ[0] // cpg != y // cpg:
                return f"class {c} is mapped into two different groups ({occ[0] // cpg} and {y // cpg})"
            if y % cpg != len(occ) % cpg:
                return f"sample {i}: occurrence {len(occ)} of class {c} should take slot {len(occ) % cpg} of its group, got {y % cpg}"
            occ.append(y)
        groups = {}
        for c, occ in seen.items():
            if c != -1:            # unlabeled samples join the last group, they are not a class of it
                groups.setdefault(occ[0] // cpg, set()).add(c)
        if any(len(v) > cpg for v in groups.values()):
            return f"a group received more than {cpg} classes: {groups}"
    if k == "superclass" and in_domain(case, wrapped):
        og = -(-case["C"] // case["cps"])
        if shape != og * case["splits"]:
            return f"getshape_class {shape} != ceil(C/k)*splits = {og * case['splits']}"
        by_cls = {}
        for c, y in zip(wrapped, items):
            by_cls.setdefault(c, []).append(y)
        sup = {}
        for c, ys in by_cls.items():
            if len({y % og for y in ys}) != 1:
                return f"class {c} is mapped into several superclasses: {sorted(set(ys))}"
            if c != -1:
                sup.setdefault(ys[0] % og, set()).add(c)
            cnt = [sum(1 for y in ys if y // og == sp) for sp in range(case["splits"])]
            if max(cnt) - min(cnt) > 1:
                return f"class {c}: split sizes {cnt} are not balanced"
        if any(len(v) > case["cps"] for v in sup.values()):
            return f"a superclass received more than {case['cps']} classes: {sup}"
    if k == "overwrite" and items != case["classes"]:
        return f"overwritten classes {case['classes']} are not what the wrapper shows: {items}"
    if k == "semi":
        kk = int(n * case["pct"])
        hidden = [i for i in range(n) if items[i] == -1 and wrapped[i] != -1]
        if any(items[i] not in (-1, wrapped[i]) for i in range(n)):
            return f"semi wrapper changed a label to something else than -1: {items} over {wrapped}"
        if len(hidden) > kk or (all(y != -1 for y in wrapped) and len(hidden) != kk):
            return f"semi wrapper hides {len(hidden)} labels, expected int(n*semi_percent)={kk}"
    if k == "swap":
        if any(items[i] != wrapped[i] and not 0 <= items[i] < case["C"] for i in range(n)):
            return f"swapped label outside [0,C): {items}"
        if case["p"] == 0.0 and items != wrapped:
            return "p=0 must not change any label"
    if k == "allgather":
        import numpy as np
        W = case["W"]
        pad = (W - n % W) % W
        idx = np.concatenate([np.arange(n), np.arange(n)[:pad]]).reshape(-1, W).T.reshape(-1)[:n]
        exp = [wrapped[i] for i in idx.tolist()]
        if items != exp:
            return f"all-gather order with world_size={W}: expected {exp}, got {items}"
    if k == "pseudo" and case["mode"] == "hard" and items != case["table"]:
        return f"hard pseudo labels {case['table']} are not what the wrapper shows: {items}"
    if k == "pseudo" and case["mode"] in ("soft", "thr"):
        for i, row in enumerate(case["table"]):
            r32 = row32(row)
            above = True
            if case["mode"] == "thr":
                thr = case["threshold"]
                p = softmax_max(r32)
                # far from the threshold the decision is fixed by double-precision arithmetic alone; next to it the
                # rule is evaluated with the float32 softmax of the single row (exact for saturated / uniform rows)
                above = (p > thr) if abs(p - thr) >= 1e-3 else rule_above(row, thr)
            if not above:
                if items[i] != -1:
                    return (f"sample {i}: confidence {float(conf32(row))!r} is not > threshold {case['threshold']!r} "
                            f"but the label is {items[i]}, expected the -1 marker")
            elif not (0 <= items[i] < len(row)) or r32[items[i]] != max(r32):
                return (f"sample {i}: pseudo label {items[i]} is not an argmax of row {r32} "
                        f"(threshold {case.get('threshold')})")
    if k == "pseudo" and case["mode"] == "topk":
        for i, row in enumerate(case["table"]):
            r32 = row32(row)
            kth = sorted(r32, reverse=True)[case["topk"] - 1]
            if not (0 <= items[i] < len(row)) or r32[items[i]] < kth:
                return (f"sample {i}: sampled pseudo label {items[i]} is not among the top-{case['topk']} classes of "
                        f"row {r32}")
    return None


def oracle_ops(case, obs):
    """after every step of the accessor-order / setter / table-file history, for every wrapper of the stack:
    bulk == per-sample element-wise, observed labels inside the range the wrapper announces NOW (or -1 where the kind may
    show it), and -- for wrappers whose labels are a function of their own arguments and seed (random class, pseudo
    label, overwrite) -- both accessors and the class shape equal to a FRESH wrapper built from the current settings"""
    if not case.get("ops") or "items" not in obs:
        return None
    if "ops_error" in obs:
        return obs["ops_error"]
    specs = _specs(case)
    names = ["the wrapper under test"] + ["layer %d below it" % j for j in range(1, len(specs))]
    done = []
    for st, rec in zip(case["ops"], obs.get("ops", [])):
        d = st.get("target", 0)
        kind_d = specs[d]["w"] if specs[d] else "?"
        if st.get("set"):
            done.append(f"{kind_d} ({names[d]}).{st['set'][0]} = {st['set'][1]!r}")
        elif st.get("file") and "skipped" not in rec:
            done.append(f"the file behind uri= of {kind_d} ({names[d]}) "
                        + {"delete": "deleted", "truncate": "truncated and zero-filled"}.get(
                            st["file"], f"rewritten in place ({st['file']}) with the table {st.get('table')}"))
        pre = ("after " + "; ".join(done) if done else "without any change") + f", accessors read in order {st['order']!r}: "
        if "error" in rec:
            return pre + "the step itself raised " + rec["error"]
        below = None
        for j, r in reversed(list(enumerate(rec["layers"]))):
            who = f"{r['kind']} ({names[j]})"
            items, bulk, shape = r.get("items"), r.get("bulk"), r.get("shape")
            for nm, v in (("getitem_class", items), ("getall_class", bulk), ("getshape_class", shape)):
                if isinstance(v, str) and v != "NotImplementedError":
                    return pre + f"{who}: {nm} raised {v}"
            if r["kind"] in ENC_KINDS:
                if below is not None and bulk != below:
                    return pre + f"{who}: getall_class()={bulk}, the wrapped labels are {below}"
                continue
            if isinstance(bulk, list) and not r["dynamic"]:
                if bulk != items:
                    return pre + f"{who}: bulk accessor differs from the per-sample accessor: getall_class()={bulk} per-sample={items}"
                if "bulk_again" in r and r["bulk_again"] != bulk:
                    return pre + f"{who}: getall_class() gave {bulk}, after the per-sample reads {r['bulk_again']}"
            sp = specs[j]
            labs = [y for y in (items + (bulk if isinstance(bulk, list) else []))]
            if any(not isinstance(y, int) for y in labs):
                return pre + f"{who}: non-integer label in {labs}"
            if not (sp["w"] == "class_groups" and case["C"] % sp["cpg"]) and isinstance(shape, list) and len(shape) == 1:
                badl = [y for y in labs if not (0 <= y < shape[0] or (y == -1 and r["kind"] in UNLABELED_OK))]
                if badl:
                    return pre + f"{who}: label(s) {sorted(set(badl))} outside the announced range [0,{shape[0]})"
            if "fresh" in r:
                fr = r["fresh"]
                if isinstance(fr, str):
                    return pre + f"{who}: a fresh wrapper with the current settings cannot be built: {fr}"
                if fr["items"] != items or (isinstance(bulk, list) and fr["bulk"] != bulk) or fr["shape"] != shape:
                    return (pre + f"{who} shows per-sample {items}, bulk {bulk}, shape {shape}; a FRESH wrapper built from the "
                            f"current settings shows per-sample {fr['items']}, bulk {fr['bulk']}, shape {fr['shape']}"
                            + (" (a table given through uri= is read at construction: the labels must stay those of the file "
                               "as it was then -- the mapping is a function of the constructor arguments and seed)"
                               if any("the file behind" in x for x in done) else ""))
            below = items
    return None


def oracle_source_change(case, obs):
    """after the label source changed: bulk accessor == per-sample accessor element-wise for every label wrapper of the
    objects (wrapper under test, the stack below it, its siblings), and the wrapper under test behaves as its kind is
    modelled (SNAPSHOT_KINDS: both accessors still show the construction-time labels; LIVE_KINDS: both follow the
    current wrapped labels)"""
    if "src" not in case or "items" not in obs:
        return None
    src = case["src"]
    what = ("the root dataset's label storage was edited in place to " + str(src["labels"]) if src["how"] == "root_edit" else
            f"the inner KDRandomClassWrapper was re-configured ({'seed' if src['how'] == 'inner_seed' else 'mode'} = "
            f"{src.get('seed', src.get('mode'))!r})")
    if "src_error" in obs:
        return f"harness: changing the label source failed: {obs['src_error']}"
    k = case["w"]
    items, bulk = obs["items4"], obs["bulk4"]
    pre = f"after the wrapped dataset's labels changed ({what}; wrapped labels {obs['wrapped']} -> {obs['src_wrapped']}): "
    for name, labs in obs["src_layers"]:
        if labs and labs[0] == "INCONSISTENT":
            return pre + f"layer {name} of the wrapped stack: per-sample {labs[1]} but getall_class() {labs[2]}"
    for j, name, a, b in obs["src_sibs"]:
        if isinstance(a, str):
            return pre + f"sibling {j} ({name}) raised {a}"
        if a != b:
            return pre + f"sibling {j} ({name}): per-sample {a} but getall_class() {b}"
    if isinstance(items, str):
        return pre + "getitem_class raised: " + items
    if isinstance(bulk, str) and bulk != "NotImplementedError":
        return pre + "getall_class raised: " + bulk
    new, old = obs["src_wrapped"], obs["wrapped"]
    if k in ("smoothing", "onehot"):
        if bulk != new:
            return pre + f"bulk accessor of the re-encoding wrapper shows {bulk}, the wrapped labels are {new}"
        enc = {}
        for y, it in zip(old, obs["items"]):
            enc.setdefault(y, it)
        for i, (y, it) in enumerate(zip(new, items)):
            if y in enc and enc[y] != it:
                return pre + f"sample {i}: label {y} is encoded as {it}, before the change label {y} was encoded as {enc[y]}"
        return None
    if bulk != "NotImplementedError" and bulk != items:
        d = next((i for i in range(min(len(bulk), len(items))) if bulk[i] != items[i]), min(len(bulk), len(items)))
        return (pre + f"bulk accessor differs from the per-sample accessor at sample {d}: getall_class()={bulk} "
                f"per-sample={items}")
    if dynamic(case):
        return None
    if k in SNAPSHOT_KINDS:
        if items != obs["items"]:
            return pre + f"a wrapper that shows labels fixed at construction now shows {items}, before {obs['items']}"
        return None
    n = len(items)
    if any(not isinstance(y, int) for y in items):
        return pre + f"non-integer label in {items}"
    if k == "semi":
        for i in range(n):
            hidden = obs["items"][i] == -1 and old[i] != -1
            shown = obs["items"][i] != -1
            if (hidden and items[i] != -1) or (shown and items[i] != new[i]) or items[i] not in (-1, new[i]):
                return pre + f"semi wrapper shows {items} (before the change {obs['items']})"
    if k == "allgather":
        perm = {}
        import numpy as np
        W = case["W"]
        pad = (W - n % W) % W
        idx = np.concatenate([np.arange(n), np.arange(n)[:pad]]).reshape(-1, W).T.reshape(-1)[:n]
        if items != [new[i] for i in idx.tolist()]:
            return pre + f"all-gather order with world_size={W}: expected {[new[i] for i in idx.tolist()]}, got {items}"
    if k in ("class_groups", "superclass") and in_domain(case, old) and in_domain(case, new):
        shape = obs["shape"][0]
        if any(not 0 <= y < shape for y in items):
            return pre + f"label outside the announced range [0,{shape}): {items}"
        if k == "class_groups":
            cpg = case["cpg"]
            grp = lambda y: y // cpg
            slot = lambda y: y % cpg
        else:
            og = -(-case["C"] // case["cps"])
            grp = lambda y: y % og
            slot = lambda y: y // og
        seen = {}
        for c, y in zip(old, obs["items"]):
            seen.setdefault(c, grp(y))
        for i, (c, y) in enumerate(zip(new, items)):
            if c in seen and grp(y) != seen[c]:
                return pre + (f"sample {i}: class {c} went to group {seen[c]} before the change and goes to group "
                              f"{grp(y)} now ({items})")
            if slot(y) != slot(obs["items"][i]):
                return pre + f"sample {i}: slot {slot(y)} within the group, fixed at construction as {slot(obs['items'][i])}"
            seen.setdefault(c, grp(y))
    return None


# ---------------------------------------------------------------------------
# rendering to Coq
# ---------------------------------------------------------------------------
def coq_applicable(case, obs):
    if "harness_exception" in obs or "ctor_error" in obs:
        return False
    if case.get("binary"):
        return False            # the model's contract speaks about [0, C): binary cases are judged by the Python oracle only
    if obs["wrapped"] and obs["wrapped"][0] == "INCONSISTENT":
        return False
    if isinstance(obs["items"], str) or isinstance(obs["items2"], str):
        return False
    if isinstance(obs["bulk"], str) and obs["bulk"] != "NotImplementedError":
        return False
    if not (isinstance(obs["shape"], list) and len(obs["shape"]) == 1):
        return False
    if obs["after"] and obs["after"][0] == "INCONSISTENT":
        return False
    if any(t and t[0] == "INCONSISTENT" for t in obs.get("tops", [])):
        return False
    if "items3" in obs and (isinstance(obs["items3"], str) or (isinstance(obs["bulk3"], str) and obs["bulk3"] != "NotImplementedError")):
        return False
    flat = obs["items"] + obs["items2"] + (obs["bulk"] if isinstance(obs["bulk"], list) else [])
    flat = flat + obs.get("items3", []) + (obs["bulk3"] if isinstance(obs.get("bulk3"), list) else [])
    if case["w"] in ("smoothing", "onehot"):
        return all(isinstance(y, int) for y in obs["bulk"]) and all(
            isinstance(it, int) or it[0] in ("vec", "scalar") for it in obs["items"] + obs.get("items3", []))
    return all(isinstance(y, int) for y in flat)


def _draw(trace, kind, nth=0):
    hits = [t for t in trace if t[0] == kind]
    return hits[nth] if len(hits) > nth else None


def Q(fr):
    a, b = fr
    return Raw(f"(Qmake {coq(int(a))} {int(b)}%positive)")


def NatL(l):
    return [Nat(int(x)) for x in l]


def coq_wspec(case, obs):
    k = case["w"]
    n = obs["len"]
    tr = obs["ctor_draws"]
    if k == "class_groups":
        d = _draw(tr, "permuted")
        return K("WClassGroups", Rec(cg_cpg=case["cpg"], cg_shuffle=case["shuffle"], cg_draw=d[2] if d else []))
    if k == "superclass":
        d1, d2 = _draw(tr, "permutation", 0), _draw(tr, "permutation", 1)
        return K("WSuperclass", Rec(sc_cps=case["cps"], sc_splits=case["splits"], sc_shuffle=case["shuffle"],
                                    sc_perm=d1[2] if d1 else [], sc_perm2=NatL(d2[2]) if d2 else Raw("(@nil nat)")))
    if k == "swap":
        r, i = _draw(tr, "random"), _draw(tr, "integers")
        return K("WSwap", Rec(sw_apply=[bool(x < case["p"]) for x in r[1]], sw_new=i[2]))
    if k == "overwrite":
        return K("WOverwrite", list(case["classes"]))
    if k == "allgather":
        return K("WAllgather", Nat(case["W"]))
    if k == "pseudo":
        m = case["mode"]
        if m == "hard":
            return K("WPseudo", K("PLHard", list(case["table"])))
        if m == "soft":
            return K("WPseudo", K("PLSoft", [argmax32(r) for r in case["table"]]))
        if m == "thr":
            # the threshold decision three times: the rule evaluated by the harness, and what each of the two REAL
            # code paths decided (a thresholded label is -1 exactly when that path's comparison came out false)
            ref = [rule_above(r, case["threshold"]) for r in case["table"]]
            dec_item = [y != -1 for y in obs["items"]]
            dec_bulk = [y != -1 for y in obs["bulk"]] if isinstance(obs["bulk"], list) else []
            BL = lambda l: l if l else Raw("(@nil bool)")  # noqa: E731
            return K("WPseudo", K("PLThr", [argmax32(r) for r in case["table"]], BL(ref), BL(dec_item), BL(dec_bulk)))
        top = [topk32(r, case["topk"]) for r in case["table"]]
        choice = []
        for t in obs["items_draws"]:
            if t[0] == "integers":
                choice.append(int(t[2]))
            elif t[0] == "multinomial":
                choice.append(max(range(len(t[2])), key=t[2].__getitem__) if sum(t[2]) == 1 and len(t[2]) == case["topk"] else -7)
        return K("WPseudo", K("PLTopk", top, choice))
    if k == "random_class":
        nc = case["num_classes"] if case["num_classes"] is not None else case["C"]
        if case["mode"] == "random":
            d = _draw(tr, "randint")
            return K("WRandomClass", nc, K("RCRandom", d[2] if d else []))
        if case["mode"] == "randperm":
            d = _draw(tr, "randperm")
            return K("WRandomClass", nc, K("RCRandperm", d[2] if d else []))
        return K("WRandomClass", nc, K("RCGatherbug", Nat(case["W"])))
    if k == "semi":
        d = _draw(tr, "permutation")
        return K("WSemi", Nat(int(n * case["pct"])), NatL(d[2]) if d else Raw("(@nil nat)"))
    raise ValueError(k)


def coq_enc(it):
    if isinstance(it, int):
        return K("EInt", it)
    if it[0] == "vec":
        return K("EVec", [Q(f) for f in it[1]])
    return K("EScalar", Q(it[1]))


def coq_case(case, obs):
    k = case["w"]
    hist = [list(t) for t in obs.get("tops", [])]
    if k in ("smoothing", "onehot"):
        e = K("ESmooth", Q(case["sm"])) if k == "smoothing" else K("EOneHot")
        items = [coq_enc(it) for it in obs["items"]]
        later = None
        if "items3" in obs:
            later = [coq_enc(it) for it in obs["items3"]] or Raw("(@nil enc)")
        return coq(K("CaseEnc", e, case["C"], list(obs["wrapped"]),
                     items if items else Raw("(@nil enc)"), list(obs["bulk"]), list(obs["after"]),
                     hist if hist else Raw("(@nil (list Z))"), Opt(later)))
    bulk = None if obs["bulk"] == "NotImplementedError" else list(obs["bulk"])
    items2 = obs["items"] if dynamic(case) else obs["items2"]
    later = None
    if "items3" in obs and not dynamic(case):
        later = (list(obs["items3"]), Opt(None if obs["bulk3"] == "NotImplementedError" else list(obs["bulk3"])))
    o = Rec(o_items=list(obs["items"]), o_items2=list(items2), o_bulk=Opt(bulk), o_shape=obs["shape"][0],
            o_after=list(obs["after"]), o_hist=hist if hist else Raw("(@nil (list Z))"), o_later=Opt(later))
    return coq(K("CaseLabel", coq_wspec(case, obs), case["C"], list(obs["wrapped"]), o))


# ---------------------------------------------------------------------------
# evidence
# ---------------------------------------------------------------------------
def features(case, obs):
    k = case["w"]
    yield "w=" + k + ("/" + case["mode"] if "mode" in case else "")
    yield "inner=%s" % (case.get("inner") is not None)
    yield "stacked on %d other label wrappers" % len(case.get("under", []))
    for u in case.get("under", []):
        yield "under=" + u["w"] + ("/" + u["mode"] if "mode" in u else "")
    yield "provider=" + case.get("prov", "own_list")
    yield "history: %d before, %d after" % (len(case.get("hist", [])), len(case.get("post", [])))
    for st in case.get("hist", []) + case.get("post", []):
        same = st["spec"]["w"] == k
        yield "history step: %s%s, %s" % (
            "same kind" if same else "other kind",
            " with another seed" if same and st["spec"].get("seed") != case.get("seed") else "",
            "beside" if st["on"] == -1 else "on top of the wrapper under test" if st["on"] == -2 else "stacked on a sibling")
    if case.get("via"):
        yield "table through uri= (%s)" % case["via"]
    if case.get("first"):
        yield "first access to the new wrapper: " + case["first"]
    specs_ = _specs(case)
    for st, rec in zip(case.get("ops", []), obs.get("ops", [])):
        tgt = specs_[st.get("target", 0)]
        where = "wrapper under test" if st.get("target", 0) == 0 else "layer below"
        if st.get("set"):
            yield "ops step: %s.%s set (%s), order %s" % (tgt["w"], st["set"][0], where, st["order"])
        elif st.get("file") and "skipped" not in rec:
            yield "ops step: uri= file of %s %s (%s), order %s" % (tgt["w"], st["file"], where, st["order"])
        else:
            yield "ops step: read only, order %s" % st["order"]
    if case.get("src"):
        changed = obs.get("src_wrapped") != obs.get("wrapped")
        yield "label source changes after construction: %s, wrapped labels change=%s" % (case["src"]["how"], changed)
        if changed and "items4" in obs:
            yield "label source change: %s wrapper %s" % (
                "snapshot" if k in SNAPSHOT_KINDS else "live", "follows" if obs["items4"] != obs.get("items") else "keeps its labels")
    if "seed" in case:
        yield "seed=" + ("None" if case["seed"] is None else "0" if case["seed"] == 0 else "1" if case["seed"] == 1 else "other")
    yield "has-unlabeled=%s" % (-1 in (obs.get("wrapped") or []))
    yield "n=" + ("1" if case["n"] == 1 else "2-8" if case["n"] <= 8 else "9-24" if case["n"] <= 24 else "25+")
    if case.get("binary"):
        yield "binary dataset under " + k
    yield "C=" + ("1" if case["C"] == 1 else "2-5" if case["C"] <= 5 else "6+")
    if k == "class_groups":
        yield "cpg-divides-C=%s" % (case["C"] % case["cpg"] == 0)
    if k == "pseudo" and case["mode"] == "topk":
        yield "tau=%s seeded=%s" % (case["tau"], case["seed"] is not None)
        yield "topk=" + ("1" if case["topk"] == 1 else "C" if case["topk"] == case["C"] else "inner")
        r32 = [row32(r) for r in case["table"]]
        if any(case["topk"] < len(r) and sorted(r, reverse=True)[case["topk"] - 1] == sorted(r, reverse=True)[case["topk"]]
               for r in r32):
            yield "topk: tie across the top-k edge"
    if k == "pseudo" and case["mode"] in ("soft", "thr"):
        if any(sorted(r)[-1] == sorted(r)[-2] for r in map(row32, case["table"]) if len(r) > 1):
            yield "pseudo: argmax tie in a row"
    if k == "pseudo" and case["mode"] == "thr":
        thr = case["threshold"]
        cs = [float(conf32(r)) for r in case["table"]]
        import numpy as np
        if any(np.float32(c) == np.float32(thr) for c in cs):
            yield "thr: a row's float32 confidence EQUALS the threshold"
            yield "thr: tie at threshold %s" % ("0.5" if thr == 0.5 else "1.0" if thr == 1.0 else "1/C" if thr == 1.0 / case["C"] else "other")
        elif any(abs(c - thr) < 1e-6 for c in cs):
            yield "thr: a row's confidence within 1e-6 of the threshold"
    if k in ("allgather",) or case.get("mode") == "gatherbug":
        yield "padding=%s" % (case["n"] % case["W"] != 0)
    if isinstance(obs.get("bulk"), str):
        yield "bulk=" + obs["bulk"].split(":")[0]
    if "ctor_error" in obs:
        yield "ctor_error"


def nontrivial_key(case, obs):
    if "items" not in obs or isinstance(obs["items"], str):
        return None
    if obs["items"] == obs["wrapped"]:
        return None
    params = tuple(sorted((k, repr(v)) for k, v in case.items() if k not in ("labels", "table", "classes")))
    return (params, hash(repr(obs["wrapped"])) & 0xFFFF, hash(repr(obs["items"])) & 0xFFFF)
