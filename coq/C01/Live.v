(* C01 -- the stack below a ModeWrapper is a live object: the wrapper keeps nothing of the stack's size or index
   maps.  In the model the stack is an ARGUMENT of every access (getitem / iter / mw_len / run_ops take [st]); what
   the constructor reads of the stack is only: fused_operations, requires_propagate_ctx and which loaders exist.
   Proofs; the statement is repeated in Property.v. *)
From Coq Require Import ZArith List Bool String.
Import ListNotations.
From KD Require Import C01.Model.

Section Live.
  Variable value : Type.

  Lemma forallb_ext_all : forall (A : Type) (f g : A -> bool) l, (forall a, f a = g a) -> forallb f l = forallb g l.
  Proof. intros A f g l H. induction l as [|a l IH]; simpl; [reflexivity | now rewrite H, IH]. Qed.

  (* a stack that was resized / re-mapped after construction (same declared groups, same ctx requirement, same
     loaders; ANY other length and ANY other loader results): the constructor run on it now yields the very wrapper
     that was built before -- so every access of the old wrapper, which takes the current stack as its argument, is
     the access of a freshly built one *)
  Lemma init_reads_only_lemma : forall (st st' : stack value) mode rc,
    s_fused_ops value st = s_fused_ops value st' -> s_req_ctx value st = s_req_ctx value st' ->
    (forall s, s_has_type value st s = s_has_type value st' s) -> (forall s, s_has value st s = s_has value st' s) ->
    init value st mode rc = init value st' mode rc.
  Proof.
    intros st st' mode rc Hg Hr Ht Hh. unfold init, init_items. rewrite <- Hg, <- Hr.
    match goal with |- context [if negb ?b then _ else _] => destruct (negb b); [reflexivity|] end.
    match goal with |- context [if negb ?b then _ else _] => destruct (negb b); [reflexivity|] end.
    destruct (fuse (s_fused_ops value st) (split_space mode)) as [plan|]; [|reflexivity].
    cbv zeta.
    erewrite forallb_ext_all; [reflexivity|].
    intros [| k | s]; try reflexivity.
    destruct (0 <? Datatypes.length plan)%nat; [apply Ht | apply Hh].
  Qed.

  Lemma access_uses_current_stack_lemma : forall vint proj (st st' : stack value) mode rc m,
    s_fused_ops value st = s_fused_ops value st' -> s_req_ctx value st = s_req_ctx value st' ->
    (forall s, s_has_type value st s = s_has_type value st' s) -> (forall s, s_has value st s = s_has value st' s) ->
    init value st mode rc = inl m ->
    init value st' mode rc = inl m /\
    mw_len value st' = s_len value st' /\
    (forall f ops, exists m', init value st' mode rc = inl m' /\
       run_ops value vint proj st' m f ops = run_ops value vint proj st' m' f ops) /\
    (exists m', init value st' mode rc = inl m' /\ iter value vint proj st' m = iter value vint proj st' m').
  Proof.
    intros vint proj st st' mode rc m Hg Hr Ht Hh Hi.
    rewrite <- (init_reads_only_lemma st st' mode rc Hg Hr Ht Hh), Hi.
    repeat split; try reflexivity.
    - intros f ops. exists m. split; reflexivity.
    - exists m. split; reflexivity.
  Qed.
End Live.
