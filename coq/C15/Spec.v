(* C15 — the property, stated on observable parameter values.

   Strength scaling.  A transform (tree: leaf = one scaling transform class with its parameter record,
   Opaque = a KDTransform without scaling, Foreign = a plain callable, Compose = KDComposeTransform) is
   scaled by factors in [0,1].
     * factor 1 gives back the constructed parameters           (tree_eq (scale t 1) t),
     * factor 0 gives the weakest setting                        (tree_weakest (scale t 0)),
     * every scaled parameter moves monotonically with the factor (all3 between on tree_bounds),
     * only the last factor matters                              (scale (scale t f) g = scale t g).
   Scheduled transform.  Full batches of B samples are dealt to W workers round-robin (batch b goes to
   worker b mod W).  Sample n (global order) is in batch n / B, is handled by worker rr_owner n and is
   that worker's rr_local-th sample.  The strength applied to it and written to ctx is schedule(n / B). *)
From Coq Require Import ZArith QArith Qminmax List Bool.
Import ListNotations.
From KD Require Import C15.Base C15.gen.Strength.
Open Scope Q_scope.

(* ---- lifting leaf predicates / relations to trees ---- *)
Fixpoint tree_all (P : leaf -> Prop) (t : tree) : Prop :=
  match t with
  | Leaf l => P l
  | Opaque | Foreign => True
  | Compose ts => (fix go (ts : list tree) : Prop :=
                     match ts with [] => True | c :: r => tree_all P c /\ go r end) ts
  end.
Fixpoint tree_allb (p : leaf -> bool) (t : tree) : bool :=
  match t with
  | Leaf l => p l
  | Opaque | Foreign => true
  | Compose ts => forallb (tree_allb p) ts
  end.
Fixpoint tree_rel (R : leaf -> leaf -> Prop) (a b : tree) : Prop :=
  match a, b with
  | Leaf x, Leaf y => R x y
  | Opaque, Opaque => True
  | Foreign, Foreign => True
  | Compose xs, Compose ys =>
      (fix go (xs ys : list tree) : Prop :=
         match xs, ys with
         | [], [] => True
         | x :: xs, y :: ys => tree_rel R x y /\ go xs ys
         | _, _ => False
         end) xs ys
  | _, _ => False
  end.
Fixpoint tree_relb (r : leaf -> leaf -> bool) (a b : tree) : bool :=
  match a, b with
  | Leaf x, Leaf y => r x y
  | Opaque, Opaque => true
  | Foreign, Foreign => true
  | Compose xs, Compose ys =>
      (fix go (xs ys : list tree) : bool :=
         match xs, ys with
         | [], [] => true
         | x :: xs, y :: ys => tree_relb r x y && go xs ys
         | _, _ => false
         end) xs ys
  | _, _ => false
  end.
Fixpoint tree_bounds (t : tree) : list Q :=
  match t with
  | Leaf l => leaf_bounds l
  | Opaque | Foreign => []
  | Compose ts => flat_map tree_bounds ts
  end.

Definition tree_constructed := tree_all leaf_constructed.
Definition tree_constructedb := tree_allb leaf_constructedb.
Definition tree_eq := tree_rel leaf_eq.
Definition tree_approx := tree_relb leaf_approx.

(* ---- domain of the constructor arguments (what torchvision's ColorJitter accepts / produces):
        brightness, contrast, saturation lower bounds are >= 0, hue range within [-1/2, 1/2] ---- *)
Definition nonneg_if (g : option Q) (x : Q) : Prop := match g with Some _ => 0 <= x | None => True end.
Definition nonneg_ifb (g : option Q) (x : Q) : bool := match g with Some _ => Qle_bool 0 x | None => true end.
Definition KDColorJitter_wf (s : KDColorJitter_st) : Prop :=
  nonneg_if (KDColorJitter_brightness_lb s) (KDColorJitter_og_brightness_lb s) /\
  nonneg_if (KDColorJitter_contrast_lb s) (KDColorJitter_og_contrast_lb s) /\
  nonneg_if (KDColorJitter_saturation_lb s) (KDColorJitter_og_saturation_lb s) /\
  match KDColorJitter_hue_lb s with
  | Some _ => - (1 # 2) <= KDColorJitter_og_hue_lb s /\ KDColorJitter_og_hue_ub s <= 1 # 2
  | None => True
  end.
Definition KDColorJitter_wfb (s : KDColorJitter_st) : bool :=
  nonneg_ifb (KDColorJitter_brightness_lb s) (KDColorJitter_og_brightness_lb s) &&
  nonneg_ifb (KDColorJitter_contrast_lb s) (KDColorJitter_og_contrast_lb s) &&
  nonneg_ifb (KDColorJitter_saturation_lb s) (KDColorJitter_og_saturation_lb s) &&
  match KDColorJitter_hue_lb s with
  | Some _ => Qle_bool (- (1 # 2)) (KDColorJitter_og_hue_lb s) && Qle_bool (KDColorJitter_og_hue_ub s) (1 # 2)
  | None => true
  end.
Definition leaf_wf (l : leaf) : Prop :=
  match l with
  | L_KDColorJitter s => KDColorJitter_wf s
  | L_KDRandomColorJitter s => KDColorJitter_wf (KDRandomColorJitter_color_jitter s)
  | _ => True
  end.
Definition leaf_wfb (l : leaf) : bool :=
  match l with
  | L_KDColorJitter s => KDColorJitter_wfb s
  | L_KDRandomColorJitter s => KDColorJitter_wfb (KDRandomColorJitter_color_jitter s)
  | _ => true
  end.
Definition tree_wf := tree_all leaf_wf.
Definition tree_wfb := tree_allb leaf_wfb.

(* ---- the weakest setting of every class (the identity where the transform has one) ----
   eqv is the comparison of two rationals: Qeq in the theorems, approxQ (as bool) in the check. *)
Section Weakest.
  Variable T : Type.
  Variable eqv : Q -> Q -> T.
  Variable eqz : Z -> Z -> T.
  Variable and_ : T -> T -> T.
  Variable true_ false_ : T.

  (* an optional range [lb, ub] collapsed to the single value c *)
  Definition range_is (lb : option Q) (ub c : Q) : T :=
    match lb with Some v => and_ (eqv v c) (eqv ub c) | None => true_ end.

  (* magnitude 0: every op of KDRandAugment / the additive noises / the threshold is the identity *)
  Definition MagnitudeSampler_weakest_ (s : MagnitudeSampler_st) : T :=
    and_ (eqv (MagnitudeSampler_magnitude s) 0)
   (and_ (eqv (MagnitudeSampler_magnitude_std s) 0)
   (and_ (eqv (MagnitudeSampler_magnitude_min s) 0)
         (eqv (MagnitudeSampler_magnitude_max s) 0))).
  (* brightness / contrast / saturation factor 1 and hue shift 0 are the identity *)
  Definition KDColorJitter_weakest_ (s : KDColorJitter_st) : T :=
    and_ (range_is (KDColorJitter_brightness_lb s) (KDColorJitter_brightness_ub s) 1)
   (and_ (range_is (KDColorJitter_contrast_lb s) (KDColorJitter_contrast_ub s) 1)
   (and_ (range_is (KDColorJitter_saturation_lb s) (KDColorJitter_saturation_ub s) 1)
         (range_is (KDColorJitter_hue_lb s) (KDColorJitter_hue_ub s) 0))).
  (* blur has no identity: the weakest is the constant sigma = sigma_lb *)
  Definition KDGaussianBlurPIL_weakest_ (s : KDGaussianBlurPIL_st) : T :=
    eqv (KDGaussianBlurPIL_sigma_ub s) (KDGaussianBlurPIL_sigma_lb s).
  Definition KDGaussianBlurTV_weakest_ (s : KDGaussianBlurTV_st) : T :=
    eqv (KDGaussianBlurTV_sigma_ub s) (KDGaussianBlurTV_sigma_lb s).
  (* never applied *)
  Definition KDRandomGrayscale_weakest_ (s : KDRandomGrayscale_st) : T := eqv (KDRandomGrayscale_p s) 0.
  (* rotation by 0 degrees *)
  Definition KDRandomRotation_weakest_ (s : KDRandomRotation_st) : T :=
    and_ (eqv (KDRandomRotation_degree_lb s) 0) (eqv (KDRandomRotation_degree_ub s) 0).
  (* PIL / uint8: threshold 256 inverts nothing; float tensors: threshold 1 *)
  Definition KDSolarize_weakest_ (s : KDSolarize_st) : T :=
    match KDSolarize_og_threshold s, KDSolarize_threshold s with
    | NI _, NI t => eqz t 256%Z
    | NF _, NF t => eqv t 1
    | _, _ => false_
    end.

  Definition leaf_weakest_ (l : leaf) : T :=
    match l with
    | L_KDAdditiveGaussianNoise s => MagnitudeSampler_weakest_ (KDAdditiveGaussianNoise_magnitude_sampler s)
    | L_KDAdditiveUniformNoise s => MagnitudeSampler_weakest_ (KDAdditiveUniformNoise_magnitude_sampler s)
    | L_KDColorJitter s => KDColorJitter_weakest_ s
    | L_KDGaussianBlurPIL s => KDGaussianBlurPIL_weakest_ s
    | L_KDGaussianBlurTV s => KDGaussianBlurTV_weakest_ s
    | L_KDRandAugment s => MagnitudeSampler_weakest_ (KDRandAugment_magnitude_sampler s)
    | L_KDRandomAdditiveGaussianNoise s =>
        MagnitudeSampler_weakest_ (KDAdditiveGaussianNoise_magnitude_sampler (KDRandomAdditiveGaussianNoise_noise s))
    | L_KDRandomColorJitter s => KDColorJitter_weakest_ (KDRandomColorJitter_color_jitter s)
    | L_KDRandomGaussianBlurPIL s => KDGaussianBlurPIL_weakest_ (KDRandomGaussianBlurPIL_gaussian_blur s)
    | L_KDRandomGaussianBlurTV s => KDGaussianBlurTV_weakest_ (KDRandomGaussianBlurTV_gaussian_blur s)
    | L_KDRandomGrayscale s => KDRandomGrayscale_weakest_ s
    | L_KDRandomRotation s => KDRandomRotation_weakest_ s
    | L_KDSolarize s => KDSolarize_weakest_ s
    | L_KDRandomSolarize s => KDSolarize_weakest_ (KDRandomSolarize_solarize s)
    | L_KDThreshold s => MagnitudeSampler_weakest_ (KDThreshold_magnitude_sampler s)
    | L_KDRandomThreshold s => MagnitudeSampler_weakest_ (KDThreshold_magnitude_sampler (KDRandomThreshold_threshold s))
    end.
End Weakest.

Definition leaf_weakest : leaf -> Prop := leaf_weakest_ Prop Qeq (@eq Z) and True False.
Definition leaf_weakestb : leaf -> bool := leaf_weakest_ bool approxQ Z.eqb andb true false.
Definition tree_weakest := tree_all leaf_weakest.
Definition tree_weakestb := tree_allb leaf_weakestb.

(* every scaled parameter of t at factor f lies between its value at factor 0 and its value at factor g *)
Definition bounds_between (z x y : tree) : Prop := all3 between (tree_bounds z) (tree_bounds x) (tree_bounds y).
Definition bounds_betweenb (z x y : tree) : bool := all3b betweenb (tree_bounds z) (tree_bounds x) (tree_bounds y).

(* ---- round-robin assignment of full batches ---- *)
Open Scope Z_scope.
Definition rr_batch (B n : Z) : Z := n / B.                       (* global batch of global sample n *)
Definition rr_owner (W B n : Z) : Z := (n / B) mod W.             (* worker that loads that batch *)
Definition rr_local (W B n : Z) : Z := (n / B / W) * B + n mod B. (* how many samples that worker saw before *)
(* the global sample that is the s-th sample of worker r *)
Definition rr_global (W B r s : Z) : Z := ((s / B) * W + r) * B + s mod B.
