(* C03 — executable model of the index selection of every dataset-manipulation
   wrapper (kappadata/wrappers/dataset_wrappers/*.py, utils/class_counts.py),
   constructor by constructor, for the repaired code (fixes C03_zero_end_bound,
   C03_oversampling_exact_absent_class, C03_oversampling_multiply_float32,
   C03_oversampling_exact_unlabeled, C03_sort_by_class_unlabeled,
   C03_intra_class_shuffle_unlabeled, C03_intra_class_shuffle_global_rng).  A label -1 marks an
   unlabeled sample (utils/class_counts.py); it belongs to no class.  Input: the class label of every sample
   (position = sample id), the number of classes C = dataset.getdim_class(), the
   constructor arguments and the recorded generator outputs.  Output: the list of
   selected sample ids in order, None = the constructor raised.  No proofs here. *)
From Coq Require Import ZArith List Bool.
From Coq Require String.
Import ListNotations.
Open Scope Z_scope.

Definition zlen {A} (l : list A) : Z := Z.of_nat (length l).

(* np.arange(a, b) *)
Definition zrange (a b : Z) : list Z := map (fun k => a + Z.of_nat k) (seq 0 (Z.to_nat (b - a))).

(* positions (counted from i) of the samples whose label satisfies f, in order:
   all_indices[mask] / (classes == c).nonzero() *)
Fixpoint sel_from (i : Z) (f : Z -> bool) (classes : list Z) : list Z :=
  match classes with
  | [] => []
  | x :: r => if f x then i :: sel_from (i + 1) f r else sel_from (i + 1) f r
  end.

Definition positions (c : Z) (classes : list Z) : list Z := sel_from 0 (Z.eqb c) classes.

Definition count_of (c : Z) (classes : list Z) : Z := zlen (filter (Z.eqb c) classes).

(* ---------------- utils/class_counts.py: get_class_counts ---------------- *)
Definition n_classes_eff (C : Z) : Z := if C =? 1 then 2 else C.

(* None = the assertion 0 <= classes < n_classes (after dropping -1) fails *)
Definition class_counts (classes : list Z) (C : Z) : option (list Z) :=
  let C' := n_classes_eff C in
  if forallb (fun c => (c =? -1) || ((0 <=? c) && (c <? C'))) classes
  then Some (map (fun i => count_of i classes) (zrange 0 C'))
  else None.

Definition zmax (l : list Z) : Z := fold_right Z.max 0 l.

Definition odflt {A} (o : option A) (d : A) : A := match o with Some x => x | None => d end.
Definition is_some {A} (o : option A) : bool := match o with Some _ => true | None => false end.

(* ---------------- ClassFilterWrapper ---------------- *)
(* valid = true: valid_classes given, else invalid_classes *)
Definition class_filter (valid : bool) (cls : list Z) (classes : list Z) : list Z :=
  sel_from 0 (fun c => Bool.eqb (existsb (Z.eqb c) cls) valid) classes.

(* ---------------- ClassFilterWrapper by name ---------------- *)
(* valid_class_names / invalid_class_names are mapped to class numbers first:
     np.squeeze(np.argwhere(np.isin(np.array(dataset.class_names), names)), axis=1).tolist()
   = the numbers of ALL classes whose name is one of the requested names, ascending (a name may be carried by
   several classes; a requested name no class carries contributes nothing; names are compared exactly) *)
Fixpoint name_positions (i : Z) (names class_names : list String.string) : list Z :=
  match class_names with
  | [] => []
  | nm :: r => if existsb (String.eqb nm) names then i :: name_positions (i + 1) names r
               else name_positions (i + 1) names r
  end.

Definition names_to_classes (class_names names : list String.string) : list Z := name_positions 0 names class_names.

Definition class_filter_by_name (valid : bool) (class_names names : list String.string) (classes : list Z) : list Z :=
  class_filter valid (names_to_classes class_names names) classes.

(* ---------------- PercentFilterWrapper ---------------- *)
(* The percent wrappers are written over an abstract percent type with its operations
   (0., 1., the assertion 0. <= p <= 1., <=, and the percent -> index map
   `p_cut ceil p n` = int(p * n) or np.ceil(p * n)), so that the theorems can state what they
   need of them; the executable instances float_ops (binary64) and float32_ops (binary32, used by
   ClasswiseSubsetWrapper) are in ModelFloat.v (kept apart so that the theorems' module closure
   contains no primitive floats). *)
Record pct_ops (P : Type) : Type := {
  p_zero : P; p_one : P; p_ok : P -> bool; p_leb : P -> P -> bool; p_cut : bool -> P -> Z -> Z }.
Arguments p_zero {P}. Arguments p_one {P}. Arguments p_ok {P}. Arguments p_leb {P}. Arguments p_cut {P}.

Definition percent_filter_g {P} (O : pct_ops P) (n : Z) (from to : option P) (cf ct : bool) : option (list Z) :=
  let fp := odflt from (p_zero O) in       (* from_percent or 0. *)
  let tp := odflt to (p_one O) in          (* 1. if to_percent is None else to_percent *)
  if p_ok O fp && p_ok O tp
  then Some (zrange (p_cut O cf fp n) (p_cut O ct tp n))
  else None.

(* ---------------- SubsetWrapper ---------------- *)
Definition subset_indices (n : Z) (idxs : list Z) : option (list Z) :=
  if forallb (fun i => (- n <=? i) && (i <? n)) idxs
  then Some (map (fun i => if i <? 0 then n + i else i) idxs)    (* as addressed samples *)
  else None.

Definition subset_range (n : Z) (s e : option Z) : option (list Z) :=
  if negb (is_some s || is_some e) then None else
  let e' := Z.min (odflt e n) n in
  let s' := odflt s 0 in
  if s' <=? e' then Some (zrange s' e') else None.

Definition subset_percent_g {P} (O : pct_ops P) (n : Z) (s e : option P) : option (list Z) :=
  if negb (is_some s || is_some e) then None else
  if negb (p_ok O (odflt s (p_zero O)) && p_ok O (odflt e (p_one O))) then None else
  let sp := odflt s (p_zero O) in
  let ep := odflt e (p_one O) in
  if p_leb O sp ep then Some (zrange (p_cut O false sp n) (p_cut O false ep n)) else None.

(* ---------------- ShuffleWrapper: rng.shuffle(arange(n)) ---------------- *)
Definition shuffle (n : Z) (draw : list Z) : list Z := draw.

(* ---------------- RepeatWrapper ---------------- *)
Definition repeat_wrapper (n : Z) (reps min_size : option Z) : option (list Z) :=
  if Bool.eqb (is_some reps) (is_some min_size) then None else
  if n <=? 0 then None else
  match min_size with
  | Some m => if m <=? 0 then None
              else Some (concat (repeat (zrange 0 n) (Z.to_nat ((m + n - 1) / n))))   (* ceil(m / n) *)
  | None => let r := odflt reps 0 in
            if r <=? 0 then None else Some (concat (repeat (zrange 0 n) (Z.to_nat r)))
  end.

(* ---------------- OversamplingWrapper ---------------- *)
Definition multiply_block (classes : list Z) (mx : Z) (i cnt : Z) : list Z :=
  if cnt =? 0 then []
  else let factor := mx / cnt - 1 in          (* max_class_count // class_counts[i].item() - 1 (integer division) *)
       if 0 <? factor then concat (repeat (positions i classes) (Z.to_nat factor)) else [].

(* the while-loop of mode="exact"; None = out of fuel (the loop did not finish) *)
Fixpoint exact_loop (fuel : nat) (idxs : list Z) (remaining : Z) : option (list Z) :=
  match fuel with
  | O => None
  | S f =>
      if remaining <=? 0 then Some []
      else let taken := firstn (Z.to_nat remaining) idxs in
           match exact_loop f idxs (remaining - zlen taken) with
           | Some r => Some (taken ++ r)
           | None => None
           end
  end.

Fixpoint concat_opt {A} (l : list (option (list A))) : option (list A) :=
  match l with
  | [] => Some []
  | Some x :: r => match concat_opt r with Some y => Some (x ++ y) | None => None end
  | None :: _ => None
  end.

Definition exact_block (classes : list Z) (mx : Z) (i cnt : Z) : option (list Z) :=
  if cnt =? 0 then Some []                                  (* the fix: absent classes are skipped *)
  else exact_loop (S (Z.to_nat mx)) (positions i classes) mx.

Definition oversample (exact : bool) (classes : list Z) (C : Z) : option (list Z) :=
  let n := zlen classes in
  match class_counts classes C with
  | None => None
  | Some counts =>
      let mx := zmax counts in
      let ids := zrange 0 (zlen counts) in
      if exact then
        match concat_opt (map (fun '(i, cnt) => exact_block classes mx i cnt) (combine ids counts)) with
        | Some blocks => Some (blocks ++ positions (-1) classes)   (* the fix: unlabeled samples are kept once *)
        | None => None
        end
      else
        Some (zrange 0 n ++ concat (map (fun '(i, cnt) => multiply_block classes mx i cnt) (combine ids counts)))
  end.

(* ---------------- SortByClassWrapper ---------------- *)
(* for i in range(-1, num_classes): the unlabeled samples first (the fix), then class 0, 1, ... *)
Definition sort_by_class (classes : list Z) (C : Z) : list Z :=
  concat (map (fun c => positions c classes) (zrange (-1) C)).

(* ---------------- IntraClassShuffleWrapper ---------------- *)
(* draws: one permuted copy of positions(c) per class c = 0 .. C-1, then one of the unlabeled
   samples (the fix).  cls_to_perm is a dict with the keys 0 .. C-1 and -1, held here as the list of
   its values in insertion order; `slot` is the key -> position map, -1 = KeyError *)
Definition slot (C c : Z) : Z :=
  if c =? -1 then Z.max 0 C else if (0 <=? c) && (c <? C) then c else -1.

Fixpoint set_nth {A} (k : nat) (x : A) (l : list A) : list A :=
  match l, k with
  | [], _ => []
  | _ :: r, O => x :: r
  | y :: r, S k' => y :: set_nth k' x r
  end.

Fixpoint intra_go (classes : list Z) (perms : list (list Z)) : option (list Z) :=
  match classes with
  | [] => Some []
  | c :: r =>
      if c <? 0 then None else
      match nth_error perms (Z.to_nat c) with
      | Some (x :: rest) =>
          match intra_go r (set_nth (Z.to_nat c) rest perms) with
          | Some out => Some (x :: out)
          | None => None
          end
      | _ => None
      end
  end.

Definition intra_class_shuffle (classes : list Z) (C : Z) (draws : list (list Z)) : option (list Z) :=
  if negb (Nat.eqb (length draws) (S (Z.to_nat C))) then None else intra_go (map (slot C) classes) draws.

(* ---------------- FewshotWrapper ---------------- *)
(* draws: rng.permutation(len(cur_indices)) per class 0 .. max(classes) *)
Definition fewshot (classes : list Z) (shots : Z) (draws : list (list Z)) : option (list Z) :=
  match classes with
  | [] => None                                               (* np.max of an empty array raises *)
  | _ =>
      let nc := zmax (map (fun c => c + 1) classes) in       (* max(classes) + 1 (labels >= -1) *)
      if negb (Nat.eqb (length draws) (Z.to_nat nc)) then None else
      Some (concat (map (fun '(i, perm) =>
                          let cur := positions i classes in
                          map (fun j => nth (Z.to_nat j) cur 0) (firstn (Z.to_nat shots) perm))
                        (combine (zrange 0 nc) draws)))
  end.

(* ---------------- ClasswiseSubsetWrapper ---------------- *)
Definition slice {A} (l : list A) (s e : Z) : list A := firstn (Z.to_nat (e - s)) (skipn (Z.to_nat s) l).

Fixpoint all_some {A} (l : list (option A)) : option (list A) :=
  match l with
  | [] => Some []
  | Some x :: r => match all_some r with Some y => Some (x :: y) | None => None end
  | None :: _ => None
  end.

Definition classwise_range (classes : list Z) (C : Z) (s e : option Z) (check : bool) : option (list Z) :=
  let n := zlen classes in
  match class_counts classes C with
  | None => None
  | Some _ =>
      if negb (is_some s || is_some e) then None else
      let e' := Z.min (odflt e n) n in
      let s' := odflt s 0 in
      if negb (s' <=? e') then None else
      match all_some (map (fun i =>
                  let cnt := count_of i classes in
                  if check && (cnt <? e') then None
                  else if cnt <=? s' then Some []
                  else Some (slice (positions i classes) s' (Z.min e' cnt)))
                (zrange 0 C)) with
      | Some blocks => Some (concat blocks)
      | None => None
      end
  end.

Definition classwise_percent_g {P} (O : pct_ops P) (classes : list Z) (C : Z) (s e : option P) : option (list Z) :=
  match class_counts classes C with
  | None => None
  | Some _ =>
      if negb (is_some s || is_some e) then None else
      if negb (p_ok O (odflt s (p_zero O)) && p_ok O (odflt e (p_one O))) then None else
      let sp := odflt s (p_zero O) in
      let ep := odflt e (p_one O) in
      if negb (p_leb O sp ep) then None else
      Some (concat (map (fun i =>
                  let cnt := count_of i classes in
                  slice (positions i classes) (p_cut O false sp cnt) (p_cut O false ep cnt))
                (zrange 0 C)))
  end.

(* ---------------- one constructor call ---------------- *)
Inductive wcase_g (P : Type) :=
| WClassFilter (valid : bool) (cls : list Z)
| WClassFilterNames (valid : bool) (class_names names : list String.string)
| WPercent (from to : option P) (cf ct : bool)
| WSubsetIdx (idxs : list Z)
| WSubsetRange (s e : option Z)
| WSubsetPercent (s e : option P)
| WShuffle (draw : list Z)
| WRepeat (reps min_size : option Z)
| WOversample (exact : bool)
| WSortByClass
| WIntraClass (draws : list (list Z))
| WFewshot (shots : Z) (draws : list (list Z))
| WClasswiseRange (s e : option Z) (check : bool)
| WClasswisePercent (s e : option P).
Arguments WClassFilter {P}. Arguments WClassFilterNames {P}. Arguments WPercent {P}. Arguments WSubsetIdx {P}. Arguments WSubsetRange {P}.
Arguments WSubsetPercent {P}. Arguments WShuffle {P}. Arguments WRepeat {P}. Arguments WOversample {P}.
Arguments WSortByClass {P}. Arguments WIntraClass {P}. Arguments WFewshot {P}. Arguments WClasswiseRange {P}.
Arguments WClasswisePercent {P}.

Definition run_g {P} (O : pct_ops P) (classes : list Z) (C : Z) (w : wcase_g P) : option (list Z) :=
  let n := zlen classes in
  match w with
  | WClassFilter v cls => Some (class_filter v cls classes)
  | WClassFilterNames v cn names => Some (class_filter_by_name v cn names classes)
  | WPercent f t cf ct => percent_filter_g O n f t cf ct
  | WSubsetIdx idxs => subset_indices n idxs
  | WSubsetRange s e => subset_range n s e
  | WSubsetPercent s e => subset_percent_g O n s e
  | WShuffle d => Some (shuffle n d)
  | WRepeat r m => repeat_wrapper n r m
  | WOversample ex => oversample ex classes C
  | WSortByClass => Some (sort_by_class classes C)
  | WIntraClass d => intra_class_shuffle classes C d
  | WFewshot k d => fewshot classes k d
  | WClasswiseRange s e chk => classwise_range classes C s e chk
  | WClasswisePercent s e => classwise_percent_g O classes C s e
  end.

(* ---------------- KDSubset: what a wrapper exposes, wrappers on top of wrappers ---------------- *)
(* KDSubset._call_getitem / _call_getall / get_sampler_weights: position j of a wrapper with the selection `out`
   shows item out[j] of what it wraps: values[out[j]] *)
Definition through (values : list Z) (out : list Z) : list Z := map (fun i => nth (Z.to_nat i) values (-1)) out.

(* several constructor calls on one dataset: the labels are handed to every constructor BY VALUE - no call can change
   what a later call sees (for the real constructors: harness clause construction_leaves_labels_unchanged) *)
Definition run_session_g {P} (O : pct_ops P) (classes : list Z) (C : Z) (ws : list (wcase_g P)) : list (option (list Z)) :=
  map (run_g O classes C) ws.

(* wrapper B constructed on top of wrapper A: B's constructor sees the labels A exposes, and B's selection addresses
   positions of A *)
Definition stacked_with {P} (runf : list Z -> Z -> wcase_g P -> option (list Z)) (classes : list Z) (C : Z)
           (wA wB : wcase_g P) : option (list Z) :=
  match runf classes C wA with
  | Some a => match runf (through classes a) C wB with
              | Some b => Some (through a b)
              | None => None
              end
  | None => None
  end.

Definition stacked_g {P} (O : pct_ops P) := stacked_with (run_g O).
