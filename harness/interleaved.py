"""Shared machinery for C04/C05/C06: case generation, running the real
InterleavedSampler with recording samplers, the closed-form Python spec
(independent of the Coq model) and the rendering of cases into Coq."""
import random

from .common import C, Nat, Opt, Raw, Rec, coq

MAX_EVENTS = 6000

COQ_FILES = ["C04/Model.v", "C04/Spec.v", "C04/Check.v", "C04/Lists.v", "C04/Arith.v", "C04/Sides.v", "C04/Proofs.v",
             "C04/Corollaries.v", "C04/Batches.v", "C04/Example.v"]

TRUSTED = [
    "hand-written model coq/C04/Model.v of InterleavedSampler (ctor checkpoint derivation, __iter__, _eval_loop, "
    "_training_loop, batch sampler, concat lookup); tied to /repo by this run's correspondence evaluation",
    "harness/interleaved.py: recording samplers, event log, case rendering",
    "side samplers yield the same list on every pass and len(sampler) indices; main sampler yields len(sampler) "
    "indices per epoch (the property's domain)",
]


# ---------------------------------------------------------------------------
# case generation
# ---------------------------------------------------------------------------
def main_iter(case, e):
    n, ds = case["N"], case["dsN"]
    if case["perm_seed"] is None:
        return list(range(n))
    r = random.Random(case["perm_seed"] * 7919 + e)
    return r.sample(range(ds), n)


def geometry(case):
    n, b = case["N"], case["B"]
    if case["drop_last"]:
        d = case["D"] or b
        spe = n // d * d
        upe = spe // b
    else:
        spe = n
        upe = -(-n // b)
    return spe, upe


def gen_case(rng, big=False):
    n = rng.choice([1, 2, 3, 4, 5, 6, 7, 8, 9, 10, 12, 13, 16, 17, 20, 24, 31, 40] if not big else list(range(1, 80)))
    b = rng.choice([1, n, max(1, n // 2), rng.randint(1, n), rng.randint(1, n)])
    drop_last = rng.random() < 0.6
    d = None
    if drop_last and rng.random() < 0.3:
        mult = [m for m in (1, 2, 3, 4) if b * m <= n]
        d = b * rng.choice(mult)
    case = {"N": n, "dsN": n + rng.choice([0, 0, 0, 1, 3]), "B": b, "drop_last": drop_last, "D": d}
    case["perm_seed"] = rng.choice([None, rng.randint(0, 999)])
    spe, upe = geometry(case)
    kind = rng.choice(["epochs", "updates", "samples"])
    total_epochs = rng.choice([1, 1, 2, 2, 3, 4])
    if rng.random() < 0.07:
        val = 0
    elif kind == "epochs":
        val = total_epochs
    elif kind == "updates":
        val = max(1, upe * total_epochs + rng.choice([0, 0, -1, 1, rng.randint(-upe, upe)]))
    else:
        val = max(1, spe * total_epochs + rng.choice([0, 0, -1, 1, b, -b, rng.randint(-spe, spe)]))
    case["budget"] = [kind, val]
    sides = []
    for _ in range(rng.choice([0, 1, 1, 2, 2, 3, 4])):
        ln = rng.choice([0, 1, 2, 3, 5, 7])
        dsl = ln + rng.choice([0, 0, 2])
        sc = {"ene": None, "enu": None, "ens": None, "bs": rng.choice([None, None, 1, 2, 3, 4]),
              "dslen": dsl}
        kinds = rng.sample(["ene", "enu", "ens"], rng.choice([1, 1, 1, 2, 2, 3]))
        for k in kinds:
            if k == "ene":
                sc[k] = rng.choice([1, 1, 2, 3])
            elif k == "enu":
                sc[k] = rng.choice([1, 2, 3, upe, upe + 1, 5, 7])
                sc[k] = max(1, sc[k])
            else:
                sc[k] = max(1, rng.choice([1, b, 2 * b, b + 1, spe, spe - 1, spe + 1, 3, 12, rng.randint(1, 2 * spe + 1)]))
        sc["idx"] = list(range(ln)) if rng.random() < 0.7 else [rng.randrange(max(dsl, 1)) for _ in range(ln)] if dsl else []
        sides.append(sc)
    case["sides"] = sides
    # start checkpoint
    case["start"] = None
    if val > 0 and rng.random() < 0.45:
        skind = rng.choice(["epoch", "epoch", "update", "sample"])
        # epochs strictly before the budget
        if kind == "epochs":
            max_e = val - 1
        elif kind == "updates":
            max_e = (val - 1) // upe
        else:
            max_e = (val - 1) // spe
        if max_e >= 1:
            k = rng.randint(1, max_e)
            extra = 0 if rng.random() < 0.8 else rng.randint(1, max(1, upe))
            # off-boundary checkpoints (NotImplementedError expected) must still lie before the budget
            before = {"epochs": upe * val, "updates": val, "samples": -(-val // b)}[kind]
            if k * upe + extra >= before:
                extra = 0
            if skind == "epoch":
                case["start"] = ["epoch", k]
            elif skind == "update":
                case["start"] = ["update", k * upe + extra]
            else:
                case["start"] = ["sample", (k * upe + extra) * b]
    return case


def gen_cases(rng, tier):
    n = 700 if tier == "quick" else 6000
    out = [gen_case(rng, big=False) for _ in range(n)]
    if tier == "thorough":
        out += [gen_case(rng, big=True) for _ in range(2000)]
    return out


def search_cases(rng, tier):
    for _ in range(20000):
        yield gen_case(rng, big=rng.random() < 0.3)


def shrink(case):
    """candidate smaller cases"""
    c = case
    for i in range(len(c["sides"])):
        yield {**c, "sides": c["sides"][:i] + c["sides"][i + 1:]}
    for i, sc in enumerate(c["sides"]):
        for k in ("ene", "enu", "ens", "bs"):
            if sc[k] is not None and sum(sc[x] is not None for x in ("ene", "enu", "ens")) > (1 if k != "bs" else 0):
                yield {**c, "sides": c["sides"][:i] + [{**sc, k: None}] + c["sides"][i + 1:]}
        if len(sc["idx"]) > 1:
            m = len(sc["idx"]) - 1
            yield {**c, "sides": c["sides"][:i] + [{**sc, "idx": list(range(m)), "dslen": m}] + c["sides"][i + 1:]}
    if c["perm_seed"] is not None:
        yield {**c, "perm_seed": None}
    if c["dsN"] != c["N"]:
        yield {**c, "dsN": c["N"]}
    if c["D"] is not None:
        yield {**c, "D": None}
    if c["start"] is None and c["N"] > c["B"] and c["N"] > 1:
        yield {**c, "N": c["N"] - 1, "dsN": c["N"] - 1}
    if c["budget"][1] > 1 and c["start"] is None:
        yield {**c, "budget": [c["budget"][0], c["budget"][1] - 1]}


# ---------------------------------------------------------------------------
# running the implementation
# ---------------------------------------------------------------------------
class _DS:
    """data source whose items identify themselves"""

    def __init__(self, tag, n):
        self.tag, self.n = tag, n

    def __len__(self):
        return self.n

    def __getitem__(self, i):
        assert 0 <= i < self.n, (self.tag, i, self.n)
        return (self.tag, i)

    def worker_init_fn(self, rank, **kwargs):
        pass


class _TagCollator:
    """collator of dataset `tag`: returns its own tag and the samples it was given"""

    def __init__(self, tag):
        self.tag = tag

    def __call__(self, data):
        return [self.tag, [list(x) for x in data]]


class _RecMain:
    def __init__(self, case, log):
        self.case, self.log = case, log
        self.data_source = _DS(0, case["dsN"])
        self.epoch = None

    def __len__(self):
        return self.case["N"]

    def set_epoch(self, e):
        self.log.append(["E", e])
        self.epoch = e

    def __iter__(self):
        yield from main_iter(self.case, self.epoch)


class _Side:
    def __init__(self, tag, sc):
        self.data_source = _DS(tag, sc["dslen"])
        self.idx = sc["idx"]

    def __len__(self):
        return len(self.idx)

    def __iter__(self):
        yield from self.idx


def build(case, log, start="case"):
    from kappadata.samplers.interleaved_sampler import InterleavedSampler, InterleavedSamplerConfig
    main = _RecMain(case, log)
    cfgs = [InterleavedSamplerConfig(sampler=_Side(i + 1, sc), every_n_epochs=sc["ene"], every_n_updates=sc["enu"],
                                     every_n_samples=sc["ens"], batch_size=sc["bs"])
            for i, sc in enumerate(case["sides"])]
    if case.get("loader") is not None:
        for i, cf in enumerate(cfgs):
            cf.collator = _TagCollator(i + 1)
    kw = {case["budget"][0]: case["budget"][1]}
    if case.get("loader") is not None:
        kw["main_collator"] = _TagCollator(0)
    st = case["start"] if start == "case" else start
    if st is not None:
        kw["start_" + st[0]] = st[1]
    return InterleavedSampler(main_sampler=main, batch_size=case["B"], configs=cfgs, drop_last=case["drop_last"],
                              drop_last_batch_size=case["D"], **kw)


def run_stream(case, start="case"):
    """-> dict(result=ok|NotImplementedError|AssertionError|RUNAWAY, log=[...], resolve=[...])"""
    log = []
    try:
        s = build(case, log, start)
    except NotImplementedError:
        return {"result": "NotImplementedError", "log": []}
    except AssertionError:
        return {"result": "AssertionError", "log": []}
    res = "ok"
    resolve_bad = None
    try:
        for full, idx in s:
            log.append(["Y", bool(full), int(idx)])
            if len(log) > MAX_EVENTS:
                res = "RUNAWAY"
                break
    except AssertionError:
        res = "AssertionError"
    out = {"result": res, "log": log}
    if res == "ok":
        # resolution of every distinct yielded index through the real concat dataset
        seen = {}
        for ev in log:
            if ev[0] == "Y" and ev[2] not in seen:
                try:
                    di, item = s.dataset[ev[2]]
                    seen[ev[2]] = [int(di), list(item)]
                except Exception as e:  # noqa
                    seen[ev[2]] = [type(e).__name__]
        out["resolve"] = sorted([k] + v for k, v in seen.items())
        # the batch sampler on a second, independent iteration
        log2 = []
        s2 = build(case, log2, start)
        try:
            bs = []
            for b in s2.batch_sampler:
                bs.append([int(i) for i in b])
                if len(bs) > MAX_EVENTS:
                    break
            out["batches"] = bs
        except AssertionError:
            out["batches"] = "AssertionError"
        if case.get("loader") is not None:
            # the real DataLoader (num_workers = case["loader"]) with one tagging collator per dataset
            s3 = build(case, [], start)
            try:
                lb = []
                for bt in s3.get_data_loader(num_workers=case["loader"]):
                    lb.append([int(bt[0]), [[int(a), int(b)] for a, b in bt[1]]])
                    if len(lb) > MAX_EVENTS:
                        break
                out["loader_batches"] = lb
            except Exception as e:  # noqa
                out["loader_batches"] = type(e).__name__ + ": " + str(e)[:300]
    return out


def run_impl(case):
    obs = run_stream(case)
    if case["start"] is not None and obs["result"] == "ok":
        obs["fresh"] = run_stream(case, start=None)["log"]
    return obs


# ---------------------------------------------------------------------------
# closed-form Python spec (independent of the Coq model)
# ---------------------------------------------------------------------------
def chunks(l, b):
    return [l[i:i + b] for i in range(0, len(l), b)]


def offsets(case):
    offs, acc = [], case["dsN"]
    for sc in case["sides"]:
        offs.append(acc)
        acc += sc["dslen"]
    return offs


def side_pass(case, ci):
    sc = case["sides"][ci]
    off = offsets(case)[ci]
    bs = sc["bs"] or case["B"]
    out = []
    for b in chunks(sc["idx"], bs):
        out += [["Y", False, off + i] for i in b[:-1]] + [["Y", True, off + b[-1]]]
    return out


def crossed(n, a, b):
    """some multiple of n lies in (a, b]"""
    return any(m % n == 0 for m in range(a + 1, b + 1))


def start_epoch_of(case):
    """-> (e0 | 'NotImplementedError' | 'AssertionError')"""
    spe, upe = geometry(case)
    st = case["start"]
    if st is None:
        return 0
    if st[0] == "epoch":
        return st[1]
    if st[0] == "sample":
        if st[1] % case["B"] != 0:
            return "AssertionError"
        u = st[1] // case["B"]
    else:
        u = st[1]
    if u % upe != 0 or not case["drop_last"]:
        return "NotImplementedError"
    return u // upe


def spec_stream(case, e0, tag=False):
    """the stream an uninterrupted run shows from the beginning of epoch e0 on;
    with tag=True every event carries 'M' (main) / config index"""
    kind, val = case["budget"]
    if val == 0:
        out = []
        for ci in range(len(case["sides"])):
            out += [ev + [ci] if tag else ev for ev in side_pass(case, ci)]
        return out
    spe, upe = geometry(case)
    out = []
    e = e0
    while True:
        out.append(["E", e, "M"] if tag else ["E", e])
        bs = chunks(main_iter(case, e)[:spe], case["B"])
        done = 0
        for j, b in enumerate(bs):
            out += [["Y", False, i] + (["M"] if tag else []) for i in b[:-1]]
            out.append(["Y", True, b[-1]] + (["M"] if tag else []))
            prev = e * spe + done
            done += len(b)
            sample = e * spe + done
            update = e * upe + j + 1
            end = j + 1 == len(bs)
            epoch = e + 1 if end else e
            for ci, sc in enumerate(case["sides"]):
                due = ((sc["ene"] is not None and end and epoch % sc["ene"] == 0)
                       or (sc["enu"] is not None and update % sc["enu"] == 0)
                       or (sc["ens"] is not None and crossed(sc["ens"], prev, sample)))
                if due:
                    out += [ev + [ci] if tag else ev for ev in side_pass(case, ci)]
            if ((kind == "epochs" and epoch == val) or (kind == "updates" and update == val)
                    or (kind == "samples" and sample >= val)):
                return out
            if len(out) > 4 * MAX_EVENTS:
                return out
        e += 1


def in_domain(case):
    """start checkpoint strictly before the budget (else nothing is claimed)"""
    return True


# ---------------------------------------------------------------------------
# rendering to Coq
# ---------------------------------------------------------------------------
COQ_PRELUDE = """From Coq Require Import ZArith List Bool.
Import ListNotations.
From KD Require Import C04.Model C04.Spec C04.Check.
Open Scope Z_scope.
"""


def coq_cfg(case):
    sides = [Rec(ene=Opt(sc["ene"]), enu=Opt(sc["enu"]), ens=Opt(sc["ens"]), sbs=Opt(sc["bs"]),
                 sidx=list(sc["idx"]), slen=len(sc["idx"]), dslen=sc["dslen"]) for sc in case["sides"]]
    kind, val = case["budget"]
    bud = C({"epochs": "Epochs", "updates": "Updates", "samples": "Samples"}[kind], val)
    return Rec(cN=case["N"], dsN=case["dsN"], cB=case["B"], drop_last=case["drop_last"], cD=Opt(case["D"]),
               bud=bud, sides=sides)


def coq_obs(log):
    return [C("OSetEpoch", ev[1]) if ev[0] == "E" else C("OYield", ev[1], ev[2]) for ev in log]


def coq_case_common(case, obs):
    st = case["start"]
    start = C("NoStart") if st is None else C({"epoch": "StartEpoch", "update": "StartUpdate",
                                               "sample": "StartSample"}[st[0]], st[1])
    result = {"ok": 0, "NotImplementedError": 1, "AssertionError": 2, "RUNAWAY": 3}[obs["result"]]
    epochs = [ev[1] for ev in obs["log"] if ev[0] == "E"]
    emin = min(epochs) if epochs else 0
    emax = max(epochs) + 1 if epochs else 0
    iters = [main_iter(case, e) for e in range(emin, emax + 1)]
    batches = obs.get("batches")
    bat = Opt(None if not isinstance(batches, list) else batches)
    resolve = [(r[0], Nat(r[1]), r[2][1]) for r in obs.get("resolve", []) if len(r) == 3]
    return (coq_cfg(case), start, Nat(result), emin, iters, coq_obs(obs["log"]), bat, resolve)
