(* C14 — proofs.  All statements hold for every size and every draw list that
   satisfies the generator contract; arithmetic by lia/nia with div/mod lemmas. *)
From Coq Require Import ZArith List Bool Lia ZifyBool QArith.
Import ListNotations.
From KD Require Import C14.Model C14.Spec.
Open Scope Z_scope.

Ltac zdm := Z.to_euclidean_division_equations.

(* ---------------- draws ---------------- *)
Lemma next_int_ok : forall A lo hi ds (k : Z -> list draw -> res A) a,
  next_int lo hi ds k = Ok a -> draws_ok ds ->
  exists v ds', ds = (lo, hi, v) :: ds' /\ lo <= v < hi /\ draws_ok ds' /\ k v ds' = Ok a.
Proof.
  intros A lo hi ds k a H D. unfold next_int in H.
  destruct (hi <=? lo) eqn:E; [discriminate|].
  destruct ds as [|[[lo' hi'] v] ds']; [discriminate|].
  destruct ((lo =? lo') && (hi =? hi')) eqn:E2; [|discriminate].
  apply andb_true_iff in E2. destruct E2 as [E2 E3].
  apply Z.eqb_eq in E2. apply Z.eqb_eq in E3. subst lo' hi'.
  inversion D; subst. exists v, ds'. repeat split; auto; unfold draw_ok in *; lia.
Qed.

Lemma done_ok : forall A ds (a b : A), done ds a = Ok b -> ds = [] /\ a = b.
Proof. intros A ds a b H. destruct ds; [inversion H; auto|discriminate]. Qed.

Lemma bind_ok : forall A B (r : res A) (f : A -> res B) b,
  bind r f = Ok b -> exists a, r = Ok a /\ f a = Ok b.
Proof. intros A B r f b H. destruct r; try discriminate. exists a. auto. Qed.

(* ---------------- crops ---------------- *)
Lemma get_params_ok : forall th tw h w ds p ds',
  0 <= th -> 0 <= tw -> draws_ok ds ->
  get_params th tw h w ds = Ok (p, ds') ->
  in_bounds h w p /\ has_size th tw p /\ draws_ok ds'.
Proof.
  intros th tw h w ds p ds' Hth Htw D G. unfold get_params in G.
  destruct ((h + 1 <? th) || (w + 1 <? tw)) eqn:E1; [discriminate|].
  destruct ((w =? tw) && (h =? th)) eqn:E2.
  - inversion G; subst. cbn. repeat split; auto; lia.
  - apply next_int_ok in G; auto. destruct G as (i & ds1 & -> & Hi & D1 & G).
    apply next_int_ok in G; auto. destruct G as (j & ds2 & -> & Hj & D2 & G).
    inversion G; subst. cbn. repeat split; auto; lia.
Qed.

Lemma pad_steps_nonneg : forall c H W,
  match c_padding c with Some p => pad_nonneg p | None => True end ->
  Forall pad_nonneg (pad_steps c H W).
Proof.
  intros c H W P. unfold pad_steps.
  repeat apply Forall_app; repeat split.
  - destruct (c_padding c); [constructor; auto|constructor].
  - destruct (c_pin c && _) eqn:E; constructor; [|constructor]. cbn. lia.
  - destruct (c_pin c && _) eqn:E; constructor; [|constructor]. cbn. lia.
Qed.

(* pad_if_needed makes the padded image at least as large as the crop *)
Lemma pad_if_needed_fits : forall c H W,
  c_pin c = true ->
  c_th c <= fst (padded_dims c H W) /\ c_tw c <= snd (padded_dims c H W).
Proof.
  intros c H W P. unfold padded_dims, pad_steps. rewrite P. cbn [andb].
  rewrite !fold_left_app.
  set (hw1 := fold_left pad_dims match c_padding c with Some p => [p] | None => [] end (H, W)).
  destruct hw1 as [H1 W1] eqn:E. cbn [fst snd].
  destruct (W1 <? c_tw c) eqn:E1; destruct (H1 <? c_th c) eqn:E2; cbn; lia.
Qed.

Lemma random_crop_ok : forall c H W ds Hp Wp p,
  0 <= c_th c -> 0 <= c_tw c -> draws_ok ds ->
  random_crop c H W ds = Ok (Hp, Wp, p) ->
  (Hp, Wp) = padded_dims c H W /\ in_bounds Hp Wp p /\ has_size (c_th c) (c_tw c) p.
Proof.
  intros c H W ds Hp Wp p Hth Htw D R. unfold random_crop in R.
  destruct (padded_dims c H W) as [Hp' Wp'].
  apply bind_ok in R. destruct R as ([p' ds'] & G & R).
  apply done_ok in R. destruct R as [-> R]. inversion R; subst.
  apply get_params_ok in G; auto. tauto.
Qed.
