(* Executable comparison of what the real seeded wrappers did with the generated tables (correspondence run of C08). *)
From Coq Require Import ZArith List Bool String.
Import ListNotations.
From KD Require Import C07.RngGraph C07.gen.RngTable C07.Check C07.ModelC08.
Open Scope Z_scope.

(* one seeded layer of the live stack: the wrapper object with the slots as they were before the first request
   (Ctor k = the k-th generator found in the live objects), its base seed, the requests its per-item code served in
   order - each with the provenances of all generators that produced at least one draw while it ran (process-global
   sources seen by the tripwire included) - and the slots observed after the last request (preorder) *)
Definition lcase : Type := (wobj * Z * list (Z * list prov) * list (option prov))%type.
Definition case_t : Type := list lcase.

Fixpoint run_accesses (tbl : table) (wt : wtable) (seed : Z) (acc : list (Z * list prov)) (w : wobj) : nat * wobj :=
  match acc with
  | [] => (0%nat, w)
  | (i, obs) :: rest =>
      let code :=
        if existsb (fun p => negb (prov_eqb p (Inj (seed + i)))) obs then 2%nat
        else if negb (forallb (fun p => existsb (prov_eqb p) (getitem_draws tbl wt seed i w)) obs) then 1%nat
        else 0%nat in
      let '(c', w') := run_accesses tbl wt seed rest (getitem_state tbl wt seed i w) in
      (Nat.max code c', w')
  end.

(* 0 = real objects, tables and spec agree; 1 = the tables do not describe the real objects;
   2 = a request drew from something else than the generator seeded with seed + index *)
Definition check_layer (tbl : table) (wt : wtable) (c : lcase) : nat :=
  let '(w0, seed, acc, after) := c in
  let '(code, w1) := run_accesses tbl wt seed acc w0 in
  if Nat.leb 2 code then 2%nat
  else if negb (wwf tbl wt w0) then 1%nat
  else if negb (list_eqb oprov_eqb (wslots w1) after) then 1%nat
  else code.

Definition check_with (tbl : table) (wt : wtable) (c : case_t) : nat :=
  fold_left Nat.max (map (check_layer tbl wt) c) 0%nat.

Definition check := check_with rng_table wrp_table.
