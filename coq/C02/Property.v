(* C02 — property theorems (statements only; proofs in Proofs.v).
   stack = any nesting of KDSubset (Sub), KDConcatDataset (Cat, balanced or not) and
   KDWrapper (Wrap) layers over root datasets; resolve/slen/getall/util_getall/root/
   wrappers/dispose = the model of the code (Model.v); map_of/den_of = the
   compositional index map (Spec.v). *)
From Coq Require Import ZArith List Bool String.
Import ListNotations.
From KD Require Import C02.Model C02.Spec C02.Proofs C02.AttrModel C02.AttrSpec C02.AttrProofs C02.Hist C02.Heap.
Local Notation length := List.length.
Open Scope Z_scope.

(* item k of the composed dataset is item map(k) of the underlying datasets; negative k
   counts from the end; for every nesting *)
Theorem resolve_is_nth_map : forall s k,
  valid s = true -> is_fin (den_of s) = true ->
  - zlen (map_of s) <= k < zlen (map_of s) ->
  resolve s k = nth_error (map_of s) (Z.to_nat (if k <? 0 then zlen (map_of s) + k else k)).
Proof. exact Proofs.resolve_is_nth_map. Qed.
Print Assumptions resolve_is_nth_map.

(* the same for stacks whose top is a balanced concat (endless round-robin denotation) *)
Theorem resolve_is_at : forall s k,
  valid s = true -> in_dom (den_of s) k = true -> resolve s k = at_ (den_of s) k.
Proof. exact Proofs.resolve_is_at. Qed.
Print Assumptions resolve_is_at.

(* every valid index resolves (no exception) *)
Theorem resolve_defined : forall s k,
  valid s = true -> in_dom (den_of s) k = true -> resolve s k <> None.
Proof. exact Proofs.resolve_defined. Qed.
Print Assumptions resolve_defined.

Theorem len_is_length_map : forall s,
  valid s = true -> is_fin (den_of s) = true -> slen s = Some (zlen (map_of s)).
Proof. exact Proofs.len_is_length_map. Qed.
Print Assumptions len_is_length_map.

(* balanced sampling: index j*P + d is sample (j mod len_d) of part d *)
Theorem balanced_round_robin : forall parts j d,
  valid (Cat true parts) = true ->
  0 <= j -> (d < length parts)%nat ->
  let part := map_of (nth d parts stack_dflt) in
  resolve (Cat true parts) (j * zlen parts + Z.of_nat d) =
  nth_error part (Z.to_nat (j mod zlen part)).
Proof. exact Proofs.balanced_round_robin. Qed.
Print Assumptions balanced_round_robin.

(* bisect over the cumulative sizes returns the unique (part, offset) with
   sizes[0] + ... + sizes[part-1] + offset = k *)
Theorem to_concat_idx_inverse : forall sizes k,
  Forall (fun x => 0 <= x) sizes -> 0 <= k < zsum sizes ->
  exists d j, to_concat_idx (cumsum 0 sizes) k = Some (d, j)
    /\ (d < length sizes)%nat /\ 0 <= j < nth d sizes 0 /\ zsum (firstn d sizes) + j = k
    /\ forall d' j', (d' < length sizes)%nat -> 0 <= j' < nth d' sizes 0 ->
                     zsum (firstn d' sizes) + j' = k -> d' = d /\ j' = j.
Proof. exact Proofs.to_concat_idx_inverse. Qed.
Print Assumptions to_concat_idx_inverse.

Theorem to_concat_idx_negative : forall sizes k,
  sizes <> [] -> - zsum sizes <= k < 0 ->
  to_concat_idx (cumsum 0 sizes) k = to_concat_idx (cumsum 0 sizes) (zsum sizes + k).
Proof. exact Proofs.to_concat_idx_negative. Qed.
Print Assumptions to_concat_idx_negative.

(* getall (fast path when offered, sample-wise slow path otherwise) returns the index map
   and agrees element-wise with getitem, through ANY nesting with a length -- also over
   balanced concats (which offer no getall_*, so utils.getall goes sample by sample) *)
Theorem getall_eq_map_getitem : forall s,
  valid s = true -> is_fin (den_of s) = true -> lists_ok s = true ->
  exists b, util_getall s = GOk b (map_of s)
    /\ (has_getall s = true -> getall s = GOk b (map_of s))
    /\ slen s = Some (zlen (map_of s))
    /\ forall k, 0 <= k < zlen (map_of s) -> nth_error (map_of s) (Z.to_nat k) = resolve s k.
Proof. exact Proofs.getall_eq_map_getitem. Qed.
Print Assumptions getall_eq_map_getitem.

(* the slow path alone is right whatever is below *)
Theorem util_getall_slow : forall s,
  valid s = true -> is_fin (den_of s) = true -> has_getall s = false ->
  util_getall s = GOk true (map_of s).
Proof. exact Proofs.util_getall_slow. Qed.
Print Assumptions util_getall_slow.

(* getall_x is offered (hasattr) only by stacks without a balanced concat anywhere below ... *)
Theorem getall_offered_only_without_balanced : forall s, has_getall s = true -> no_balanced s = true.
Proof. exact Proofs.has_getall_no_balanced. Qed.
Print Assumptions getall_offered_only_without_balanced.

(* ... and wherever it is offered, the direct call <stack>.getall_x() is the index map *)
Theorem getall_offered_is_map : forall s,
  valid s = true -> lists_ok s = true -> has_getall s = true ->
  getall s = GOk (yields_list s) (map_of s) /\ is_fin (den_of s) = true.
Proof. exact Proofs.getall_offered_is_map. Qed.
Print Assumptions getall_offered_is_map.

(* ---------------------------------------------------------------------------------------------- *)
(* accessors are pure: histories of bulk / per-sample accesses on stacks sharing objects           *)
(* ---------------------------------------------------------------------------------------------- *)
(* every step of a history (getall_x / utils.getall / len / getitem_x on the composed stack, on one of its parts, on
   another stack built over the same parts) returns what that access alone returns *)
Theorem getall_pure : forall h t s o,
  nth_error h t = Some (s, o) -> nth_error (run_hist h) t = Some (eval_op s o).
Proof. exact hist_step_alone. Qed.
Print Assumptions getall_pure.

(* getall is idempotent: the same question to the same stack, anywhere in the history, has the same answer *)
Theorem getall_idempotent : forall h t1 t2 s o,
  nth_error h t1 = Some (s, o) -> nth_error h t2 = Some (s, o) ->
  nth_error (run_hist h) t1 = nth_error (run_hist h) t2.
Proof. exact hist_same_step_same_answer. Qed.
Print Assumptions getall_idempotent.

(* ... and it is the index map, after whatever history *)
Theorem getall_in_history_is_map : forall h t s,
  valid s = true -> lists_ok s = true -> has_getall s = true ->
  nth_error h t = Some (s, HGetall) ->
  nth_error (run_hist h) t = Some (HRAll (GOk (yields_list s) (map_of s))).
Proof. exact hist_getall_is_map. Qed.
Print Assumptions getall_in_history_is_map.

Theorem len_getitem_in_history_are_map : forall h t s,
  valid s = true -> is_fin (den_of s) = true ->
  (nth_error h t = Some (s, HLen) -> nth_error (run_hist h) t = Some (HRLen (Some (zlen (map_of s))))) /\
  (forall k, - zlen (map_of s) <= k < zlen (map_of s) -> nth_error h t = Some (s, HItem k) ->
     nth_error (run_hist h) t =
     Some (HRItem (nth_error (map_of s) (Z.to_nat (if k <? 0 then zlen (map_of s) + k else k))))).
Proof. exact hist_len_item_is_map. Qed.
Print Assumptions len_getitem_in_history_are_map.

(* The stateless model is justified on a heap of list OBJECTS (Heap.v: a root may hand out the very container it keeps,
   KDConcatDataset._call_getall accumulates into a list it creates, KDSubset._call_getall builds a new list):
   (1) the heap version returns an object holding exactly the value Model.getall computes, and fails when it fails; *)
Theorem getall_on_heap_is_model : forall kept s h, wf kept (length h) s h ->
  match getall_h kept s h with
  | HOk l b h' => getall s = GOk b (cell h' l)
  | Heap.HMissing => getall s = GMissing
  | Heap.HErr => getall s = GErr
  end.
Proof. exact getall_heap_refines. Qed.
Print Assumptions getall_on_heap_is_model.

(* (2) it writes to NO list object that existed before the call -- not to a container kept by a root, not to a result
   handed out by an earlier call: objects are only added *)
Theorem getall_writes_no_existing_object : forall kept s h l b h',
  getall_h kept s h = HOk l b h' ->
  (length h <= length h')%nat /\ forall l0, (l0 < length h)%nat -> cell h' l0 = cell h l0.
Proof. exact getall_heap_frame. Qed.
Print Assumptions getall_writes_no_existing_object.

(* (3) hence asking twice: the second answer has the content of the first, the object returned first still has it, and
   the roots' containers still hold the roots' data *)
Theorem getall_twice_on_heap : forall kept s h l1 b1 h1 l2 b2 h2, wf kept (length h) s h ->
  getall_h kept s h = HOk l1 b1 h1 -> (l1 < length h1)%nat -> getall_h kept s h1 = HOk l2 b2 h2 ->
  b2 = b1 /\ cell h2 l2 = cell h1 l1 /\ cell h2 l1 = cell h1 l1 /\ wf kept (length h) s h2.
Proof. exact getall_heap_twice. Qed.
Print Assumptions getall_twice_on_heap.

(* non-vacuity: a concat whose first part hands out the container it keeps (object 0), asked twice *)
Definition nv_kept (id : Z) : option nat := if id =? 0 then Some 0%nat else None.
Definition nv_heap : heap := [root_content 0 3].
Definition nv_cat : stack := Cat false [Wrap 2 (Root 0 3 PList); Sub 0 [1; 1] (Root 1 2 PArray)].
Example nonvacuous_heap :
  wf nv_kept (length nv_heap) nv_cat nv_heap /\
  match getall_h nv_kept nv_cat nv_heap with
  | HOk l1 b1 h1 =>
      match getall_h nv_kept nv_cat h1 with
      | HOk l2 b2 h2 => (l1, l2, b1, b2, cell h2 0, cell h2 l1, cell h2 l2)
      | _ => (0, 0, false, false, [], [], [])%nat
      end
  | _ => (0, 0, false, false, [], [], [])%nat
  end = (1%nat, 4%nat, true, true, [(0, 0); (0, 1); (0, 2)], [(0, 0); (0, 1); (0, 2); (1, 1); (1, 1)],
         [(0, 0); (0, 1); (0, 2); (1, 1); (1, 1)]) /\
  getall nv_cat = GOk true [(0, 0); (0, 1); (0, 2); (1, 1); (1, 1)].
Proof.
  split; [|vm_compute; split; reflexivity].
  intros id n l I K. simpl in I. destruct I as [I|[I|[]]]; injection I as <- <-; vm_compute in K; [|discriminate].
  injection K as <-. split; [vm_compute; constructor | reflexivity].
Qed.

(* introspection through every linear chain of layers *)
Theorem root_of_linear_chain : forall ls id n pk, root (build ls (Root id n pk)) = id.
Proof. exact Proofs.root_of_linear_chain. Qed.
Print Assumptions root_of_linear_chain.

Theorem wrappers_of_linear_chain : forall ls id n pk,
  wrappers (build ls (Root id n pk)) = map ltag ls.
Proof. exact Proofs.wrappers_of_linear_chain. Qed.
Print Assumptions wrappers_of_linear_chain.

Theorem wrappers_of_type_linear_chain : forall t ls id n pk,
  wrappers_of_type t (build ls (Root id n pk)) = positions t 0 (map ltag ls).
Proof. exact Proofs.wrappers_of_type_linear_chain. Qed.
Print Assumptions wrappers_of_type_linear_chain.

Theorem has_wrapper_type_linear_chain : forall t ls id n pk,
  has_wrapper_type t (build ls (Root id n pk)) = existsb (Z.eqb t) (map ltag ls).
Proof. exact Proofs.has_wrapper_type_linear_chain. Qed.
Print Assumptions has_wrapper_type_linear_chain.

Theorem every_stack_is_a_chain_over_its_base : forall s,
  build (fst (unbuild s)) (snd (unbuild s)) = s.
Proof. exact Proofs.build_unbuild. Qed.
Print Assumptions every_stack_is_a_chain_over_its_base.

Theorem dispose_linear_chain : forall ls id n pk, dispose (build ls (Root id n pk)) = [id].
Proof. exact Proofs.dispose_linear_chain. Qed.
Print Assumptions dispose_linear_chain.

(* dispose reaches every root below the stack (also through concats) *)
Theorem dispose_reaches_root : forall s, dispose s = roots s.
Proof. exact Proofs.dispose_reaches_root. Qed.
Print Assumptions dispose_reaches_root.

Theorem root_is_first_root : forall s, ctor_ok s = true -> hd_error (roots s) = Some (root s).
Proof. exact Proofs.root_is_first_root. Qed.
Print Assumptions root_is_first_root.

(* non-vacuity of the premises: a valid 4-layer stack with a negative subset entry, an
   empty concat part and a balanced concat below a subset *)
Example nonvacuous_valid :
  let s := Wrap 3 (Sub 1 [2; -1; 0] (Cat false [Root 0 2 PList; Root 1 0 PList; Sub 0 [1; 1] (Root 2 3 PArray)])) in
  valid s = true /\ is_fin (den_of s) = true /\ no_balanced s = true /\ lists_ok s = true
  /\ map_of s = [(2, 1); (2, 1); (0, 0)] /\ resolve s (-3) = Some (2, 1).
Proof. vm_compute. repeat split; reflexivity. Qed.

Example nonvacuous_balanced :
  let s := Cat true [Root 0 2 PList; Root 1 3 PList] in
  valid s = true /\ map (resolve s) [0; 1; 2; 3; 4; 5] =
                    [Some (0, 0); Some (1, 0); Some (0, 1); Some (1, 1); Some (0, 0); Some (1, 2)].
Proof. vm_compute. split; reflexivity. Qed.

(* the formerly recorded finding as a regression example: KDSubset over a balanced concat *)
Example balanced_getall_regression :
  let s := balanced_witness in
  valid s = true /\ is_fin (den_of s) = true /\ lists_ok s = true /\ has_getall s = false /\ getall s = GMissing
  /\ map_of s = [(0, 0); (1, 0); (0, 1); (1, 1)] /\ util_getall s = GOk true (map_of s).
Proof. vm_compute. repeat split; reflexivity. Qed.

(* ---------------------------------------------------------------------------------------------- *)
(* attribute lookup and introspection (AttrModel.v): every node has an environment of class-level  *)
(* and instance-level definitions; abuild ls r = the linear chain of layers ls (outermost first;   *)
(* KDSubset / KDWrapper / ModeWrapper) over the root dataset r                                     *)
(* ---------------------------------------------------------------------------------------------- *)
(* getattr(chain, name) is answered by the NEAREST provider: the first node, from the outside, on which
   Python's normal lookup finds the name (property before instance dict before method / class attribute;
   a property raising AttributeError does not count); AttributeError when no node defines it.
   For every name no layer intercepts (not getdim_* / getitem_* / getall_* / __getitems__). *)
Theorem attr_resolves_to_nearest_provider : forall ls r name, plain_name name = true ->
  aquery (abuild ls r) name = nearest (nodes_of ls r) name.
Proof. exact attr_nearest. Qed.
Print Assumptions attr_resolves_to_nearest_provider.

Theorem nearest_is_first_definer : forall ns name x,
  nearest ns name = x -> x <> AMissing ->
  exists i n, nth_error ns i = Some n /\ own n name = Some x /\
              forall j m, (j < i)%nat -> nth_error ns j = Some m -> own m name = None.
Proof. exact nearest_first. Qed.
Print Assumptions nearest_is_first_definer.

(* getdim_<kind>() (no layer defines that name itself) is shape[0] of getshape_<kind> as seen from the first
   KDDataset-family layer of the chain: KDSubset and ModeWrapper pass the alias request on, the first KDWrapper (or the
   root) answers it with ITS getshape_<kind>; AssertionError when there is none or it is not a 1-tuple *)
Theorem getdim_resolves_from_first_dataset_layer : forall ls r name,
  is_getdim name = true -> Forall (fun n => own n name = None) (nodes_of ls r) ->
  aquery (abuild ls r) name = shape1 (nearest (nodes_of (skip_to_kd ls) r) ("getshape_" ++ dim_kind name)).
Proof. exact getdim_chain. Qed.
Print Assumptions getdim_resolves_from_first_dataset_layer.

(* hence getdim_<kind>() = getshape_<kind>()[0] through the whole chain, provided no KDSubset / ModeWrapper above the
   first KDWrapper defines getshape_<kind> itself (no kappadata class does) *)
Theorem getdim_is_getshape0 : forall ls r name,
  is_getdim name = true -> Forall (fun n => own n name = None) (nodes_of ls r) ->
  (forall l, In l ls -> is_kd l = false -> own (snd l) ("getshape_" ++ dim_kind name) = None) ->
  aquery (abuild ls r) name = shape1 (aquery (abuild ls r) ("getshape_" ++ dim_kind name)).
Proof. exact AttrProofs.getdim_is_getshape0. Qed.
Print Assumptions getdim_is_getshape0.

(* a concat answers every name it does not define or intercept with its first part *)
Theorem attr_concat_first_part : forall n p ps name,
  own n name = None -> is_getitem name = false -> is_getall name = false ->
  aquery (ACat n (p :: ps)) name = aquery p name.
Proof. exact AttrProofs.attr_concat_first_part. Qed.
Print Assumptions attr_concat_first_part.

(* fused_operations of a chain: the root's groups, then what each KDWrapper appends, innermost first *)
Theorem fused_operations_linear_chain : forall ls r, no_mode ls ->
  afused (abuild ls r) = Some (bo_fo (n_bo r) ++ flat_map wrap_fo (rev ls)).
Proof. exact afused_chain. Qed.
Print Assumptions fused_operations_linear_chain.

Theorem requires_propagate_ctx_linear_chain : forall ls r, no_mode ls ->
  areq (abuild ls r) = Some (existsb (fun l => is_kd l && bo_req (n_bo (snd l))) ls || bo_req (n_bo r)).
Proof. exact areq_chain. Qed.
Print Assumptions requires_propagate_ctx_linear_chain.

Theorem collators_linear_chain : forall ls r, acoll (abuild ls r) = bo_coll (n_bo r).
Proof. exact acoll_chain. Qed.
Print Assumptions collators_linear_chain.

Theorem root_wrappers_linear_chain : forall ls r,
  aroot (abuild ls r) = n_uid r /\ awrappers (abuild ls r) = map (fun l => n_uid (snd l)) ls.
Proof. intros ls r. split; [exact (aroot_chain ls r) | exact (awrappers_chain ls r)]. Qed.
Print Assumptions root_wrappers_linear_chain.

Theorem has_wrapper_linear_chain : forall w ls r,
  ahas_wrapper w (abuild ls r) = existsb (fun l => n_uid (snd l) =? w) ls.
Proof. exact ahas_wrapper_chain. Qed.
Print Assumptions has_wrapper_linear_chain.

(* dispose() / leaving a with-block reaches the root through every chain, a ModeWrapper on top included *)
Theorem dispose_linear_chain_any_layer : forall ls r, adispose (abuild ls r) = [n_uid r].
Proof. exact adispose_chain. Qed.
Print Assumptions dispose_linear_chain_any_layer.

Theorem worker_init_linear_chain : forall ls r,
  awreach (abuild ls r) = map (fun l => n_uid (snd l)) (filter is_kd ls) ++ [n_uid r].
Proof. exact awreach_chain. Qed.
Print Assumptions worker_init_linear_chain.

Theorem every_attr_chain_is_built : forall s ls r, aunbuild s = Some (ls, r) -> abuild ls r = s.
Proof. exact abuild_aunbuild. Qed.
Print Assumptions every_attr_chain_is_built.

(* any nesting (concats included): dispose reaches every root, worker_init_fn every KDWrapper and every root, each
   exactly once and in pre-order *)
Theorem dispose_reaches_every_root : forall s, adispose s = uids_of_kind (Nat.eqb 0) s.
Proof. exact adispose_roots. Qed.
Print Assumptions dispose_reaches_every_root.

Theorem worker_init_reaches_every_wrapper_and_root : forall s,
  awreach s = uids_of_kind (fun k => Nat.eqb k 0 || Nat.eqb k 1) s.
Proof. exact awreach_nodes. Qed.
Print Assumptions worker_init_reaches_every_wrapper_and_root.

(* get_wrapper_of_type: None for no layer of the type, the layer for exactly one, AssertionError otherwise *)
Theorem get_wrapper_of_type_unique : forall ws,
  (wrapper_of_type ws = inl None <-> ws = []) /\
  (forall p, wrapper_of_type ws = inl (Some p) <-> ws = [p]) /\
  (wrapper_of_type ws = inr tt <-> (2 <= List.length ws)%nat).
Proof. exact wrapper_of_type_spec. Qed.
Print Assumptions get_wrapper_of_type_unique.

(* non-vacuity: a ModeWrapper over a KDSubset (defining getshape_x itself and a property that raises) over a KDWrapper
   (shadowing "alpha" at class and instance level) over a root *)
Definition ex_bo := {| bo_fo := []; bo_req := false; bo_coll := [] |}.
Definition ex_chain : list alayer :=
  [(LKMode, {| n_uid := 0; n_cls := []; n_inst := []; n_bo := ex_bo |});
   (LKSub, {| n_uid := 1; n_cls := [("beta"%string, KPropRaise); ("getshape_y"%string, KMethod)]; n_inst := []; n_bo := ex_bo |});
   (LKWrap, {| n_uid := 2; n_cls := [("alpha"%string, KMethod)]; n_inst := ["alpha"%string];
               n_bo := {| bo_fo := [7]; bo_req := true; bo_coll := [] |} |})].
Definition ex_root : node :=
  {| n_uid := 3; n_cls := [("alpha"%string, KProp); ("beta"%string, KCattr); ("getshape_x"%string, KMethod);
                           ("getshape_y"%string, KShape2)];
     n_inst := []; n_bo := {| bo_fo := [5]; bo_req := false; bo_coll := [11; 12] |} |}.
Example nonvacuous_attr :
  let s := abuild ex_chain ex_root in
  map (aquery s) ["alpha"; "beta"; "gamma"; "getshape_y"; "getdim_x"; "getdim_y"; "getdim_z"]%string
  = [AFound 2 3; AFound 3 2; AMissing; AFound 1 0; AFound 3 0; AAssert; AAssert]
  /\ plain_name "alpha" = true /\ is_getdim "getdim_y" = true
  /\ Forall (fun n => own n "getdim_y"%string = None) (nodes_of ex_chain ex_root)
  /\ afused (abuild (tl ex_chain) ex_root) = Some [5; 7] /\ areq (abuild (tl ex_chain) ex_root) = Some true
  /\ afused s = None /\ acoll s = [11; 12] /\ adispose s = [3] /\ awreach s = [2; 3] /\ actor_ok s = true.
Proof. vm_compute. repeat split; try reflexivity; repeat constructor. Qed.

(* ---- round 4 ---- *)
(* kept accessors: an accessor obtained earlier (stack `fetched`) and called after subset layers were re-sampled (stack
   `cur`) answers like one fetched now -- entry k of the CURRENT composed index map, the current length.  The harness
   checks that the real kept accessors (bound getitem_x / getall_x, ModeWrapper(mode="x")) answer as kept_eval says. *)
Theorem kept_accessor_uses_current_stack : forall fetched cur o, kept_eval fetched cur o = kept_eval cur cur o.
Proof. exact kept_is_fresh. Qed.
Print Assumptions kept_accessor_uses_current_stack.

Theorem kept_accessor_answers_current_map : forall fetched cur k,
  valid cur = true -> is_fin (den_of cur) = true -> - zlen (map_of cur) <= k < zlen (map_of cur) ->
  kept_eval fetched cur (HItem k) =
  HRItem (nth_error (map_of cur) (Z.to_nat (if k <? 0 then zlen (map_of cur) + k else k))) /\
  kept_eval fetched cur HLen = HRLen (Some (zlen (map_of cur))).
Proof. exact kept_item_is_current_map. Qed.
Print Assumptions kept_accessor_answers_current_map.

(* the kind resolved for the alias name "getdim_" ++ k is exactly k, for EVERY string k (underscores, digits, kinds that
   are prefixes of other kinds) ... *)
Theorem getdim_kind_is_exact_suffix : forall k,
  is_getdim ("getdim_" ++ k) = true /\ dim_kind ("getdim_" ++ k) = k.
Proof. exact getdim_kind_exact. Qed.
Print Assumptions getdim_kind_is_exact_suffix.

(* ... so on every chain no layer of which defines the alias name itself, getdim_<k>() is getshape_<k>()[0] of that very
   k, seen from the first KDDataset-family layer *)
Theorem getdim_alias_resolves_exact_kind : forall ls r k,
  Forall (fun n => own n ("getdim_" ++ k) = None) (nodes_of ls r) ->
  aquery (abuild ls r) ("getdim_" ++ k) =
  shape1 (nearest (nodes_of (skip_to_kd ls) r) ("getshape_" ++ k)).
Proof. exact getdim_alias_exact_kind. Qed.
Print Assumptions getdim_alias_resolves_exact_kind.

Example nonvacuous_getdim_kinds :
  map (fun k => dim_kind ("getdim_" ++ k)) ["class"; "class_before_grouping"; "multi_label_target"; "x_2"; "u_"; ""]%string
  = ["class"; "class_before_grouping"; "multi_label_target"; "x_2"; "u_"; ""]%string.
Proof. reflexivity. Qed.
