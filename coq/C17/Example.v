(* C17 — non-vacuity witnesses: two runs of the real collators (recorded by harness/c17.py, KD_REPO at the repaired
   tree) on which every premise of the theorems of Property.v holds and the model returns the observed output. *)
From Coq Require Import ZArith List Bool Lia Permutation.
Import ListNotations.
From KD Require Import C17.Model C17.Spec.
Open Scope Z_scope.

(* KDDinoMaskCollator(mask_ratio=(0.25, 0.5), mask_prob=0.5, mask_size=(3, 4), num_views=2, min_num_patches=2),
   batch of one sample, rng = default_rng(811171) *)
Definition ex_dcfg : dcfg :=
  {| dH := 3; dW := 4; dV := 2; dMinP := 2; dPn := 1; dPd := 2; dRn := 1; dRd := 2 |}.

Definition ex_dtrace : list draw :=
  [DUnif (1, 4) (1, 2) (8232475950278611, 18014398509481984);
   DUnif (2, 1) (5, 1) (5371151176581793, 1125899906842624);
   DUnif (-5422211472926497, 4503599627370496) (5422211472926497, 4503599627370496)
         (-108647772462797, 4503599627370496);
   DRound 2; DRound 2; DInt 0 2 1; DInt 0 3 1;
   DUnif (1, 1) (2, 1) (4392189090328865, 2251799813685248);
   DUnif (-5422211472926497, 4503599627370496) (5422211472926497, 4503599627370496)
         (-42783347908769, 2251799813685248);
   DRound 1; DRound 1; DInt 0 3 0; DInt 0 4 3;
   DPerm [1%nat; 0%nat]].

Definition ex_dout : list mask :=
  [[[false; false; false; false]; [false; false; false; false]; [false; false; false; false]];
   [[false; false; false; true]; [false; true; true; false]; [false; true; true; false]]].

Lemma ex_dcfg_ok : dcfg_ok ex_dcfg.
Proof. unfold dcfg_ok; simpl; lia. Qed.

Lemma ex_dtrace_ok : Forall draw_ok ex_dtrace.
Proof.
  unfold ex_dtrace. repeat (apply Forall_cons; [unfold draw_ok, rat_le; simpl; try lia|]).
  - apply perm_swap.
  - apply Forall_nil.
Qed.

Lemma ex_dino_run : dino_collate ex_dcfg 1 ex_dtrace = Ok ex_dout.
Proof. vm_compute. reflexivity. Qed.

(* the run is not trivial: one non-empty mask (= the budget), 5 masked patches, cap 6 *)
Lemma ex_dino_nontrivial : count_nonempty ex_dout = 1 /\ budget ex_dcfg 1 = 1 /\
                           map popcount ex_dout = [0; 5] /\ cap ex_dcfg = 6.
Proof. vm_compute. repeat split; reflexivity. Qed.

(* KDIjepaMaskCollator(input_size=5, patch_size=1, encoder_mask_scale=0.7, predictor_mask_scale=0.15,
   predictor_aspect_ratio=1.0, num_enc_masks=1, num_pred_masks=2, min_keep=2, tries=2), first call, batch of two,
   rng = default_rng(916315): 2x2 predictor blocks, 4x4 encoder block, 16 - 2*4 > 2 *)
Definition ex_jcfg : jcfg :=
  {| jH := 5; jW := 5; jNEnc := 1%nat; jNPred := 2%nat; jMinKeep := 2; jTries := 2 |}.

Definition ex_sizes : Z -> raw4 := fun _ => (2, 2, 4, 4).

Definition ex_jtrace : list draw :=
  [DSeed 0; DInt 0 3 1; DInt 0 3 2; DInt 0 3 0; DInt 0 3 0; DInt 0 1 0; DInt 0 1 0;
   DInt 0 3 1; DInt 0 3 0; DInt 0 3 2; DInt 0 3 2; DInt 0 1 0; DInt 0 1 0].

Definition ex_enc : list (list Z) := [[2; 3; 10; 11; 15; 16; 17; 18]; [0; 1; 2; 3; 7; 8; 15; 16]].
Definition ex_pred : list (list Z) := [[7; 8; 12; 13]; [5; 6; 10; 11]; [0; 1; 5; 6]; [12; 13; 17; 18]].

Lemma ex_jcfg_ok : jcfg_ok ex_jcfg.
Proof. unfold jcfg_ok; simpl; lia. Qed.

Lemma ex_sizes_ok : sizes_ok ex_sizes.
Proof. intros s. simpl. lia. Qed.

Lemma ex_jtrace_ok : Forall draw_ok ex_jtrace.
Proof. unfold ex_jtrace. repeat (apply Forall_cons; [simpl; try lia; exact I|]). apply Forall_nil. Qed.

Lemma ex_ijepa_run : exists o, ijepa_collate ex_jcfg ex_sizes (-1) 2 ex_jtrace = Ok o /\
  o_enc o = ex_enc /\ o_pred o = ex_pred /\ o_psize o = (2, 2) /\ o_esize o = (4, 4) /\ o_ctr o = 0 /\
  premise ex_jcfg (o_psize o) (o_esize o).
Proof.
  eexists. split; [vm_compute; reflexivity|]. simpl. repeat split.
Qed.
