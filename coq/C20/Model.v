(* Implementation model of
     kappadata/copying/folder.py        (copy_folder_from_global_to_local)
     kappadata/copying/image_folder.py  (copy_imagefolder_from_global_to_local, the twin)
     kappadata/copying/copying_utils.py (create_folder_with_file, delete_folder_content,
                                         folder_contains_mostly_zips, run_unzip_jobs, unzip)
   as they are with /verif/fixes/C20_start_marker_atomic.patch and
   /verif/fixes/C20_wipe_keeps_start_marker.patch applied.  No proofs here.

   One call = a `plan`: the exact sequence of primitive file-system operations
   it issues from the state it finds.  A process that is killed stops after a
   prefix of that sequence -- or inside the next operation when that is a write
   (crash_state_t: the first n bytes are out); an OSError raised by an operation stops it too.
   The same `plan` with the flags (fx_atomic, fx_wipe) = (false, false) is the
   code BEFORE the two repairs (kept for the refutation witnesses).

   Parallel extraction (num_workers >= 2): run_unzip_jobs hands one task per zip to joblib; the tasks run
   concurrently in worker processes.  `unzip_jobs` is the partition of the list of zips into tasks, and the order in
   which the members of the different tasks take effect is chosen by an oracle (`sched`, see `interleave`): ANY
   interleaving of the tasks that keeps the order inside a task.

   File system: association list  path -> Dir | File bytes ; only `lookup`
   matters (first binding wins, `del` removes every binding of a key). *)
From Coq Require Import List String Ascii Bool Arith ZArith.
Import ListNotations.

Definition name := string.
Definition path := list name.             (* components below the sandbox root; [] = the root *)
Definition content := list Z.             (* bytes *)
Inductive entry := Dir | File (c : content).
Definition fs := list (path * entry).

Fixpoint path_eqb (a b : path) : bool :=
  match a, b with
  | [], [] => true
  | x :: a', y :: b' => String.eqb x y && path_eqb a' b'
  | _, _ => false
  end.

Fixpoint lookup (s : fs) (p : path) : option entry :=
  match s with
  | [] => None
  | (k, e) :: r => if path_eqb k p then Some e else lookup r p
  end.

Definition del (p : path) (s : fs) : fs := filter (fun ke => negb (path_eqb (fst ke) p)) s.
Definition ins (p : path) (e : entry) (s : fs) : fs := (p, e) :: del p s.

(* strip p x = Some r  iff  x = p ++ r *)
Fixpoint strip (p x : path) : option path :=
  match p, x with
  | [], _ => Some x
  | a :: p', b :: x' => if String.eqb a b then strip p' x' else None
  | _ :: _, [] => None
  end.
Definition under (p x : path) : bool := match strip p x with Some _ => true | None => false end.
Definition strictly_under (p x : path) : bool := match strip p x with Some (_ :: _) => true | _ => false end.

Definition has_child (p : path) (s : fs) : bool := existsb (fun ke => strictly_under p (fst ke)) s.

Definition parent_is_dir (s : fs) (p : path) : bool :=
  match p with
  | [] => false
  | _ => match lookup s (removelast p) with Some Dir => true | _ => false end
  end.

(* rename(2) of a directory: the whole subtree moves *)
Definition rename (p q : path) (s : fs) : fs :=
  map (fun ke => match strip p (fst ke) with Some r => (q ++ r, snd ke) | None => ke end) s.

(* ---------------------------------------------------------------------- *)
(* operations the code issues, and the system calls that succeed (events)  *)
(* ---------------------------------------------------------------------- *)
Inductive op :=
| Mkdir (p : path)                (* os.mkdir, fails if p exists *)
| MkdirOk (p : path)              (* mkdir(exist_ok=True) / "if not exists: mkdir" : nothing happens if p is a directory *)
| Create (p : path)               (* open(p, "w"/"wb"): creates or truncates *)
| Write (p : path) (c : content)  (* the single write of the whole content *)
| Remove (p : path)               (* what rmtree / delete_folder_content do with one entry: unlink a file, rmdir an (emptied) directory *)
| Rmdir (p : path)
| Rename (p q : path).

Inductive ev :=
| EMkdir (p : path) | ECreate (p : path) | EWrite (p : path) (c : content)
| EUnlink (p : path) | ERmdir (p : path) | ERename (p q : path).

(* None = the call raises OSError (nothing changes) *)
Definition apply (o : op) (s : fs) : option (fs * list ev) :=
  match o with
  | Mkdir p =>
      match lookup s p with
      | Some _ => None
      | None => if parent_is_dir s p then Some (ins p Dir s, [EMkdir p]) else None
      end
  | MkdirOk p =>
      match lookup s p with
      | Some Dir => Some (s, [])
      | Some (File _) => None
      | None => if parent_is_dir s p then Some (ins p Dir s, [EMkdir p]) else None
      end
  | Create p =>
      match lookup s p with
      | Some Dir => None
      | _ => if parent_is_dir s p then Some (ins p (File []) s, [ECreate p]) else None
      end
  | Write p c =>
      match lookup s p with
      | Some (File _) => Some (ins p (File c) s, [EWrite p c])
      | _ => None
      end
  | Remove p =>
      match lookup s p with
      | Some (File _) => Some (del p s, [EUnlink p])
      | Some Dir => if has_child p s then None else Some (del p s, [ERmdir p])
      | None => None
      end
  | Rmdir p =>
      match lookup s p with
      | Some Dir => if has_child p s then None else Some (del p s, [ERmdir p])
      | _ => None
      end
  | Rename p q =>
      match lookup s p, lookup s q with
      | Some Dir, None =>
          if parent_is_dir s q && negb (under p q) then Some (rename p q s, [ERename p q]) else None
      | _, _ => None
      end
  end.

(* every operation succeeds *)
Fixpoint run (ops : list op) (s : fs) : option (fs * list ev) :=
  match ops with
  | [] => Some (s, [])
  | o :: r =>
      match apply o s with
      | None => None
      | Some (s1, e1) => match run r s1 with None => None | Some (s2, e2) => Some (s2, e1 ++ e2) end
      end
  end.

(* as far as it gets: stops at the first operation that raises *)
Fixpoint run_upto (ops : list op) (s : fs) : fs * list ev :=
  match ops with
  | [] => (s, [])
  | o :: r =>
      match apply o s with
      | None => (s, [])
      | Some (s1, e1) => let '(s2, e2) := run_upto r s1 in (s2, e1 ++ e2)
      end
  end.

(* killed after k operations *)
Definition crash_state (ops : list op) (k : nat) (s : fs) : fs := fst (run_upto (firstn k ops) s).

(* a process that is killed inside write(2) / sendfile(2) may have got only the first n bytes out *)
Definition tear (n : nat) (o : op) : option op :=
  match o with Write p c => Some (Write p (firstn n c)) | _ => None end.

(* killed after k operations -- and, when t = Some n and the next operation is a write, in the middle of that write
   after n bytes (t = None: between two operations) *)
Fixpoint crash_state_t (ops : list op) (k : nat) (t : option nat) (s : fs) : fs :=
  match ops, k with
  | [], _ => s
  | o :: _, O =>
      match t with
      | Some n => match tear n o with
                  | Some o' => match apply o' s with Some (s1, _) => s1 | None => s end
                  | None => s
                  end
      | None => s
      end
  | o :: r, S k' => match apply o s with None => s | Some (s1, _) => crash_state_t r k' t s1 end
  end.

(* ---------------------------------------------------------------------- *)
(* the source (global) side                                                *)
(* ---------------------------------------------------------------------- *)
Inductive tree := TFile (c : content) | TDir (ch : list (name * tree)).   (* children in readdir order *)
Record member := { m_path : path; m_file : option content }.               (* zip member; None = directory entry "x/" *)
Inductive format := Raw | Zip | Zips.
Inductive variant := VFolder | VImage.

Record config := {
  c_variant : variant;
  c_parent : path;                          (* dst_path = c_parent / c_name *)
  c_name : name;
  c_dir : option (list (name * tree));      (* src_path is a directory: its listing (os.listdir / os.scandir order) *)
  c_zips : list (name * list member);       (* members (namelist order) of the *.zip files directly inside it *)
  c_zip : option (list member);             (* zip_path_of(src_path) = "<src_path>.zip" exists: its members
                                               (fixes/C20_dotted_relative_path.patch: not with_suffix(".zip")) *)
  c_workers : nat;                          (* num_workers *)
}.

Definition sname : name := "autocopy_start.txt"%string.
Definition ename : name := "autocopy_end.txt"%string.
Definition tmp_name (n : name) : name := (n ++ ".autocopy_tmp")%string.
Definition dst (c : config) : path := c_parent c ++ [c_name c].
Definition tmp (c : config) : path := c_parent c ++ [tmp_name (c_name c)].
Definition smark (c : config) : path := dst c ++ [sname].
Definition emark (c : config) : path := dst c ++ [ename].

Definition bytes_of (s : string) : content := map (fun a => Z.of_N (N_of_ascii a)) (list_ascii_of_string s).
Definition start_text : content :=
  bytes_of "this file indicates that an attempt to copy the dataset automatically was started".
Definition end_text : content :=
  bytes_of "this file indicates that copying the dataset automatically was successful".

(* item.endswith(".zip") *)
Definition is_zip_name (n : name) : bool :=
  match rev (list_ascii_of_string n) with
  | "p"%char :: "i"%char :: "z"%char :: "."%char :: _ => true
  | _ => false
  end.
(* Path(item).with_suffix("") for a name ending in ".zip" *)
Definition stem (n : name) : name :=
  let l := list_ascii_of_string n in string_of_list_ascii (firstn (List.length l - 4) l).

(* folder_contains_mostly_zips *)
Definition mostly_zips (items : list (name * tree)) : bool :=
  let zips := filter is_zip_name (map fst items) in
  (0 <? List.length zips) && (List.length items / 2 <=? List.length zips).

Definition format_of (c : config) : format :=
  match c_dir c with
  | Some items => if mostly_zips items then Zips else Raw
  | None => Zip
  end.

Definition src_exists (c : config) : bool :=
  match c_dir c, c_zip c with None, None => false | _, _ => true end.

(* what the copy phase ensures, in the order in which it does so:
   (path relative to dst, Dir) = make sure the directory exists; (path, File c) = (re)write the file *)
Fixpoint inits (p : path) : list path :=
  match p with
  | [] => [[]]
  | a :: r => [] :: map (cons a) (inits r)
  end.

Definition entry_of_member (m : member) : entry := match m_file m with Some c => File c | None => Dir end.

(* ZipFile._extract_member: makedirs(dirname(target)) when missing, then mkdir / write the member *)
Definition member_entries (m : member) : list (path * entry) :=
  map (fun a => (a, Dir)) (inits (removelast (m_path m))) ++ [(m_path m, entry_of_member m)].

(* shutil.copytree(dirs_exist_ok=True): pre-order, directories are made when they are entered *)
Fixpoint tree_entries (pre : path) (t : tree) : list (path * entry) :=
  match t with
  | TFile c => [(pre, File c)]
  | TDir ch => (pre, Dir) :: flat_map (fun nt => tree_entries (pre ++ [fst nt]) (snd nt)) ch
  end.

Fixpoint assoc_zip (n : name) (z : list (name * list member)) : list member :=
  match z with
  | [] => []
  | (k, ms) :: r => if String.eqb k n then ms else assoc_zip n r
  end.

Definition prefix_member (pre : path) (m : member) : member :=
  {| m_path := pre ++ m_path m; m_file := m_file m |}.

(* folder of zips: every zip of the listing, in listing order, is extracted into dst (folder.py) or into
   dst/<stem> (image_folder.py, class-wise); the latter is the former with the member names prefixed *)
Definition all_members (c : config) (items : list (name * tree)) : list member :=
  flat_map (fun nt =>
              if is_zip_name (fst nt)
              then map (prefix_member (match c_variant c with VFolder => [] | VImage => [stem (fst nt)] end))
                       (assoc_zip (fst nt) (c_zips c))
              else []) items.

(* ---- the jobs of a folder of zips (unzip_batched_zips / unzip_imagefolder_classwise + run_unzip_jobs) ---- *)
(* jobargs: the items of the listing that end in ".zip", in listing order *)
Definition zip_items (items : list (name * tree)) : list name := filter is_zip_name (map fst items).

(* run_unzip_jobs: num_workers <= 1 : one loop over all jobargs in the calling process (one "job");
   otherwise jobs = [joblib.delayed(unzip)(src, dst) for src, dst in jobargs] : one task per zip *)
Definition unzip_jobs {A : Type} (workers : nat) (zs : list A) : list (list A) :=
  if workers <=? 1 then [zs] else map (fun z => [z]) zs.

(* unzip(src, dst): the members of one archive in namelist order, extracted below dst (folder.py) or
   dst/<stem> (image_folder.py) *)
Definition zip_members (c : config) (n : name) : list member :=
  map (prefix_member (match c_variant c with VFolder => [] | VImage => [stem n] end)) (assoc_zip n (c_zips c)).
Definition job_members (c : config) (job : list name) : list member := flat_map (zip_members c) job.

(* the next member of job number j, if that job has one left *)
Fixpoint take_job {A : Type} (j : nat) (jobs : list (list A)) : option (A * list (list A)) :=
  match jobs, j with
  | [], _ => None
  | q :: rest, O => match q with [] => None | m :: q' => Some (m, q' :: rest) end
  | q :: rest, S j' => match take_job j' rest with None => None | Some (m, rest') => Some (m, q :: rest') end
  end.

(* the order in which the members of concurrently running jobs are extracted: sched = which job makes the next
   step (the oracle; a job that has nothing left is skipped); pool(jobs) returns only when every job has run to
   its end, so whatever the oracle has not scheduled is run at the end *)
Fixpoint interleave {A : Type} (sched : list nat) (jobs : list (list A)) : list A :=
  match sched with
  | [] => List.concat jobs
  | j :: sched' =>
      match take_job j jobs with
      | Some (m, jobs') => m :: interleave sched' jobs'
      | None => interleave sched' jobs
      end
  end.

Definition scheduled_members (c : config) (sched : list nat) (items : list (name * tree)) : list member :=
  interleave sched (map (job_members c) (unzip_jobs (c_workers c) (zip_items items))).

(* the walk over the source in its canonical order (sequential extraction) ... *)
Definition src_entries (c : config) : list (path * entry) :=
  match c_dir c with
  | Some items =>
      if mostly_zips items
      then ([], Dir) :: flat_map member_entries (all_members c items)       (* dst_path.mkdir(exist_ok=True, parents=True) first *)
      else tree_entries [] (TDir items)
  | None =>
      match c_zip c with
      | Some ms => flat_map member_entries ms
      | None => []
      end
  end.

Definition ops_of_entry (base : path) (pe : path * entry) : list op :=
  match snd pe with
  | Dir => [MkdirOk (base ++ fst pe)]
  | File [] => [Create (base ++ fst pe)]                      (* copyfileobj of an empty file writes nothing *)
  | File c => [Create (base ++ fst pe); Write (base ++ fst pe) c]
  end.

(* ... and in the order of one particular call (differs for a folder of zips extracted by several workers) *)
Definition copy_entries (c : config) (sched : list nat) : list (path * entry) :=
  match c_dir c with
  | Some items =>
      if mostly_zips items
      then ([], Dir) :: flat_map member_entries (scheduled_members c sched items)
      else src_entries c
  | None => src_entries c
  end.

Definition copy_ops (c : config) (sched : list nat) : list op :=
  flat_map (ops_of_entry (dst c)) (copy_entries c sched).

(* the part of the copy phase that runs in joblib's worker processes *)
Definition parallel (c : config) : bool :=
  (1 <? c_workers c) && match format_of c with Zips => true | _ => false end.
Definition worker_ops (c : config) (sched : list nat) : list op :=
  if parallel c then tl (copy_ops c sched) else [].

(* ---------------------------------------------------------------------- *)
(* one call                                                                *)
(* ---------------------------------------------------------------------- *)
Record result := { was_copied : bool; was_deleted : bool; source_format : option format }.
Definition nothing_done : result := {| was_copied := false; was_deleted := false; source_format := None |}.

Inductive outcome :=
| ORaise                                  (* the src_path assertion fails *)
| OSkip (r : result)                      (* returns without touching anything *)
| ORun (ops : list op) (r : result).      (* returns r if every operation succeeds *)

(* Path.mkdir(parents=True, exist_ok=True) of p, link by link from the top *)
Definition mkdir_p (p : path) : list op := map MkdirOk (tl (inits p)).

(* branch "dst_path does not exist" *)
Definition create_ops (fx_atomic : bool) (c : config) : list op :=
  if fx_atomic
  then (* create_folder_with_file: temporary sibling with the start marker inside, renamed into place *)
       mkdir_p (c_parent c)
       ++ [MkdirOk (tmp c); Create (tmp c ++ [sname]); Write (tmp c ++ [sname]) start_text; Rename (tmp c) (dst c)]
  else (* dst_path.mkdir(parents=True) *)
       mkdir_p (c_parent c) ++ [Mkdir (dst c)].

(* branch "incomplete automatic copy"; `order` = the entries below dst in the order in which the directory
   scans of this call return them (children before their directory) *)
Definition wipe_ops (fx_wipe : bool) (c : config) (order : list path) : list op :=
  if fx_wipe
  then (* delete_folder_content(dst_path, keep=start marker) *)
       map Remove (filter (fun p => negb (path_eqb p (smark c))) order)
  else (* shutil.rmtree(dst_path); dst_path.mkdir() *)
       map Remove order ++ [Rmdir (dst c); Mkdir (dst c)].

Definition common_ops (c : config) (sched : list nat) : list op :=
  [Create (smark c); Write (smark c) start_text] ++ copy_ops c sched ++ [Create (emark c); Write (emark c) end_text].

Definition plan_gen (fx_atomic fx_wipe : bool) (c : config) (order : list path) (sched : list nat) (s : fs) : outcome :=
  if negb (src_exists c) then ORaise else
  match lookup s (dst c) with
  | Some _ =>
      match lookup s (smark c) with
      | Some _ =>
          match lookup s (emark c) with
          | Some _ => OSkip nothing_done                                     (* already automatically copied *)
          | None => ORun (wipe_ops fx_wipe c order ++ common_ops c sched)
                         {| was_copied := true; was_deleted := true; source_format := Some (format_of c) |}
          end
      | None => OSkip nothing_done                                           (* manually copied dataset *)
      end
  | None => ORun (create_ops fx_atomic c ++ common_ops c sched)
                 {| was_copied := true; was_deleted := false; source_format := Some (format_of c) |}
  end.

(* ---------------------------------------------------------------------- *)
(* histories                                                               *)
(* ---------------------------------------------------------------------- *)
(* scan order seen by the call; schedule of its workers; killed after a_kill operations (the workers die with it),
   a_torn = Some n: inside the next operation, a write, after n bytes *)
Record attempt := { a_order : list path; a_sched : list nat; a_kill : nat; a_torn : option nat }.

Section WithFixes.
  Variables fx_atomic fx_wipe : bool.

  (* an invocation that does not return: killed after a_kill operations, or stopped by an OSError before *)
  Definition invoke_crashed (c : config) (s : fs) (a : attempt) : fs :=
    match plan_gen fx_atomic fx_wipe c (a_order a) (a_sched a) s with
    | ORun ops _ => crash_state_t ops (a_kill a) (a_torn a) s
    | _ => s
    end.

  (* an invocation that returns normally: final state, result, the system calls it made *)
  Definition invoke (c : config) (order : list path) (sched : list nat) (s : fs) : option (fs * result * list ev) :=
    match plan_gen fx_atomic fx_wipe c order sched s with
    | ORaise => None
    | OSkip r => Some (s, r, [])
    | ORun ops r => match run ops s with Some (s', evs) => Some (s', r, evs) | None => None end
    end.

  Definition after_crashes (c : config) (h : list attempt) (s0 : fs) : fs := fold_left (invoke_crashed c) h s0.

  (* any number of interrupted invocations followed by one that returns *)
  Definition history_run (c : config) (h : list attempt) (order : list path) (sched : list nat) (s0 : fs) :=
    invoke c order sched (after_crashes c h s0).
End WithFixes.

(* the code as it is now *)
Definition plan := plan_gen true true.
(* the code before the repairs *)
Definition plan_prefix := plan_gen false false.
