(* C16 — executable comparison of what the real wrappers returned with model and spec
   (used by harness/c16.py; every case is evaluated with vm_compute).
   code 0 = implementation, model and spec agree
        1 = the model (or the contract of a recorded draw) does not describe the implementation
        2.. = the spec evaluated on the implementation's own output is false:
              2 bulk <> per-sample, 3 label outside the announced range, 4 second pass differs,
              5 wrapped dataset's labels changed, 6 encoding not a distribution / wrong argmax,
              7 bulk of a re-encoding wrapper is not the integer label,
              8 a thresholded pseudo label was not decided by "softmax(row).max() > threshold",
              9 the wrapper's own labels changed after LATER constructions on the same objects *)
From Coq Require Import ZArith List Bool QArith.
Import ListNotations.
From KD Require Import C16.Model C16.Spec.
Open Scope Z_scope.

Fixpoint list_eqb {A} (eq : A -> A -> bool) (a b : list A) : bool :=
  match a, b with
  | [], [] => true
  | x :: a', y :: b' => eq x y && list_eqb eq a' b'
  | _, _ => false
  end.
Definition zlist_eqb := list_eqb Z.eqb.

Record lobs := { o_items : list Z;            (* [w.getitem_class(i) for i in range(len(w))] *)
                 o_items2 : list Z;           (* the same, second pass *)
                 o_bulk : option (list Z);    (* w.getall_class(); None = NotImplementedError *)
                 o_shape : Z;                 (* w.getshape_class()[0] *)
                 o_after : list Z;            (* wrapped dataset's labels after all accessor calls *)
                 o_hist : list (list Z);      (* wrapped dataset's labels after every step of the construction history
                                                 (siblings built before / after the wrapper, beside it / stacked),
                                                 after the constructor and after every accessor pass *)
                 o_later : option (list Z * option (list Z))
                                              (* per-sample list and bulk answer re-read after the later constructions *) }.

Inductive case_t :=
| CaseLabel (w : wspec) (C : Z) (labels : list Z) (o : lobs)
| CaseEnc (e : espec) (C : Z) (labels : list Z) (items : list enc) (bulk : list Z) (after : list Z)
          (hist : list (list Z)) (later : option (list enc)).

(* ---------- strong contracts of the recorded draws (validated against numpy / torch) ---------- *)
Definition is_perm_nat (n : nat) (l : list nat) : bool :=
  len_is n l && forallb (fun i => existsb (Nat.eqb i) l) (seq 0 n).
Definition is_perm_Z (n : Z) (l : list Z) : bool :=
  len_is (Z.to_nat n) l && forallb (fun i => existsb (Z.eqb i) l) (zrange n).
Definition countZ (x : Z) (l : list Z) : nat := length (filter (Z.eqb x) l).

Definition draws_okb (w : wspec) (C : Z) (labels : list Z) : bool :=
  let n := length labels in
  match w with
  | WClassGroups p =>
      if cg_shuffle p
      then len_is (length (cg_table0 C (cg_cpg p))) (cg_draw p)
           && forallb (fun g => Nat.eqb (countZ g (cg_draw p)) (Z.to_nat (cg_cpg p))) (zrange (ceil_div C (cg_cpg p)))
      else true
  | WSuperclass p =>
      if sc_shuffle p
      then is_perm_Z C (sc_perm p) && (if 1 <? sc_splits p then is_perm_nat n (sc_perm2 p) else true)
      else true
  | WRandomClass nc (RCRandperm p) => is_perm_Z nc p
  | WSemi k perm => is_perm_nat n perm && (k <=? n)%nat
  | _ => contractb w C labels
  end.

(* thresholded pseudo labels: the decisions recorded on the per-sample path, on the bulk path and
   the rule itself.  0 = all agree; 2 = the premise of the coherence theorem (same decisions on
   both paths) is false; 8 = the per-sample path does not follow the rule *)
Definition decisions_code (w : wspec) : nat :=
  match w with
  | WPseudo (PLThr _ ref dec_item dec_bulk) =>
      if negb (bools_eqb dec_item dec_bulk) then 2%nat
      else if negb (bools_eqb dec_item ref) then 8%nat else 0%nat
  | _ => 0%nat
  end.

Definition check_label (w : wspec) (C : Z) (labels : list Z) (o : lobs) : nat :=
  let items := o_items o in
  if negb (Nat.eqb (decisions_code w) 0) then decisions_code w else
  if negb (match o_bulk o with Some l => zlist_eqb l items | None => true end) then 2%nat else
  if negb (Nat.eqb (length items) (length labels)) then 2%nat else
  if contractb w C labels && negb (forallb (label_okb (allows_unlabeled w) (o_shape o)) items) then 3%nat else
  if negb (zlist_eqb items (o_items2 o)) then 4%nat else
  if negb (zlist_eqb (o_after o) labels) then 5%nat else
  if negb (forallb (fun s => zlist_eqb s labels) (o_hist o)) then 5%nat else
  if negb (match o_later o with
           | None => true
           | Some (i3, b3) => zlist_eqb i3 items &&
                              match b3, o_bulk o with
                              | Some a, Some b => zlist_eqb a b
                              | None, None => true
                              | _, _ => false end
           end) then 9%nat else
  if negb (draws_okb w C labels) then 1%nat else
  if negb (zlist_eqb (w_items w C labels) items) then 1%nat else
  if negb (match w_getall w C labels, o_bulk o with
           | Some a, Some b => zlist_eqb a b
           | None, None => true
           | _, _ => false end) then 1%nat else
  if negb (w_shape w C =? o_shape o) then 1%nat else 0%nat.

(* ---------- encodings: implementation floats arrive as exact rationals ---------- *)
Definition tol : Q := 1 # 1000000.
Definition tol_sum : Q := 1 # 10000.
Definition Qclose (t a b : Q) : bool := Qle_bool (a - b) t && Qle_bool (b - a) t.
Definition Qltb (a b : Q) : bool := negb (Qle_bool b a).

Definition enc_close (a b : enc) : bool :=
  match a, b with
  | EInt x, EInt y => x =? y
  | EVec u, EVec v => list_eqb (Qclose tol) u v
  | EScalar p, EScalar q => Qclose tol p q
  | _, _ => false
  end.

Definition strictb (e : espec) : bool :=
  match e with ESmooth sm => Qltb sm 1 | EOneHot => true end.

Definition enc_okb (e : espec) (C y : Z) (it : enc) : bool :=
  match it with
  | EInt y' => match e with ESmooth sm => Qeq_bool sm 0 && (y' =? y) | EOneHot => false end
  | EVec v =>
      len_is (Z.to_nat C) v &&
      if y =? -1 then forallb (fun q => Qeq_bool q (-1)) v
      else
        let vy := nth (Z.to_nat y) v 0%Q in
        in_rangeb C y && forallb (Qle_bool 0) v && Qclose tol_sum (Qsum v) 1
        && forallb (fun q => Qle_bool q vy) v
        && (if strictb e
            then forallb (fun j => Nat.eqb j (Z.to_nat y) || Qltb (nth j v 0%Q) vy) (seq 0 (length v))
            else true)
  | EScalar q =>
      (C =? 1) && Qle_bool 0 q && Qle_bool q 1
      && (if y =? 1 then Qle_bool (1 # 2) q else Qle_bool q (1 # 2))
  end.

Fixpoint forallb2 {A B} (f : A -> B -> bool) (a : list A) (b : list B) : bool :=
  match a, b with
  | [], [] => true
  | x :: a', y :: b' => f x y && forallb2 f a' b'
  | _, _ => false
  end.

Definition check_enc (e : espec) (C : Z) (labels : list Z) (items : list enc) (bulk after : list Z)
           (hist : list (list Z)) (later : option (list enc)) : nat :=
  if negb (zlist_eqb bulk labels) then 7%nat else
  if negb (forallb2 (fun y it => enc_okb e C y it) bulk items) then 6%nat else
  if negb (zlist_eqb after labels) then 5%nat else
  if negb (forallb (fun s => zlist_eqb s labels) hist) then 5%nat else
  if negb (match later with None => true | Some l => forallb2 enc_close items l end) then 9%nat else
  if negb (forallb2 enc_close (map (e_getitem e C labels) (seq 0 (length labels))) items) then 1%nat else
  if negb (zlist_eqb (e_getall e labels) bulk) then 1%nat else 0%nat.

Definition check (t : case_t) : nat :=
  match t with
  | CaseLabel w C labels o => check_label w C labels o
  | CaseEnc e C labels items bulk after hist later => check_enc e C labels items bulk after hist later
  end.
