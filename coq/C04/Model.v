(* Implementation model of kappadata/samplers/interleaved_sampler.py
   (InterleavedSampler.__init__ with all its assertions and the checkpoint
   derivation, index_offsets, __iter__, _eval_loop, _training_loop incl. its
   batch-size adjustment branches, _InterleavedBatchSampler.__iter__,
   _InterleavedConcatDataset.__getitem__, _InterleavedCollator.__call__).
   Mirrors the code statement by statement; no proofs here. *)
From Coq Require Import ZArith List Bool.
Import ListNotations.
Open Scope Z_scope.

(* one InterleavedSamplerConfig: the three optional intervals, optional batch
   size, the sampler's iterations ([sidx k] = what the k-th
   "for interleaved_idx in config.sampler" over this sampler object yields: a
   shuffling sampler yields another order on every pass), len(config.sampler)
   and len(data_source) *)
Record side_cfg := {
  ene : option Z; enu : option Z; ens : option Z; sbs : option Z;
  sidx : nat -> list Z; slen : Z; dslen : Z }.

(* the attributes of a constructed InterleavedSampler that the loops read;
   bE/bU/bS = self.epochs / self.updates / self.samples (the loops test each of
   them for "is not None", the constructor asserts that exactly one is given) *)
Record cfg := {
  cN : Z;            (* len(main_sampler) *)
  dsN : Z;           (* len(data_source of main sampler) *)
  cB : Z;            (* batch_size *)
  drop_last : bool;
  cD : option Z;     (* drop_last_batch_size *)
  bE : option Z; bU : option Z; bS : option Z;
  sides : list side_cfg }.

(* observable events: set_epoch calls received by the main sampler, the calls
   of iter(main_sampler) (IterStart e: "for main_idx in self.main_sampler"
   evaluates iter() now; e = the epoch whose iteration [main_iter e] the loop
   consumes, which for a sampler object is the epoch it HOLDS at that moment -
   a sampler that fixes its order eagerly in __iter__ reads it exactly here) and
   the (is_full_batch, index) stream; Main/Side are distinguished in the model
   only, [render] forgets the distinction *)
Inductive event :=
| SetEpoch (e : Z)
| IterStart (e : Z)
| Main (full : bool) (idx : Z)
| Side (cfgidx : nat) (full : bool) (idx : Z).

(* OIterStart e: iter(main_sampler) was called while the sampler object held
   epoch e (its last set_epoch, or whatever it held before the run).
   OSideSetEpoch: a set_epoch call received by a side sampler; the code never
   makes one, so the model never produces it *)
Inductive obs := OSetEpoch (e : Z) | OIterStart (e : Z) | OYield (full : bool) (idx : Z) | OSideSetEpoch (ci : nat) (e : Z).

Definition or_default (o : option Z) (d : Z) : Z := match o with Some x => x | None => d end.
Definition is_some {A} (o : option A) : bool := match o with Some _ => true | None => false end.
Definition opt_test (o : option Z) (p : Z -> bool) : bool := match o with Some x => p x | None => false end.

(* ---- constructor: samples / updates per epoch ("infer full start checkpoint") ---- *)
Definition spe (c : cfg) : Z :=
  if drop_last c then let bs := or_default (cD c) (cB c) in cN c / bs * bs else cN c.

Definition upe (c : cfg) : Z :=
  if drop_last c then spe c / cB c else (cN c + cB c - 1) / cB c.

(* ---- _training_loop prologue: (self.batch_size after the "len < batch size"
   adjustments, samples_per_epoch).  Under the constructor's assertions the
   adjustment branches are dead (Arith.loop_geom_eq). ---- *)
Definition loop_geom (c : cfg) : Z * Z :=
  if drop_last c then
    match cD c with
    | Some d =>
        let '(d', b') :=
          if cN c <? d then
            let factor := d / cB c in
            let d' := cN c - cN c mod factor in (d', d' / factor)
          else (d, cB c) in
        (b', cN c / d' * d')
    | None =>
        let b' := if cN c <? cB c then cN c else cB c in
        (b', cN c / b' * b')
    end
  else (cB c, cN c).
Definition lB (c : cfg) : Z := fst (loop_geom c).
Definition lspe (c : cfg) : Z := snd (loop_geom c).

(* ---- index_offsets as the constructor builds it: [len(main data source)],
   then one more entry per config of configs[:-1] ---- *)
Fixpoint index_offsets_from (acc : Z) (l : list side_cfg) : list Z :=
  match l with [] => [] | sc :: l' => (acc + dslen sc) :: index_offsets_from (acc + dslen sc) l' end.
Definition index_offsets (c : cfg) : list Z :=
  dsN c :: index_offsets_from (dsN c) (removelast (sides c)).

(* index_offsets[config_idx] for config_idx = 0 .. len(configs)-1, as the loops
   read it (equal to index_offsets when there is a config: Sides.index_offsets_eq) *)
Fixpoint offsets_from (acc : Z) (l : list side_cfg) : list Z :=
  match l with [] => [] | sc :: l' => acc :: offsets_from (acc + dslen sc) l' end.
Definition offsets (c : cfg) : list Z := offsets_from (dsN c) (sides c).

(* the inner "for interleaved_idx in config.sampler" loop *)
Fixpoint side_pass_aux (ci : nat) (ibs len_ off k : Z) (l : list Z) : list event :=
  match l with
  | [] => []
  | i :: l' =>
      let k' := k + 1 in
      Side ci ((k' mod ibs =? 0) || (k' =? len_)) (off + i) :: side_pass_aux ci ibs len_ off k' l'
  end.
(* p = how often this config's sampler was iterated before *)
Definition side_pass (c : cfg) (ci : nat) (off : Z) (sc : side_cfg) (p : nat) : list event :=
  side_pass_aux ci (or_default (sbs sc) (lB c)) (slen sc) off 0 (sidx sc p).

(* should_iter for one config after the counters were increased *)
Definition should_iter (sc : side_cfg) (epoch_end : bool) (epoch update sample salu : Z) : bool :=
  (match ene sc with Some n => epoch_end && (epoch mod n =? 0) | None => false end)
  || (match enu sc with Some n => update mod n =? 0 | None => false end)
  || (match ens sc with
      | Some n => (sample mod n =? 0) || (salu / n <? sample / n)
      | None => false end).

(* "for config_idx, config in enumerate(self.configs)"; pcs = per config, how
   often its sampler was iterated so far (the sampler objects' own state) *)
Fixpoint sides_pass (c : cfg) (ci : nat) (offs : list Z) (l : list side_cfg) (pcs : list nat)
         (epoch_end : bool) (epoch update sample salu : Z) : list event * list nat :=
  match l, offs, pcs with
  | sc :: l', off :: offs', p :: pcs' =>
      let it := should_iter sc epoch_end epoch update sample salu in
      let '(evs, pcs'') := sides_pass c (S ci) offs' l' pcs' epoch_end epoch update sample salu in
      ((if it then side_pass c ci off sc p else []) ++ evs, (if it then S p else p) :: pcs'')
  | _, _, _ => ([], [])
  end.

(* "check if end is reached" *)
Definition budget_reached (c : cfg) (epoch update sample : Z) : bool :=
  opt_test (bE c) (fun e => epoch =? e)
  || opt_test (bU c) (fun u => update =? u)
  || opt_test (bS c) (fun s => s <=? sample).

Record st := { epoch : Z; update : Z; sample : Z; siu : Z; salu : Z; pcs : list nat }.

Inductive status := Done | EpochBreak | Exhausted.

(* body of "for main_idx in self.main_sampler" *)
Fixpoint epoch_loop (c : cfg) (l : list Z) (sie : Z) (s : st) : list event * st * status :=
  match l with
  | [] => ([], s, Exhausted)
  | i :: l' =>
      let sample' := sample s + 1 in
      let sie' := sie + 1 in
      let siu' := siu s + 1 in
      if (siu' =? lB c) || (sie' =? lspe c) then
        let update' := update s + 1 in
        let epoch_end := sie' =? lspe c in
        let epoch' := if epoch_end then epoch s + 1 else epoch s in
        let '(passes, pcs') := sides_pass c 0 (offsets c) (sides c) (pcs s) epoch_end epoch' update' sample' (salu s) in
        let s' := {| epoch := epoch'; update := update'; sample := sample'; siu := 0; salu := sample'; pcs := pcs' |} in
        if budget_reached c epoch' update' sample' then (Main true i :: passes, s', Done)
        else if epoch_end then (Main true i :: passes, s', EpochBreak)
        else let '(evs, s'', stt) := epoch_loop c l' sie' s' in (Main true i :: passes ++ evs, s'', stt)
      else
        let s' := {| epoch := epoch s; update := update s; sample := sample'; siu := siu'; salu := salu s; pcs := pcs s |} in
        let '(evs, s'', stt) := epoch_loop c l' sie' s' in (Main false i :: evs, s'', stt)
  end.

(* "while True": one iteration per unit of fuel; None = out of fuel.
   "self.main_sampler.set_epoch(epoch)" comes first, then the for statement
   evaluates iter(self.main_sampler): the sampler object holds [epoch s] from
   the announcement on, so its iteration is [main_iter (epoch s)] whether it
   reads the epoch in __iter__ (eager) or at the first next() (generator) *)
Fixpoint run (c : cfg) (main_iter : Z -> list Z) (fuel : nat) (s : st) : option (list event) :=
  match fuel with
  | O => None
  | S fuel' =>
      let '(evs, s', stt) := epoch_loop c (main_iter (epoch s)) 0 s in
      match stt with
      | Done => Some (SetEpoch (epoch s) :: IterStart (epoch s) :: evs)
      | _ => match run c main_iter fuel' s' with
             | Some rest => Some (SetEpoch (epoch s) :: IterStart (epoch s) :: evs ++ rest)
             | None => None
             end
      end
  end.

(* _eval_loop *)
Fixpoint eval_loop (c : cfg) (ci : nat) (offs : list Z) (l : list side_cfg) (pcs : list nat) : list event :=
  match l, offs, pcs with
  | sc :: l', off :: offs', p :: pcs' => side_pass c ci off sc p ++ eval_loop c (S ci) offs' l' pcs'
  | _, _, _ => []
  end.

(* "self.epochs == 0 or self.updates == 0 or self.samples == 0" *)
Definition zero_budget (c : cfg) : bool :=
  opt_test (bE c) (fun e => e =? 0) || opt_test (bU c) (fun u => u =? 0) || opt_test (bS c) (fun s => s =? 0).

(* ---- the constructor ---- *)
Inductive start_arg := NoStart | StartEpoch (e : Z) | StartUpdate (u : Z) | StartSample (s : Z).
Inductive start_result := Start (e u s : Z) | NotImplemented | AssertFail.

(* "infer full start checkpoint from one of epoch/update/sample": the
   if / elif / elif / else chain with its assertions *)
Definition checkpoint (c : cfg) (se su ss : option Z) : start_result :=
  match se with
  | Some e =>
      if is_some su || is_some ss then AssertFail
      else Start e (upe c * e) (spe c * e)
  | None =>
      match su with
      | Some u =>
          if is_some ss then AssertFail
          else if negb (u mod upe c =? 0) || negb (drop_last c) then NotImplemented
          else Start (u / upe c) u (u * cB c)
      | None =>
          match ss with
          | Some s =>
              if negb (s mod cB c =? 0) then AssertFail
              else let u := s / cB c in
                   if negb (u mod upe c =? 0) || negb (drop_last c) then NotImplemented
                   else Start (u / upe c) u s
          | None => Start 0 0 0
          end
      end
  end.

Definition start_opts (a : start_arg) : option Z * option Z * option Z :=
  match a with
  | NoStart => (None, None, None)
  | StartEpoch e => (Some e, None, None)
  | StartUpdate u => (None, Some u, None)
  | StartSample s => (None, None, Some s)
  end.
Definition init_checkpoint (c : cfg) (a : start_arg) : start_result :=
  let '(se, su, ss) := start_opts a in checkpoint c se su ss.

(* the raw constructor arguments (all integers: the isinstance checks are not modelled) *)
Record ctor_args := {
  a_N : Z; a_dsN : Z; a_B : Z; a_drop_last : bool; a_D : option Z;
  a_epochs : option Z; a_updates : option Z; a_samples : option Z;
  a_start_epoch : option Z; a_start_update : option Z; a_start_sample : option Z;
  a_sides : list side_cfg }.

Inductive ctor_result := Ok (c : cfg) (e u s : Z) | CNotImplemented | CAssertFail.

Definition opt_pos (o : option Z) : bool := match o with Some x => 0 <? x | None => true end.
Definition opt_nonneg (o : option Z) : bool := match o with Some x => 0 <=? x | None => true end.
Definition b2n (b : bool) : nat := if b then 1%nat else 0%nat.

(* the per-config assertions *)
Definition side_asserts (sc : side_cfg) : bool :=
  (is_some (ene sc) || is_some (enu sc) || is_some (ens sc))
  && opt_pos (ene sc) && opt_pos (enu sc) && opt_pos (ens sc) && opt_pos (sbs sc).

Definition cfg_of_args (a : ctor_args) : cfg :=
  {| cN := a_N a; dsN := a_dsN a; cB := a_B a; drop_last := a_drop_last a; cD := a_D a;
     bE := a_epochs a; bU := a_updates a; bS := a_samples a; sides := a_sides a |}.

(* InterleavedSampler.__init__: the assertions in source order, then the checkpoint *)
Definition ctor (a : ctor_args) : ctor_result :=
  if negb (0 <? a_B a) then CAssertFail
  else if negb (a_B a <=? a_N a) then CAssertFail
  else if negb (match a_D a with
                | Some d => (a_drop_last a && (d mod a_B a =? 0)) && (a_B a <=? d) && (d <=? a_N a)
                | None => true end) then CAssertFail
  else if negb (opt_nonneg (a_epochs a)) then CAssertFail
  else if negb (opt_nonneg (a_updates a)) then CAssertFail
  else if negb (opt_nonneg (a_samples a)) then CAssertFail
  else if negb (Nat.eqb (b2n (is_some (a_epochs a)) + b2n (is_some (a_updates a)) + b2n (is_some (a_samples a))) 1) then CAssertFail
  else if negb (forallb side_asserts (a_sides a)) then CAssertFail
  else match checkpoint (cfg_of_args a) (a_start_epoch a) (a_start_update a) (a_start_sample a) with
       | Start e u s => Ok (cfg_of_args a) e u s
       | NotImplemented => CNotImplemented
       | AssertFail => CAssertFail
       end.

Definition init_state (e u s : Z) (pcs0 : list nat) : st :=
  {| epoch := e; update := u; sample := s; siu := 0; salu := s; pcs := pcs0 |}.

(* fuel that always suffices (proved in Corollaries.v): what remains of the
   first given budget *)
Definition default_fuel (c : cfg) (s : st) : nat :=
  match bE c, bU c, bS c with
  | Some e, _, _ => Z.to_nat (e - epoch s)
  | None, Some u, _ => Z.to_nat (u - update s)
  | None, None, Some x => Z.to_nat (x - sample s)
  | None, None, None => 0%nat
  end.

(* __iter__ (None = its assertion fails / the loop never ends) *)
Definition sampler_iter (c : cfg) (main_iter : Z -> list Z) (e u s : Z) (pcs0 : list nat) : option (list event) :=
  if zero_budget c then
    if (e =? 0) && (u =? 0) && (s =? 0) then Some (eval_loop c 0 (offsets c) (sides c) pcs0) else None
  else run c main_iter (default_fuel c (init_state e u s pcs0)) (init_state e u s pcs0).

(* the main sampler object holds an epoch ([ann]: what it held before this
   iteration of the InterleavedSampler - None = never announced); set_epoch
   overwrites it; [held] lists what the object holds at each call of its
   __iter__ (what an eagerly ordering sampler reads) *)
Fixpoint held (ann : option Z) (l : list event) : list (option Z) :=
  match l with
  | [] => []
  | SetEpoch e :: l' => held (Some e) l'
  | IterStart _ :: l' => ann :: held ann l'
  | _ :: l' => held ann l'
  end.

(* the epochs whose iteration [main_iter e] the loop consumes, in order *)
Fixpoint iter_labels (l : list event) : list Z :=
  match l with
  | [] => []
  | IterStart e :: l' => e :: iter_labels l'
  | _ :: l' => iter_labels l'
  end.

(* the program state an InterleavedSampler object shares with others: the epoch
   the main sampler object holds and how often every side sampler object was
   iterated.  The InterleavedSampler itself carries no state from one iteration
   to the next: [iterate] takes the constructed attributes and returns the stream *)
Record world := { w_held : option Z; w_pcs : list nat }.
Definition iterate (c : cfg) (mi : Z -> list Z) (e u s : Z) (w : world) : option (list event) :=
  sampler_iter c mi e u s (w_pcs w).

Definition render1 (e : event) : obs :=
  match e with
  | SetEpoch x => OSetEpoch x
  | IterStart x => OIterStart x
  | Main f i => OYield f i
  | Side _ f i => OYield f i
  end.
Definition render (l : list event) : list obs := map render1 l.

(* _InterleavedBatchSampler.__iter__ ; the trailing assert is the bool *)
Fixpoint batches_aux (cur : list Z) (l : list obs) : list (list Z) * bool :=
  match l with
  | [] => ([], match cur with [] => true | _ => false end)
  | OYield f i :: l' =>
      if f then let '(bs, ok) := batches_aux [] l' in (rev (i :: cur) :: bs, ok)
      else batches_aux (i :: cur) l'
  | _ :: l' => batches_aux cur l'
  end.
Definition batches (l : list obs) := batches_aux [] l.

(* _InterleavedConcatDataset.__getitem__ for idx >= 0: bisect_right over the
   cumulative sizes; returns (dataset_idx, sample_idx) *)
Fixpoint concat_lookup_aux (sizes : list Z) (di : nat) (idx : Z) : option (nat * Z) :=
  match sizes with
  | [] => None
  | n :: rest => if idx <? n then Some (di, idx) else concat_lookup_aux rest (S di) (idx - n)
  end.
Definition concat_lookup (c : cfg) (idx : Z) : option (nat * Z) :=
  concat_lookup_aux (dsN c :: map dslen (sides c)) 0 idx.

(* _InterleavedCollator.__call__ on the fetched (dataset_idx, sample) pairs:
   asserts one dataset per batch, dispatches to that dataset's collator (the
   collator itself is abstract: the result names which one got which samples) *)
Definition collate (items : list (nat * Z)) : option (nat * list Z) :=
  match items with
  | [] => None                       (* zip of an empty batch cannot be unpacked *)
  | (d0, _) :: _ =>
      if forallb (fun it => Nat.eqb d0 (fst it)) items then Some (d0, map snd items) else None
  end.

(* what a DataLoader (dataset = the concat dataset, batch_sampler, collate_fn)
   delivers for one batch of indices, and for the whole stream *)
Fixpoint fetch (c : cfg) (b : list Z) : option (list (nat * Z)) :=
  match b with
  | [] => Some []
  | i :: b' => match concat_lookup c i, fetch c b' with
               | Some it, Some r => Some (it :: r)
               | _, _ => None
               end
  end.
Definition deliver (c : cfg) (b : list Z) : option (nat * list Z) :=
  match fetch c b with Some items => collate items | None => None end.
Fixpoint loader_batches (c : cfg) (bs : list (list Z)) : option (list (nat * list Z)) :=
  match bs with
  | [] => Some []
  | b :: bs' => match deliver c b, loader_batches c bs' with
                | Some x, Some r => Some (x :: r)
                | _, _ => None
                end
  end.
