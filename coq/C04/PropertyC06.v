(* Property C06 — resuming the interleaved scheduler yields the suffix of the
   uninterrupted run.  Theorems only. *)
From Coq Require Import ZArith List Bool.
Import ListNotations.
From KD Require Import C04.Model C04.Spec C04.Lists C04.Arith C04.Proofs C04.Corollaries C04.Batches C04.Bounds C04.Order C04.Example.
Open Scope Z_scope.

(* the constructor accepts exactly the checkpoints on epoch boundaries (explicit
   NotImplemented otherwise) and derives the epoch / update / sample counters the
   uninterrupted run has there *)
Theorem c06_constructor_checkpoint : forall c mi, WF c mi -> forall a,
  init_checkpoint c a = spec_start c a.
Proof. exact init_checkpoint_spec. Qed.
Print Assumptions c06_constructor_checkpoint.

(* which checkpoints are accepted, for each of the three ways of giving one
   (upe / spe carry the drop_last / drop_last_batch_size geometry, see
   c04_samples_per_epoch): start_epoch always; start_update = u iff drop_last and
   u is a multiple of updates_per_epoch, NotImplementedError otherwise;
   start_sample = s: AssertionError iff s is not a multiple of batch_size,
   accepted iff drop_last and s is a multiple of samples_per_epoch,
   NotImplementedError otherwise *)
Theorem c06_checkpoint_accepted_iff : forall c mi, WF c mi ->
  (forall e, init_checkpoint c (StartEpoch e) = Start e (upe c * e) (spe c * e)) /\
  (forall u, accepted (init_checkpoint c (StartUpdate u)) <-> drop_last c = true /\ exists e, u = upe c * e) /\
  (forall u, ~ accepted (init_checkpoint c (StartUpdate u)) <-> init_checkpoint c (StartUpdate u) = NotImplemented) /\
  (forall s, init_checkpoint c (StartSample s) = AssertFail <-> s mod cB c <> 0) /\
  (forall s, accepted (init_checkpoint c (StartSample s)) <-> drop_last c = true /\ exists e, s = spe c * e) /\
  (forall s, ~ accepted (init_checkpoint c (StartSample s)) /\ s mod cB c = 0
             <-> init_checkpoint c (StartSample s) = NotImplemented).
Proof. exact checkpoint_accepted_iff. Qed.
Print Assumptions c06_checkpoint_accepted_iff.

(* the three ways are consistent with one another: whatever form is accepted
   denotes an epoch e and yields exactly the triple start_epoch = e yields
   (start_update = e * updates_per_epoch, start_sample = e * samples_per_epoch);
   and with drop_last every epoch can be named in each of the three ways *)
Theorem c06_checkpoint_forms_agree : forall c mi, WF c mi ->
  (forall a e u s, init_checkpoint c a = Start e u s -> init_checkpoint c (StartEpoch e) = Start e u s) /\
  (forall e, drop_last c = true ->
     init_checkpoint c (StartUpdate (upe c * e)) = init_checkpoint c (StartEpoch e) /\
     init_checkpoint c (StartSample (spe c * e)) = init_checkpoint c (StartEpoch e)).
Proof. exact checkpoint_forms_agree. Qed.
Print Assumptions c06_checkpoint_forms_agree.

(* giving the checkpoint in two or three ways at once is an AssertionError *)
Theorem c06_checkpoint_two_forms_rejected : forall c se su ss,
  (2 <= b2n (is_some se) + b2n (is_some su) + b2n (is_some ss))%nat -> checkpoint c se su ss = AssertFail.
Proof. exact checkpoint_two_forms_rejected. Qed.
Print Assumptions c06_checkpoint_two_forms_rejected.

(* for every checkpoint k epochs after e0 that lies before the budget (no epoch
   in between reaches it), the uninterrupted run is the k whole epochs followed
   by exactly the resumed run — same indices, same announced epoch numbers, same
   passes, same stopping point.  The side samplers are objects with a state of
   their own: the resumed run continues with the iteration numbers
   [pn_after e0 pn k] the uninterrupted run has reached (for samplers that yield
   the same order every time the numbers are immaterial) *)
Theorem c06_resume_is_suffix : forall c mi, WF c mi -> forall k e0 pn n, length pn = length (sides c) ->
  no_hit_in c mi e0 k ->
  run c mi (k + n) (start_state c e0 pn) =
  option_map (app (epochs_events c mi e0 pn k))
             (run c mi n (start_state c (e0 + Z.of_nat k) (pn_after c mi e0 pn k))).
Proof. exact resume_is_suffix. Qed.
Print Assumptions c06_resume_is_suffix.

(* "strictly before the budget" in closed form is enough: if the beginning of
   epoch e0 + k lies strictly before every given budget, no earlier epoch stops the run *)
Theorem c06_before_budget_no_hit : forall c mi, WF c mi -> forall k e0,
  before_budget c (e0 + Z.of_nat k) -> no_hit_in c mi e0 k.
Proof. exact before_no_hit. Qed.
Print Assumptions c06_before_budget_no_hit.

Theorem c06_resume_before_budget : forall c mi, WF c mi -> forall k e0 pn n, length pn = length (sides c) ->
  before_budget c (e0 + Z.of_nat k) ->
  run c mi (k + n) (start_state c e0 pn) =
  option_map (app (epochs_events c mi e0 pn k))
             (run c mi n (start_state c (e0 + Z.of_nat k) (pn_after c mi e0 pn k))).
Proof. exact resume_before_budget. Qed.
Print Assumptions c06_resume_before_budget.

(* start_epoch = e gives exactly the state resume_is_suffix is about *)
Theorem c06_start_epoch_state : forall c e,
  init_checkpoint c (StartEpoch e) = Start e (upe c * e) (spe c * e).
Proof. reflexivity. Qed.
Print Assumptions c06_start_epoch_state.

(* objects have histories.  The InterleavedSampler carries no state from one
   iteration to the next and reads nothing the shared main sampler object held
   before: its stream is a function of the constructed attributes (and of the
   side sampler objects' own iteration counts) only - a second iteration, an
   iteration after an abandoned one, after another scheduler used the same main
   sampler, or after a foreign set_epoch yields what the first iteration of a
   fresh object yields.  (Immediate in the model - the point is that the harness
   runs the REAL object through such histories and compares with [iterate].) *)
Theorem c06_iteration_independent_of_history : forall c mi e u s w1 w2,
  w_pcs w1 = w_pcs w2 -> iterate c mi e u s w1 = iterate c mi e u s w2.
Proof. exact iteration_independent_of_history. Qed.
Print Assumptions c06_iteration_independent_of_history.

(* ... because the start epoch is announced at the START of every iteration (and
   every later epoch before its iteration starts): whatever the main sampler
   object held before the run ([ann] arbitrary: a stale epoch, None), at each
   call of its __iter__ it holds exactly the epoch whose iteration the loop
   consumes *)
Theorem c06_epoch_held_at_iter_start : forall c mi, WF c mi -> forall n e0 pn tr,
  length pn = length (sides c) -> run c mi n (start_state c e0 pn) = Some tr ->
  forall ann, held ann tr = map Some (iter_labels tr).
Proof. exact held_at_iter_start. Qed.
Print Assumptions c06_epoch_held_at_iter_start.

Example c06_premises_satisfiable :
  WF ex_cfg ex_iter /\ no_hit_in ex_cfg ex_iter 0 1 /\ before_budget ex_cfg (0 + Z.of_nat 1) /\ drop_last ex_cfg = true.
Proof.
  split; [exact ex_wf|]. split; [vm_compute; auto|]. split; [|reflexivity].
  unfold before_budget. cbn. repeat split; try discriminate; intros ? H; inversion H; reflexivity.
Qed.
Example c06_example :
  run ex_cfg ex_iter 3 (start_state ex_cfg 0 [0; 0]%nat) =
  option_map (app (epochs_events ex_cfg ex_iter 0 [0; 0]%nat 1))
             (run ex_cfg ex_iter 2 (start_state ex_cfg 1 (pn_after ex_cfg ex_iter 0 [0; 0]%nat 1))).
Proof. vm_compute. reflexivity. Qed.
Example c06_example_held :
  option_map (held (Some 7)) (run ex_cfg ex_iter 2 (start_state ex_cfg 1 [0; 0]%nat)) = Some [Some 1]
  /\ option_map (held None) (run ex_cfg ex_iter 4 (start_state ex_cfg 0 [0; 0]%nat)) = Some [Some 0; Some 1].
Proof. vm_compute. split; reflexivity. Qed.
