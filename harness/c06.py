"""C06 — resuming the interleaved scheduler yields the suffix of the uninterrupted run."""
from . import interleaved as I
from . import c04
from .common import coq

ID = "C06"
COQ_FILES = I.COQ_FILES + ["C04/PropertyC06.v"]
COQ_PRELUDE = I.COQ_PRELUDE
COQ_CHECK = "check"
COQ_CASE_TYPE = "case_t"
TRUSTED = I.TRUSTED
ASSUMPTIONS = c04.ASSUMPTIONS + ["checkpoints on epoch boundaries strictly before the budget"]
RULE = ("generator of C04 restricted to cases with a start checkpoint (start_epoch / start_update / start_sample, "
        "80% on epoch boundaries); the resumed stream is compared with the tail of a fresh run of the real code; "
        "non-trivial = resumed run accepted and shorter than the fresh one; distinct by (geometry,budget,start,configs)")
search_cases = I.search_cases
shrink = I.shrink
run_impl = I.run_impl
coq_applicable = c04.coq_applicable
coq_case = c04.coq_case
features = c04.features


def gen_cases(rng, tier):
    out = []
    n = 600 if tier == "quick" else 5000
    tries = 0
    while len(out) < n and tries < 100 * n:
        tries += 1
        c = I.gen_case(rng, big=(tier == "thorough" and rng.random() < 0.3))
        if c["start"] is not None:
            out.append(c)
    return out


def search_cases(rng, tier):  # noqa: F811
    for c in I.search_cases(rng, tier):
        if c["start"] is not None:
            yield c


def oracle(case, obs):
    if "harness_exception" in obs:
        return "harness exception: " + obs["harness_exception"] + obs.get("tb", "")
    if case["start"] is None:
        return None
    e0 = I.start_epoch_of(case)
    if isinstance(e0, str):
        # not an epoch boundary / not resumable: any explicit refusal is fine, a stream is outside the claim
        return None
    if obs["result"] in ("NotImplementedError",):
        return None  # explicit refusal is an acceptable answer
    if obs["result"] != "ok":
        return f"resumed run: {obs['result']}"
    fresh = obs.get("fresh", [])
    try:
        k = fresh.index(["E", e0])
    except ValueError:
        return f"fresh run never reaches epoch {e0} although the checkpoint lies before the budget"
    tail = fresh[k:]
    if tail != obs["log"]:
        d = next((i for i in range(min(len(tail), len(obs["log"]))) if tail[i] != obs["log"][i]),
                 min(len(tail), len(obs["log"])))
        return (f"resumed stream differs from the uninterrupted run's suffix at event {d}: "
                f"uninterrupted {tail[d:d + 8]} resumed {obs['log'][d:d + 8]} "
                f"(lengths {len(tail)} vs {len(obs['log'])})")
    return None


def nontrivial_key(case, obs):
    if obs.get("result") != "ok" or case["start"] is None or len(obs.get("fresh", [])) <= len(obs["log"]):
        return None
    return (case["N"], case["B"], case["drop_last"], case["D"], tuple(case["budget"]), tuple(case["start"]),
            len(case["sides"]))
