(* C01 -- iterator objects of a ModeWrapper (Model.it_next / it_rest / run_ops) and the exact 'ctx.<key>' suffix:
   proofs.  Statements are repeated in Property.v. *)
From Coq Require Import ZArith List Bool String Ascii Lia PeanoNat.
Import ListNotations.
From KD Require Import C01.Model C01.Spec.

(* ---------------------------------------------------------------------------------------------------------- *)
(* 'ctx.<key>': the key is exactly what follows the four characters "ctx."                                    *)
(* ---------------------------------------------------------------------------------------------------------- *)
Lemma substring_all : forall s, substring 0 (String.length s) s = s.
Proof. induction s as [|c s IH]; simpl; [reflexivity | now rewrite IH]. Qed.

Lemma classify_ctx_suffix : forall key, classify ("ctx." ++ key) = Ctx key.
Proof.
  intro key. unfold classify. simpl.
  replace (prefix "" key) with true by (now destruct key).
  replace (String.length key - 0)%nat with (String.length key) by lia.
  now rewrite substring_all.
Qed.

Lemma classify_ctx_injective : forall k1 k2, classify ("ctx." ++ k1) = classify ("ctx." ++ k2) -> k1 = k2.
Proof. intros k1 k2. rewrite !classify_ctx_suffix. intro H. now injection H. Qed.

(* an item is read from the ctx only if it starts with "ctx.", and then with exactly its remainder as key *)
Lemma prefix_split : forall p s, prefix p s = true -> exists r, s = (p ++ r)%string.
Proof.
  induction p as [|c p IH]; intros s H.
  - now exists s.
  - destruct s as [|d s]; simpl in H; [discriminate|].
    destruct (Ascii.ascii_dec c d) as [->|]; [|discriminate].
    destruct (IH _ H) as [r ->]. now exists r.
Qed.

Lemma classify_ctx_only_prefixed : forall s key, classify s = Ctx key -> s = ("ctx." ++ key)%string.
Proof.
  intros s key. unfold classify.
  destruct (String.eqb s "index"); [discriminate|].
  destruct (prefix "ctx." s) eqn:P; [|discriminate].
  destruct (prefix_split _ _ P) as [r ->]. intro H. injection H as <-. simpl.
  replace (String.length r - 0)%nat with (String.length r) by lia.
  now rewrite substring_all.
Qed.

Section IterProofs.
  Variable value : Type.
  Variable vint : Z -> value.
  Variable proj : value -> nat -> value.
  Variable st : stack value.
  Variable m : mwrap.

  Local Notation run_op := (run_op value vint proj st m).
  Local Notation run_ops := (run_ops value vint proj st m).
  Local Notation it_next := (it_next value vint proj st m).
  Local Notation it_rest := (it_rest value vint proj st m).
  Local Notation it_rest_from := (it_rest_from value vint proj st m).
  Local Notation gi := (getitem_int value vint proj st m).

  (* 'ctx.<key>' reads exactly ctx[key] *)
  Lemma call_ctx_exact : forall key idx d,
    call value vint st (classify ("ctx." ++ key)) idx (Some d) =
    match lookup value key d with Some v => Some (v, Some d) | None => None end.
  Proof. intros. now rewrite classify_ctx_suffix. Qed.

  (* does step o concern iterator k *)
  Definition touches (k : nat) (o : op) : bool :=
    match o with OpIter j | OpNext j | OpRest j => Nat.eqb j k | _ => false end.

  (* the results of the steps that concern iterator k *)
  Definition on_k (k : nat) (ops : list op) (rs : list (opres value)) : list (opres value) :=
    map snd (filter (fun p => touches k (fst p)) (combine ops rs)).

  Lemma upd_same : forall f k v, upd f k v k = v.
  Proof. intros. unfold upd. now rewrite Nat.eqb_refl. Qed.

  Lemma upd_other : forall f j k v, Nat.eqb j k = false -> upd f j v k = f k.
  Proof. intros f j k v H. unfold upd. now rewrite Nat.eqb_sym, H. Qed.

  (* a step that does not concern iterator k leaves it alone *)
  Lemma run_op_frame : forall f o k, touches k o = false -> snd (run_op f o) k = f k.
  Proof.
    intros f o k H. destruct o as [i| |j|j|j]; simpl in *; try reflexivity.
    - now apply upd_other.
    - destruct (it_next (f j)) as [r s]. simpl. now apply upd_other.
    - destruct (it_rest (f j)) as [l s]. simpl. now apply upd_other.
  Qed.

  (* a step that concerns iterator k sees only iterator k *)
  Lemma run_op_local : forall f g o k, touches k o = true -> f k = g k ->
    fst (run_op f o) = fst (run_op g o) /\ snd (run_op f o) k = snd (run_op g o) k.
  Proof.
    intros f g o k H E. destruct o as [i| |j|j|j]; simpl in *; try discriminate;
      apply Nat.eqb_eq in H; subst j.
    - split; [reflexivity | now rewrite !upd_same].
    - rewrite E. destruct (it_next (g k)) as [r s]. simpl. split; [reflexivity | now rewrite !upd_same].
    - rewrite E. destruct (it_rest (g k)) as [l s]. simpl. split; [reflexivity | now rewrite !upd_same].
  Qed.

  Lemma run_ops_cons : forall f o r,
    run_ops f (o :: r) = (fst (run_op f o) :: fst (run_ops (snd (run_op f o)) r), snd (run_ops (snd (run_op f o)) r)).
  Proof.
    intros. simpl. destruct (run_op f o) as [x f']. simpl. now destruct (run_ops f' r).
  Qed.

  Lemma run_ops_fst : forall f o r,
    fst (run_ops f (o :: r)) = fst (run_op f o) :: fst (run_ops (snd (run_op f o)) r).
  Proof. intros. now rewrite run_ops_cons. Qed.

  Lemma run_ops_snd : forall f o r, snd (run_ops f (o :: r)) = snd (run_ops (snd (run_op f o)) r).
  Proof. intros. now rewrite run_ops_cons. Qed.

  (* Projection: what the steps concerning iterator k return, inside ANY history, is what they return when they are
     run alone -- the other iterators, indexing and len() in between do not matter (and the other way round). *)
  Lemma independent_gen : forall ops f g k, f k = g k ->
    on_k k ops (fst (run_ops f ops)) = fst (run_ops g (filter (touches k) ops)) /\
    snd (run_ops f ops) k = snd (run_ops g (filter (touches k) ops)) k.
  Proof.
    induction ops as [|o r IH]; intros f g k E.
    - simpl. now split.
    - rewrite run_ops_fst, run_ops_snd. unfold on_k. simpl combine. simpl filter. simpl fst at 1.
      destruct (touches k o) eqn:T.
      + rewrite run_ops_fst, run_ops_snd. simpl map.
        destruct (run_op_local f g o k T E) as [H1 H2].
        destruct (IH (snd (run_op f o)) (snd (run_op g o)) k H2) as [I1 I2].
        split; [rewrite H1; f_equal; apply I1 | exact I2].
      + apply IH. now rewrite run_op_frame.
  Qed.

  Lemma iterators_project_lemma : forall ops f k,
    on_k k ops (fst (run_ops f ops)) = fst (run_ops f (filter (touches k) ops)).
  Proof. intros. exact (proj1 (independent_gen ops f f k eq_refl)). Qed.

  (* ---- what one iterator yields ---- *)
  (* the samples an iterator in state s still has to hand out: p, p+1, ..., len-1, up to and including the first one
     that raises *)
  Definition remaining (s : itstate) : list (res value) :=
    match s with
    | None => []
    | Some p => it_rest_from (Z.to_nat (s_len value st) - p) p
    end.

  Lemma it_next_remaining : forall s,
    fst (it_next s) = hd_error (remaining s) /\ remaining (snd (it_next s)) = tl (remaining s).
  Proof.
    intros [p|]; simpl; [|now split].
    destruct (Z.of_nat p <? s_len value st)%Z eqn:L.
    - apply Z.ltb_lt in L.
      replace (Z.to_nat (s_len value st) - p)%nat with (S (Z.to_nat (s_len value st) - S p)) by lia.
      simpl. destruct (res_is_err value (gi (Z.of_nat p))); simpl; now split.
    - apply Z.ltb_ge in L.
      replace (Z.to_nat (s_len value st) - p)%nat with 0%nat by lia. simpl. now split.
  Qed.

  Lemma it_rest_remaining : forall s, it_rest s = (remaining s, None).
  Proof. now intros [p|]. Qed.

  Lemma nexts_yield_remaining : forall n f k,
    fst (run_ops f (repeat (OpNext k) n)) = map (fun j => PNext (nth_error (remaining (f k)) j)) (seq 0 n).
  Proof.
    induction n as [|n IH]; intros f k; [reflexivity|].
    simpl repeat. rewrite run_ops_fst. simpl seq. simpl map. f_equal.
    - simpl. destruct (it_next_remaining (f k)) as [H _].
      destruct (it_next (f k)) as [r s]. simpl in *. rewrite H. now destruct (remaining (f k)).
    - rewrite IH. rewrite <- seq_shift, map_map. apply map_ext. intro j.
      simpl. destruct (it_next_remaining (f k)) as [_ H].
      destruct (it_next (f k)) as [r s]. simpl in *. rewrite upd_same, H.
      destruct (remaining (f k)); [now destruct j | reflexivity].
  Qed.

  (* the samples of one full pass: 0 .. len-1, up to and including the first one that raises *)
  Definition stream : list (res value) := remaining (Some 0%nat).

  Fixpoint cut_at_err (l : list (res value)) : list (res value) :=
    match l with
    | [] => []
    | r :: t => if res_is_err value r then [r] else r :: cut_at_err t
    end.

  Lemma it_rest_from_cut : forall fuel p,
    it_rest_from fuel p = cut_at_err (map (fun k => gi (Z.of_nat k)) (seq p fuel)).
  Proof.
    induction fuel as [|fuel IH]; intro p; [reflexivity|].
    simpl. destruct (res_is_err value (gi (Z.of_nat p))); [reflexivity | now rewrite IH].
  Qed.

  (* ... i.e. the model's __iter__ (Model.iter: [self[0], ..., self[len-1]]) cut after the first failing sample *)
  Lemma stream_is_iter : stream = cut_at_err (iter value vint proj st m).
  Proof. unfold stream, remaining, iter. rewrite Nat.sub_0_r. apply it_rest_from_cut. Qed.

  Lemma cut_no_err : forall l, forallb (fun r => negb (res_is_err value r)) l = true -> cut_at_err l = l.
  Proof.
    induction l as [|r t IH]; [reflexivity|]. simpl. intro H. apply andb_prop in H as [H1 H2].
    destruct (res_is_err value r); [discriminate | now rewrite IH].
  Qed.

  (* Iterator k is created once and then only advanced with next(), n times, in a history that does anything else in
     between (other iterators created / advanced / exhausted, indexing, len): the j-th next returns sample j of the
     pass -- StopIteration (None) from the end of the pass on. *)
  Lemma iterators_independent_lemma : forall ops f k n,
    filter (touches k) ops = OpIter k :: repeat (OpNext k) n ->
    on_k k ops (fst (run_ops f ops)) = PIter :: map (fun j => PNext (nth_error stream j)) (seq 0 n).
  Proof.
    intros ops f k n H.
    destruct (independent_gen ops f f k eq_refl) as [E _]. rewrite E, H.
    rewrite run_ops_fst. simpl fst at 1. f_equal.
    rewrite nexts_yield_remaining. simpl. now rewrite upd_same.
  Qed.

  (* ... and a for-loop / list(it) after j next() calls gets the rest of the pass: nothing twice, nothing missing *)
  Lemma peek_then_rest_lemma : forall ops f k j,
    filter (touches k) ops = OpIter k :: repeat (OpNext k) j ++ [OpRest k] ->
    on_k k ops (fst (run_ops f ops)) =
    PIter :: map (fun i => PNext (nth_error stream i)) (seq 0 j) ++ [PRest (skipn j stream)].
  Proof.
    intros ops f k j H.
    destruct (independent_gen ops f f k eq_refl) as [E _]. rewrite E, H. clear E H.
    rewrite run_ops_fst. simpl fst at 1. f_equal. simpl snd.
    assert (G : forall n g, fst (run_ops g (repeat (OpNext k) n ++ [OpRest k])) =
                            map (fun i => PNext (nth_error (remaining (g k)) i)) (seq 0 n) ++ [PRest (skipn n (remaining (g k)))]).
    { induction n as [|n IH]; intro g.
      - simpl. rewrite it_rest_remaining. reflexivity.
      - simpl repeat. simpl app. rewrite run_ops_fst. simpl seq. simpl map. simpl app. f_equal.
        + simpl. destruct (it_next_remaining (g k)) as [Hh _].
          destruct (it_next (g k)) as [r s]. simpl in *. rewrite Hh. now destruct (remaining (g k)).
        + rewrite IH. simpl. destruct (it_next_remaining (g k)) as [_ Ht].
          destruct (it_next (g k)) as [r s]. simpl in *. rewrite upd_same, Ht.
          rewrite <- seq_shift, map_map. f_equal.
          * apply map_ext. intro i. destruct (remaining (g k)); [now destruct i | reflexivity].
          * destruct (remaining (g k)); [now destruct n | reflexivity]. }
    rewrite G. now rewrite upd_same.
  Qed.

  (* ---- the state machine of the model = the stateless reading "count back to the creation of the iterator" ---- *)
  (* how a step ended, as the harness records it (only "0 or not" matters) *)
  Definition kind_of (x : opres value) : nat :=
    match x with
    | PNext None => 6
    | PNext (Some RErr) => 2
    | PNext (Some RIndexErr) => 3
    | _ => 0
    end.

  (* the history interpreted WITHOUT iterator states: every step on an iterator is answered from the steps before it
     (Spec.next_due / rest_due) *)
  Fixpoint spec_ops (past : list (op * nat)) (ops : list op) : list (opres value) :=
    match ops with
    | [] => []
    | o :: r =>
        let x := match o with
                 | OpGet i => PGet (getitem value vint proj st m i)
                 | OpLen => PLen (mw_len value st)
                 | OpIter _ => PIter
                 | OpNext k => PNext (option_map (fun j => gi (Z.of_nat j)) (next_due (s_len value st) k past))
                 | OpRest k => PRest (cut_at_err (map (fun j => gi (Z.of_nat j)) (rest_due (s_len value st) k past)))
                 end in
        x :: spec_ops ((o, kind_of x) :: past) r
    end.

  Lemma yielded_shift : forall k past c,
    yielded_since_iter k past (S c) = option_map S (yielded_since_iter k past c).
  Proof.
    induction past as [|[o kd] r IH]; intro c; [reflexivity|].
    destruct o as [i| |j|j|j]; simpl; try apply IH.
    - destruct (Nat.eqb j k); [reflexivity | apply IH].
    - destruct (Nat.eqb j k); [|apply IH]. destruct (Nat.eqb kd 0); [apply IH | reflexivity].
    - destruct (Nat.eqb j k); [reflexivity | apply IH].
  Qed.

  Lemma counting_gen : forall ops f past,
    (forall k, f k = yielded_since_iter k past 0) ->
    fst (run_ops f ops) = spec_ops past ops.
  Proof.
    induction ops as [|o r IH]; intros f past INV; [reflexivity|].
    rewrite run_ops_fst. simpl spec_ops.
    destruct o as [i| |j|j|j].
    - simpl. f_equal. apply IH. intro k. simpl. apply INV.
    - simpl. f_equal. apply IH. intro k. simpl. apply INV.
    - simpl. f_equal. apply IH. intro k. simpl. unfold upd.
      rewrite (Nat.eqb_sym k j). destruct (Nat.eqb j k); [reflexivity | apply INV].
    - (* next *)
      pose proof (INV j) as Ij.
      simpl run_op. destruct (it_next (f j)) as [x s'] eqn:N. simpl fst. simpl snd.
      assert (RX : x = option_map (fun p => gi (Z.of_nat p)) (next_due (s_len value st) j past) /\
                   s' = if Nat.eqb (kind_of (PNext x)) 0 then yielded_since_iter j past 1 else None).
      { unfold next_due. rewrite <- Ij. unfold Model.it_next in N. destruct (f j) as [p|].
        - destruct (Z.of_nat p <? s_len value st)%Z.
          + destruct (gi (Z.of_nat p)) eqn:G; simpl in N; injection N as <- <-; simpl; rewrite ?G;
              (split; [reflexivity|]); try reflexivity; now rewrite yielded_shift, <- Ij.
          + injection N as <- <-. now split.
        - injection N as <- <-. now split. }
      destruct RX as [RX RS]. rewrite <- RX. f_equal. apply IH. intro k.
      simpl. unfold upd. rewrite (Nat.eqb_sym k j).
      destruct (Nat.eqb j k) eqn:E.
      + apply Nat.eqb_eq in E. subst k. exact RS.
      + apply INV.
    - (* for-loop *)
      assert (R : fst (run_op f (OpRest j)) =
                  PRest (cut_at_err (map (fun p => gi (Z.of_nat p)) (rest_due (s_len value st) j past)))).
      { simpl. unfold rest_due. rewrite <- INV. destruct (f j) as [p|]; simpl; [|reflexivity].
        now rewrite it_rest_from_cut. }
      rewrite R. f_equal. apply IH. intro k. simpl. rewrite it_rest_remaining. simpl. unfold upd.
      rewrite (Nat.eqb_sym k j).
      destruct (Nat.eqb j k) eqn:E; [reflexivity | apply INV].
  Qed.

  Lemma model_is_counting_spec_lemma : forall ops, fst (run_ops no_its ops) = spec_ops [] ops.
  Proof. intro ops. apply counting_gen. reflexivity. Qed.
End IterProofs.
