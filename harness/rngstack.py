"""Live dataset stacks for the generator-plumbing checks C08 (seeded sample wrappers) and C09 (worker
initialisation): toy root dataset, builders for wrapper stacks from JSON specs, extraction of the live stack
(wrapper objects with their transform trees, dataset classes, registered collators), the patched
np.random.default_rng that hands out tagged spy generators, attribution of draws to per-item requests, and the
rendering of stacks into the Coq types of RngGraph.v."""
import inspect

from . import rnglive as L
from .common import C, Raw, Str, coq

X_WRAPPERS = {"XTransformWrapper": "x", "YTransformWrapper": "y", "TargetTransformWrapper": "target",
              "SourceTransformWrapper": "source"}
N_CLASSES = 4


# ---------------------------------------------------------------------------
# toy root dataset
# ---------------------------------------------------------------------------
def toy_root(kind, N, S, collators=None):
    """KDDataset with x (tensor image or PIL image), y/target/source (tensor images), class, semseg"""
    import torch
    from kappadata.datasets.kd_dataset import KDDataset
    from torchvision.transforms.functional import to_pil_image

    class ToyDataset(KDDataset):
        def __init__(self):
            super().__init__(collators=collators)
            g = torch.Generator().manual_seed(977 + N + S)
            self.xs = [torch.rand(3, S, S, generator=g) for _ in range(N)]
            self.segs = [torch.randint(0, 4, (S, S), generator=g) for _ in range(N)]
            self.kind = kind

        def __len__(self):
            return N

        def getitem_x(self, idx, ctx=None):
            x = self.xs[int(idx)].clone()
            return to_pil_image(x) if self.kind == "pil" else x

        def getitem_y(self, idx, ctx=None):
            return self.xs[int(idx)].clone()

        def getitem_target(self, idx, ctx=None):
            return self.xs[int(idx)].flip(0).clone()

        def getitem_source(self, idx, ctx=None):
            return self.xs[int(idx)].flip(1).clone()

        def getitem_class(self, idx, ctx=None):
            return int(idx) % N_CLASSES

        def getshape_class(self):
            return (N_CLASSES,)

        def getitem_semseg(self, idx, ctx=None):
            return self.segs[int(idx)].clone()

    return ToyDataset()


def exc_info(e):
    """["EXC", type, message, file of the innermost kappadata frame (relative)] - who raised"""
    import os
    import traceback
    from . import common
    where = ""
    for fr in traceback.extract_tb(e.__traceback__):
        fn = os.path.abspath(fr.filename)
        root = os.path.join(os.path.abspath(common.KD_REPO), "kappadata") + os.sep
        if fn.startswith(root):
            where = fn[len(root):]
    return ["EXC", type(e).__name__, str(e)[:160], where]


def build_collator(spec, mode):
    import kappadata.collators as kc
    c = spec["c"]
    if c == "KDMixCollator":
        return kc.KDMixCollator(mixup_alpha=0.8, mixup_p=1.0, apply_mode=spec.get("apply", "batch"),
                                lamb_mode=spec.get("lamb", "batch"), shuffle_mode=spec.get("shuffle", "roll"),
                                dataset_mode=mode, return_ctx=False)
    if c == "KDDinoMaskCollator":
        return kc.KDDinoMaskCollator(mask_ratio=(0.1, 0.5), mask_prob=0.5, mask_size=(4, 4), num_views=2,
                                     dataset_mode=mode, return_ctx=True)
    if c == "KDIjepaMaskCollator":
        return kc.KDIjepaMaskCollator(input_size=(32, 32), patch_size=8, encoder_mask_scale=(0.85, 1.0),
                                      predictor_mask_scale=(0.15, 0.2), predictor_aspect_ratio=(0.75, 1.5),
                                      num_enc_masks=1, num_pred_masks=2, min_keep=1,
                                      dataset_mode=mode, return_ctx=True)
    if c == "PadSequencesCollator":
        return kc.PadSequencesCollator(dataset_mode=mode, return_ctx=False)
    raise KeyError(c)


# ---------------------------------------------------------------------------
# stacks from specs
#   spec = {"root": {"kind": "img"|"pil", "N": n, "S": s, "col": [collator specs]},
#           "layers": [layer, ...] (bottom-up), "mode": "x class"}
#   "concat" layers hold complete sub-stacks
# ---------------------------------------------------------------------------
def build_layer(ds, l, S):
    import kappadata.wrappers as kw
    import kappadata.common.wrappers as kcw
    from kappadata.datasets.kd_subset import KDSubset
    from kappadata.datasets.kd_concat_dataset import KDConcatDataset
    w = l["w"]
    if w in X_WRAPPERS:
        return getattr(kw, w)(ds, transform=L.build(l["t"], S), seed=l.get("seed"))
    if w == "ImagenetMinaugXTransformWrapper":
        return kcw.ImagenetMinaugXTransformWrapper(ds, size=S, seed=l.get("seed"))
    if w == "ImagenetNoaugXTransformWrapper":
        return kcw.ImagenetNoaugXTransformWrapper(ds, resize_size=S, center_crop_size=S - 4)
    if w == "KDMultiViewWrapper":
        return kw.KDMultiViewWrapper(ds, configs=[(n, L.build(t, S)) for n, t in l["cfg"]], seed=l.get("seed"))
    if w == "ByolMultiViewWrapper":
        return kcw.ByolMultiViewWrapper(ds, seed=l.get("seed"))
    if w == "ImagenetMinaugMultiViewWrapper":
        return kcw.ImagenetMinaugMultiViewWrapper(ds, n_views=l.get("n", 2), size=S, seed=l.get("seed"))
    if w == "MUGSMultiViewWrapper":
        return kcw.MUGSMultiViewWrapper(ds, global_size=S, local_size=max(S // 2, 8), num_local_crops=l.get("nloc", 2),
                                        seed=l.get("seed"))
    if w == "KDMixWrapper":
        return kw.KDMixWrapper(ds, mixup_p=l.get("p", 0.7), mixup_alpha=l.get("alpha", 0.8), seed=l.get("seed"))
    if w == "SemsegTransformWrapper":
        return kw.SemsegTransformWrapper(ds, transforms=[L.build(t, S) for t in l["ts"]], seed=l.get("seed"))
    if w == "SubsetWrapper":
        return kw.SubsetWrapper(ds, indices=list(l["idx"]))
    if w == "KDSubset":
        return KDSubset(ds, list(l["idx"]))
    if w == "ShuffleWrapper":
        return kw.ShuffleWrapper(ds, seed=l["seed"])
    if w == "RepeatWrapper":
        return kw.RepeatWrapper(ds, repetitions=l.get("r", 2))
    if w == "LabelSmoothingWrapper":
        return kw.LabelSmoothingWrapper(ds, smoothing=0.1)
    if w == "concat":
        return KDConcatDataset([ds] + [build_inner(o) for o in l["others"]])
    raise KeyError(w)


def build_root(spec):
    root = spec["root"]
    cols = [build_collator(c, spec.get("mode", "x")) for c in root.get("col", [])] or None
    return toy_root(root["kind"], root["N"], root["S"], collators=cols)


def build_inner(spec, root_ds=None):
    root = spec["root"]
    ds = build_root(spec) if root_ds is None else root_ds
    for l in spec["layers"]:
        ds = build_layer(ds, l, root["S"])
    return ds


def build_stack(spec):
    """-> ModeWrapper(stack, mode)   (or _InterleavedConcatDataset of ModeWrappers for spec["interleaved"])"""
    from kappadata.wrappers import ModeWrapper
    if "interleaved" in spec:
        from kappadata.samplers.interleaved_sampler import _InterleavedConcatDataset
        if spec.get("share_root"):
            # main and interleaved datasets over ONE root object (the train set as main dataset and for a periodic
            # evaluation), each under its own wrapper stack; the root is described by the first sub-stack
            shared = build_root(spec["interleaved"][0])
            return _InterleavedConcatDataset([ModeWrapper(build_inner(s, shared), mode=s["mode"])
                                              for s in spec["interleaved"]])
        return _InterleavedConcatDataset([build_stack(s) for s in spec["interleaved"]])
    return ModeWrapper(build_inner(spec), mode=spec["mode"])


def stack_len(spec):
    n = spec["root"]["N"]
    for l in spec["layers"]:
        if l["w"] in ("SubsetWrapper", "KDSubset"):
            n = len(l["idx"])
        elif l["w"] == "RepeatWrapper":
            n *= l.get("r", 2)
        elif l["w"] == "concat":
            n += sum(stack_len(o) for o in l["others"])
    return n


def spec_sig(spec):
    if "interleaved" in spec:
        return ("ILshared[" if spec.get("share_root") else "IL[") + "|".join(spec_sig(s) for s in spec["interleaved"]) + "]"

    def lsig(l):
        w = l["w"]
        s = w
        if "t" in l:
            s += "(" + L.spec_sig(l["t"]) + ")"
        if "cfg" in l:
            s += "(" + ",".join(f"{n}x{L.spec_sig(t)}" for n, t in l["cfg"]) + ")"
        if "ts" in l:
            s += "(" + ",".join(L.spec_sig(t) for t in l["ts"]) + ")"
        if w == "concat":
            s += "(" + ",".join(spec_sig(o) for o in l["others"]) + ")"
        if l.get("seed") is not None and w != "ShuffleWrapper":
            s += "#"
        return s

    cols = "+".join(c["c"] for c in spec["root"].get("col", []))
    return spec["root"]["kind"] + (("{" + cols + "}") if cols else "") + ">" + ">".join(lsig(l) for l in spec["layers"])


# ---------------------------------------------------------------------------
# the live stack
# ---------------------------------------------------------------------------
def _is_node(v):
    return isinstance(v, L._node_base()) or L.is_foreign(v)


def wrapper_kids(obj):
    """transform-valued attributes of a live sample wrapper -> [(field, [members])] sorted by field name;
    multi-view configs contribute their transforms; a list that only repeats members of other fields is an alias"""
    from kappadata.wrappers.sample_wrappers.kd_multi_view_wrapper import KDMultiViewConfig
    out = []
    for name, v in sorted(vars(obj).items()):
        if name == "dataset":
            continue
        if _is_node(v):
            out.append((name, [v]))
        elif isinstance(v, (list, tuple)) and len(v) > 0:
            if all(isinstance(e, KDMultiViewConfig) for e in v):
                out.append((name, [e.transform for e in v if _is_node(e.transform)]))
            elif all(_is_node(e) for e in v):
                out.append((name, list(v)))
    single = {id(m) for f, ms in out if len(ms) == 1 for m in ms}
    return [(f, ms) for f, ms in out if not (len(ms) > 1 and all(id(m) in single for m in ms))]


def live_wobj(obj, slot_of=L.slot_desc):
    return [type(obj).__name__, [[f, [L.live_tree(m, slot_of) for m in ms]] for f, ms in wrapper_kids(obj)]]


def wobj_slots(w):
    out = []
    for f, ms in w[1]:
        for m in ms:
            out += L.tree_slots(m)
    return out


def sample_wrappers(ds):
    """all KDWrapper objects of a stack, top-down (sub-stacks of concats included)"""
    from kappadata.datasets.kd_wrapper import KDWrapper
    out = []

    def go(d):
        if isinstance(d, KDWrapper):
            out.append(d)
        if "datasets" in vars(d):
            for x in d.datasets:
                go(x)
        elif "dataset" in vars(d):
            go(d.dataset)

    go(ds)
    return out


def root_datasets(ds):
    out = []

    def go(d):
        if "datasets" in vars(d):
            for x in d.datasets:
                go(x)
        elif "dataset" in vars(d):
            go(d.dataset)
        else:
            out.append(d)

    go(ds)
    return out


def live_stack(ds, slot_of=L.slot_desc):
    """-> ["root", [collator trees]] | ["wrap", wobj, inner] | ["fwd", class name, [inner...]]
    the class name of a forwarding node is the class that DEFINES its worker_init_fn"""
    from kappadata.datasets.kd_wrapper import KDWrapper
    from kappadata.datasets.kd_dataset import KDDataset
    if isinstance(ds, KDWrapper):
        definer = next(c for c in type(ds).__mro__ if "worker_init_fn" in vars(c))
        if definer is not KDWrapper:
            return ["fwd", "<" + type(ds).__name__ + " overrides worker_init_fn>", [live_stack(ds.dataset, slot_of)]]
        return ["wrap", live_wobj(ds, slot_of), live_stack(ds.dataset, slot_of)]
    if "datasets" in vars(ds) or "dataset" in vars(ds):
        definer = next((c for c in type(ds).__mro__ if "worker_init_fn" in vars(c)), None)
        name = definer.__name__ if definer is not None else "<" + type(ds).__name__ + " has no worker_init_fn>"
        inner = list(ds.datasets) if "datasets" in vars(ds) else [ds.dataset]
        return ["fwd", name, [live_stack(x, slot_of) for x in inner]]
    definer = next((c for c in type(ds).__mro__ if "worker_init_fn" in vars(c)), None)
    if definer is not KDDataset:
        return ["fwd", "<" + type(ds).__name__ + " root overrides worker_init_fn>", []]
    return ["root", [L.live_tree(c, slot_of) for c in ds.collators]]


def stack_slots(s):
    if s[0] == "root":
        out = []
        for t in s[1]:
            out += L.tree_slots(t)
        return out
    if s[0] == "wrap":
        return wobj_slots(s[1]) + stack_slots(s[2])
    out = []
    for x in s[2]:
        out += stack_slots(x)
    return out


def slot_objects(ds):
    """every live object with a generator slot, in the order of stack_slots: [(path string, object)]"""
    out = []
    seen = set()

    def visit_tree(root, where):
        def v(o, path):
            if isinstance(o, L._node_base()) and "rng" in vars(o) and id(o) not in seen:
                seen.add(id(o))
                out.append((where + "/" + "/".join(f"{f}[{i}]" for f, i in path) + ":" + type(o).__name__, o))
        L.walk_live(root, v)

    def go(d, where):
        from kappadata.datasets.kd_wrapper import KDWrapper
        if isinstance(d, KDWrapper):
            for f, ms in wrapper_kids(d):
                for i, m in enumerate(ms):
                    visit_tree(m, f"{where}{type(d).__name__}.{f}[{i}]")
            go(d.dataset, where + type(d).__name__ + ">")
        elif "datasets" in vars(d):
            for k, x in enumerate(d.datasets):
                go(x, f"{where}{type(d).__name__}[{k}]>")
        elif "dataset" in vars(d):
            go(d.dataset, where + type(d).__name__ + ">")
        else:
            for k, c in enumerate(d.collators):
                visit_tree(c, f"{where}root.collators[{k}]")

    go(ds, "")
    return out


def worker_copy(ds):
    """what a dataloader worker receives: a deep copy of the dataset; objects of the multiprocessing machinery (the
    shared iteration counter of KDIjepaMaskCollator) stay shared, as they do under fork"""
    import copy
    memo = {}
    for _, o in slot_objects(ds):
        for v in vars(o).values():
            if (type(v).__module__ or "").startswith("multiprocessing"):
                memo[id(v)] = v
    return copy.deepcopy(ds, memo)


def tag_stack_slots(ds, tagname="ctor"):
    """wrap the current generator of every slot of the stack into a spy tagged (tagname, k)"""
    spies = []
    for _, o in slot_objects(ds):
        sp = L.Spy(o.rng, (tagname, len(spies)))
        o.rng = sp
        spies.append(sp)
    return spies


# ---------------------------------------------------------------------------
# what torch.utils.data.get_worker_info() says inside a dataloader worker
# ---------------------------------------------------------------------------
class MockWorkerInfo:
    """while active, torch.utils.data.get_worker_info() - however it was imported - returns a
    WorkerInfo(id, num_workers, seed, dataset) exactly as inside a worker process of a DataLoader(num_workers=n) (it
    reads the module global torch.utils.data._utils.worker._worker_info, which _worker_loop sets); wi = None: no-op
    (main process / manual call).  The hook of the transforms consults the worker info, so a simulated worker has to
    be run under every answer a real one can get."""

    def __init__(self, wi, seed=0, dataset=None):
        self.wi = wi
        self.seed = seed
        self.dataset = dataset

    def __enter__(self):
        if self.wi is None:
            return self
        import torch.utils.data._utils.worker as w
        self.mod = w
        self.prev = w._worker_info
        w._worker_info = w.WorkerInfo(id=int(self.wi[0]), num_workers=int(self.wi[1]), seed=int(self.seed), dataset=self.dataset)
        return self

    def __exit__(self, *a):
        if self.wi is not None:
            self.mod._worker_info = self.prev


# ---------------------------------------------------------------------------
# patched np.random.default_rng
# ---------------------------------------------------------------------------
class PatchedDefaultRng:
    """while active, np.random.default_rng(seed) returns a spy around the real generator, tagged
       mode "inj": ("inj", seed)  /  ("glob", "GFresh") for an unseeded call
       mode "wrk": ("wrk", k) for the k-th call (get_rng_from_global inside worker_init_fn)"""

    def __init__(self, mode):
        self.mode = mode
        self.count = 0
        self.created = []

    def __enter__(self):
        import numpy as np
        self.np = np
        self.orig = np.random.default_rng
        np.random.default_rng = self.factory
        return self

    def __exit__(self, *a):
        self.np.random.default_rng = self.orig

    def factory(self, seed=None, *a, **k):
        g = self.orig(seed, *a, **k)
        if self.mode == "wrk":
            tag = ("wrk", self.count)
        elif seed is None:
            tag = ("glob", "GFresh")
        else:
            try:
                tag = ("inj", int(seed))
            except Exception:  # noqa
                tag = ("glob", "GFresh")
        self.count += 1
        sp = L.Spy(g, tag)
        self.created.append(sp)
        return sp


# ---------------------------------------------------------------------------
# attribution of draws to the per-item code of the wrappers (C08)
# ---------------------------------------------------------------------------
class FrameRecorder:
    """patches (class level, for the duration of a case) the functions that hold the wrappers' per-item code - the
    (class, function) pairs the translator understood - so that every run of one is a frame (wrapper object, idx);
    draws of spy generators are attributed to the innermost frame"""

    # the per-item functions as of this writing: used for classes the translator could not describe (it fails closed
    # on shapes it does not understand, and the failing input still has to be found and reported precisely)
    DEFAULT = [("TransformWrapperBase", "_getitem", "kappadata.wrappers.sample_wrappers.base.transform_wrapper_base"),
               ("KDMultiViewWrapper", "getitem_x", "kappadata.wrappers.sample_wrappers.kd_multi_view_wrapper"),
               ("MUGSMultiViewWrapper", "getitem_x", "kappadata.common.wrappers.sample_wrappers.mugs_multi_view_wrapper"),
               ("KDMixWrapper", "getitem_xclass", "kappadata.wrappers.sample_wrappers.kd_mix_wrapper"),
               ("SemsegTransformWrapper", "getitem_xsemseg", "kappadata.wrappers.sample_wrappers.semseg_transform_wrapper")]

    def __init__(self, info):
        self.pairs = []
        mods = {d["name"]: d["module"] for d in info["wrappers"]}
        for d in info["wrappers"]:
            for cname, fname in d.get("core", []):
                if (cname, fname) not in [(a, b) for a, b, _ in self.pairs]:
                    self.pairs.append((cname, fname, mods.get(cname)))
        described = {a for a, _, _ in self.pairs}
        for cname, fname, modname in self.DEFAULT:
            if cname not in described:
                self.pairs.append((cname, fname, modname))
        self.frames = []
        self.log = []        # {"obj": id, "idx": i, "src": [tags]}
        self.outside = []    # tags of draws outside every frame
        self.saved = []

    def __enter__(self):
        import importlib
        for cname, fname, modname in self.pairs:
            try:
                cls = getattr(importlib.import_module(modname), cname)
                orig = cls.__dict__[fname]
            except Exception:  # noqa
                continue
            self.saved.append((cls, fname, orig))
            setattr(cls, fname, self._wrap(orig))
        L.DRAW_HOOK[0] = self.on_draw
        return self

    def __exit__(self, *a):
        L.DRAW_HOOK[0] = None
        for cls, fname, orig in self.saved:
            setattr(cls, fname, orig)
        self.saved = []

    def _wrap(self, orig):
        sig = inspect.signature(orig)
        rec = self

        def framed(self, *a, **k):
            if rec.frames and rec.frames[-1][0] is self:
                return orig(self, *a, **k)
            idx = sig.bind(self, *a, **k).arguments["idx"]
            entry = {"obj": id(self), "idx": int(idx), "src": []}
            rec.log.append(entry)
            rec.frames.append((self, entry))
            try:
                return orig(self, *a, **k)
            finally:
                rec.frames.pop()

        framed.__name__ = getattr(orig, "__name__", "framed")
        return framed

    def on_draw(self, spy):
        tgt = self.frames[-1][1]["src"] if self.frames else self.outside
        t = list(spy.tag)
        if t not in tgt:
            tgt.append(t)


# ---------------------------------------------------------------------------
# Coq rendering
# ---------------------------------------------------------------------------
def coq_kids(kids):
    return [Raw("(" + coq(Str(f)) + ", " + coq([L.coq_tree(m) for m in ms]) + ")") for f, ms in kids]


def coq_wobj(w):
    return C("WObj", Str(w[0]), coq_kids(w[1]))


def coq_dstack(s):
    if s[0] == "root":
        return C("DRoot", [L.coq_tree(t) for t in s[1]])
    if s[0] == "wrap":
        return C("DWrap", coq_wobj(s[1]), coq_dstack(s[2]))
    return C("DFwd", Str(s[1]), [coq_dstack(x) for x in s[2]])
