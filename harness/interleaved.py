"""Shared machinery for C04/C05/C06: case generation, running the real
InterleavedSampler with recording samplers, the closed-form Python spec
(independent of the Coq model) and the rendering of cases into Coq."""
import random

from .common import C, Nat, Opt, Raw, Rec, coq

MAX_EVENTS = 30000
GEN_EVENTS = 9000          # generated cases are kept below this many expected events

COQ_FILES = ["C04/Model.v", "C04/Spec.v", "C04/Check.v", "C04/Lists.v", "C04/Arith.v", "C04/Sides.v", "C04/Proofs.v",
             "C04/Corollaries.v", "C04/Batches.v", "C04/Bounds.v", "C04/Order.v", "C04/Loader.v", "C04/Passes.v",
             "C04/Example.v"]

TRUSTED = [
    "object histories: the harness runs the real InterleavedSampler objects through construction / iteration "
    "histories on shared main-sampler and config objects (re-iteration, abandoned iterations, other schedulers on "
    "the same objects, foreign set_epoch calls, SIMULTANEOUSLY LIVE iterators over one object / over objects sharing "
    "their samplers, advanced alternately) and compares every iteration with the model of a fresh configuration "
    "(theorem iterations_independent: an iteration is a function of the configuration and what the samplers yield, "
    "it owns its counters); the Coq correspondence covers the final iteration, the earlier / live ones are compared "
    "with the independent Python spec",
    "recording samplers log set_epoch and __iter__ calls; lazy (generator) and eager (order fixed in __iter__) "
    "flavours, torch's DistributedSampler(shuffle=True, num_replicas=1), and the package's own rank-aware samplers "
    "(DistributedSampler / WeightedSampler / ClassBalancedSampler / SemiSampler built for one rank of world_size "
    "1..3) as main and side samplers: their iteration is taken as given (reference = a second instance), only "
    "len(sampler) and the iteration may drive the scheduler; recording mocks carry misleading extra attributes "
    "(effective_length, total_size, num_samples, a second dataset attribute)",
    "hand-written model coq/C04/Model.v of InterleavedSampler (__init__ with all assertions, checkpoint derivation, "
    "index_offsets, __iter__, _eval_loop, _training_loop incl. its batch-size adjustment branches, batch sampler, "
    "concat-dataset lookup, collator dispatch); tied to /repo by this run's correspondence evaluation",
    "harness/interleaved.py: recording samplers, event log, case rendering",
    "recording samplers yield their indices as Python ints, numpy int64 scalars or 0-d torch tensor VIEWS of an index "
    "tensor the sampler object keeps and re-uses on every iteration; yielded values are read (int(idx)) at the moment "
    "they are yielded, the kept tensors are compared with their initial content after the run; the Coq model sees "
    "integers only",
    "samplers drawing lazily from ONE shared draw source (main + side samplers, a value is taken at every next()): "
    "the independent Python spec consumes the source in stream order; for the Coq model the per-iteration orders "
    "are derived from that spec run (the model takes every sampler iteration as a given list), so the Coq "
    "correspondence of these cases rests on the Python spec's assignment of draws",
    "side samplers may yield another order on every iteration (modelled: the k-th iteration of a sampler object is an "
    "arbitrary list of len(sampler) indices); main and side samplers yield exactly len(sampler) valid indices per "
    "iteration (the property's domain)",
    "torch DataLoader / ConcatDataset.cumulative_sizes / default_collate are not modelled: the model's loader_batches "
    "(lookup + collator dispatch per batch of the batch sampler) is compared with what get_data_loader delivers",
    "isinstance(int) assertions of the constructor, _get_data_source's attribute probing, __str__ of the config, "
    "get_data_loader's kwargs plumbing and worker_init_fn forwarding are not modelled",
]


# ---------------------------------------------------------------------------
# case generation
# ---------------------------------------------------------------------------
_TORCH_REF = {}


_KD_REF = {}
KD_CLASSES = ("distributed", "weighted", "classbalanced", "semi")


def kd_classes(spec, n):
    """class labels of the dataset a ClassBalancedSampler / SemiSampler is built on (None: the sampler needs none)"""
    if spec["cls"] == "classbalanced":
        return [i % spec.get("C", 2) for i in range(n)]
    if spec["cls"] == "semi":
        return [-1 if i % 2 else (i // 2) % 2 for i in range(n)]
    return None


def kd_make(spec, ds, base=None):
    """one of the package's OWN rank-aware samplers, built for rank spec['rank'] of spec['world'] processes
    (explicit rank / world_size arguments; no process group is needed).  len(sampler) and the iteration are the
    per-rank share; `effective_length` (and total_size of the DistributedSampler) describe all ranks together."""
    import torch
    import kappadata.samplers as S
    w, r, seed = spec["world"], spec["rank"], spec.get("seed", 0)
    k = spec["cls"]
    cls = {"distributed": S.DistributedSampler, "weighted": S.WeightedSampler,
           "classbalanced": S.ClassBalancedSampler, "semi": S.SemiSampler}[k]
    cls = base(cls) if base is not None else cls
    if k == "distributed":
        return cls(ds, num_replicas=w, rank=r, shuffle=bool(spec.get("shuffle", True)), seed=seed)
    if k == "weighted":
        wts = torch.tensor([1.0 + (i % 3) for i in range(len(ds))])
        return cls(ds, weights=wts, size=spec.get("size"), seed=seed, rank=r, world_size=w)
    if k == "classbalanced":
        return cls(ds, shuffle=bool(spec.get("shuffle", True)), samples_per_class=spec.get("spc"), seed=seed,
                   rank=r, world_size=w)
    return cls(ds, num_labeled=spec.get("nl", 1), num_unlabeled=spec.get("nu", 1), rank=r, world_size=w, seed=seed,
               length_mode=spec.get("mode", "all"))


def kd_ref(spec, ds_n):
    """reference instance (a second object, never handed to the scheduler) -> (sampler, {epoch: order})"""
    key = (repr(sorted(spec.items())), ds_n)
    if key not in _KD_REF:
        if len(_KD_REF) > 256:
            _KD_REF.clear()
        _KD_REF[key] = (kd_make(spec, _DS(0, ds_n, kd_classes(spec, ds_n))), {})
    return _KD_REF[key]


def kd_order(spec, ds_n, e):
    ref, cache = kd_ref(spec, ds_n)
    e = 0 if e is None else e
    if e not in cache:
        ref.set_epoch(e)
        cache[e] = [int(i) for i in ref]
    return list(cache[e])


def gen_kd_spec(rng, ds_n):
    """a rank-aware kappadata sampler over a dataset of ds_n items; world sizes 1..3, every rank"""
    w = rng.choice([1, 2, 2, 2, 3, 3])
    spec = {"cls": rng.choice(KD_CLASSES), "world": w, "rank": rng.randrange(w), "seed": rng.choice([0, 0, 3, 11])}
    if spec["cls"] == "weighted" and ds_n >= 2 and rng.random() < 0.4:
        spec["size"] = rng.randint(1, ds_n)
    if spec["cls"] == "classbalanced":
        spec["C"] = rng.choice([2, 3])
        spec["spc"] = rng.choice([None, None, 1, 2, 5])
    if spec["cls"] == "semi":
        spec["mode"] = rng.choice(["all", "labeled", "unlabeled"])
    return spec


def kd_valid(spec, ds_n):
    if spec["cls"] == "classbalanced":
        return ds_n >= spec.get("C", 2)
    if spec["cls"] == "semi":
        return ds_n >= 2
    return ds_n >= 1


def main_iter(case, e):
    """what the main sampler object yields when it is iterated while holding epoch e (None = it was never told
    an epoch)"""
    n, ds = case["N"], case["dsN"]
    assert case.get("main_kind") != "drawn", "a lazily drawing main sampler has no order of its own"
    if case.get("main_kind") == "kd":
        return kd_order(case["kd"], ds, e)
    if case.get("main_kind") == "torch":
        # torch's own DistributedSampler(shuffle=True): the reference order comes from a second instance
        key = (ds, case["perm_seed"])
        if key not in _TORCH_REF:
            from torch.utils.data.distributed import DistributedSampler
            if len(_TORCH_REF) > 64:
                _TORCH_REF.clear()
            _TORCH_REF[key] = (DistributedSampler(_DS(0, ds), num_replicas=1, rank=0, shuffle=True,
                                                  seed=case["perm_seed"]), {})
        ref, cache = _TORCH_REF[key]
        e = 0 if e is None else e
        if e not in cache:
            ref.set_epoch(e)
            cache[e] = [int(i) for i in ref]
        return list(cache[e])
    if case["perm_seed"] is None:
        return list(range(n))
    r = random.Random(case["perm_seed"] * 7919 + (e if e is not None else -4711))
    return r.sample(range(ds), n)


def side_iter(sc, p):
    """what the p-th iteration (counted from 0) of this config's sampler object yields"""
    if sc.get("shuffle") is None:
        return list(sc["idx"])
    r = random.Random(sc["shuffle"] * 104729 + p)
    l = list(sc["idx"])
    r.shuffle(l)
    return l


def side_positions(sc, p):
    """side_iter as positions into sc['idx'] (random.shuffle permutes positions, whatever the values are)"""
    pos = list(range(len(sc["idx"])))
    if sc.get("shuffle") is not None:
        random.Random(sc["shuffle"] * 104729 + p).shuffle(pos)
    return pos


def as_repr(kind, values, kept=None, positions=None):
    """the indices `values` in the representation `kind`; 'tensor': 0-d views kept[positions[k]] of the tensor the
    sampler object keeps (positions default to the values themselves)"""
    if kind == "np":
        import numpy as np
        return [np.int64(v) for v in values]
    if kind == "tensor":
        return [kept[q] for q in (values if positions is None else positions)]
    return list(values)


def geometry(case):
    n, b = case["N"], case["B"]
    if case["drop_last"]:
        d = case["D"] or b
        spe = n // d * d
        upe = spe // b
    else:
        spe = n
        upe = -(-n // b)
    return spe, upe


def budgets(case):
    """the three budget attributes the loops see (after an optional post-construction assignment)"""
    if case.get("post_budget") is not None:
        return dict(case["post_budget"])
    out = {"epochs": None, "updates": None, "samples": None}
    out[case["budget"][0]] = case["budget"][1]
    return out


def gen_case(rng, big=False, size=None, kd=None):
    size = size or ("mid" if big else "small")
    if size == "small":
        n = rng.choice([1, 2, 3, 4, 5, 6, 7, 8, 9, 10, 12, 13, 16, 17, 20, 24, 31, 40])
    elif size == "mid":
        n = rng.randint(1, 79)
    else:
        n = rng.randint(80, 300)
    # the main sampler is one of the package's own rank-aware samplers (one rank of world_size 1..3): the dataset
    # size is drawn, len(sampler) = the per-rank share follows
    kd = (rng.random() < 0.12) if kd is None else kd
    kd_spec = None
    if kd:
        for _ in range(20):
            ds_n = max(2, n * rng.choice([1, 1, 2, 2, 3]) + rng.choice([0, 0, 1]))
            sp = gen_kd_spec(rng, ds_n)
            if kd_valid(sp, ds_n) and len(kd_ref(sp, ds_n)[0]) >= 1:
                kd_spec, kd_ds = sp, ds_n
                n = len(kd_ref(sp, ds_n)[0])
                break
    b = rng.choice([1, n, max(1, n // 2), rng.randint(1, n), rng.randint(1, n)])
    if size == "large" and b < n // 40:
        b = rng.randint(max(1, n // 40), n)
    drop_last = rng.random() < 0.6
    d = None
    if drop_last and rng.random() < 0.3:
        mult = [m for m in (1, 2, 3, 4) if b * m <= n]
        d = b * rng.choice(mult)
    case = {"N": n, "dsN": n + rng.choice([0, 0, 0, 1, 3]), "B": b, "drop_last": drop_last, "D": d}
    case["perm_seed"] = rng.choice([None, rng.randint(0, 999)])
    if kd_spec is not None:
        case["kd"], case["dsN"] = kd_spec, kd_ds
    spe, upe = geometry(case)
    kind = rng.choice(["epochs", "updates", "samples"])
    total_epochs = rng.choice([1, 1, 2, 2, 3, 4] if size != "large" else [1, 1, 2, 2, 3])
    if rng.random() < 0.07:
        val = 0
    elif kind == "epochs":
        val = total_epochs
    elif kind == "updates":
        val = max(1, upe * total_epochs + rng.choice([0, 0, -1, 1, rng.randint(-upe, upe)]))
    else:
        val = max(1, spe * total_epochs + rng.choice([0, 0, -1, 1, b, -b, rng.randint(-spe, spe)]))
    case["budget"] = [kind, val]
    sides = []
    n_sides = rng.choice([0, 1, 1, 2, 2, 3, 4]) if size != "large" else rng.choice([0, 1, 2, 3, 4, 5, 6, 6])
    for _ in range(n_sides):
        ln = rng.choice([0, 1, 2, 3, 5, 7] if size != "large" else [0, 1, 3, 5, 7, 12])
        dsl = ln + rng.choice([0, 0, 2])
        sc = {"ene": None, "enu": None, "ens": None, "bs": rng.choice([None, None, 1, 2, 3, 4]),
              "dslen": dsl}
        kinds = rng.sample(["ene", "enu", "ens"], rng.choice([1, 1, 1, 2, 2, 3]))
        for k in kinds:
            if k == "ene":
                sc[k] = rng.choice([1, 1, 2, 3])
            elif k == "enu":
                sc[k] = rng.choice([1, 2, 3, upe, upe + 1, 5, 7])
                sc[k] = max(1, sc[k])
            else:
                sc[k] = max(1, rng.choice([1, b, 2 * b, b + 1, spe, spe - 1, spe + 1, 3, 12, rng.randint(1, 2 * spe + 1)]))
        sc["idx"] = list(range(ln)) if rng.random() < 0.7 else [rng.randrange(max(dsl, 1)) for _ in range(ln)] if dsl else []
        # a stateful side sampler: another order on every iteration (like RandomSampler / set_epoch-driven shuffling)
        sc["shuffle"] = rng.randint(0, 999) if (ln >= 2 and rng.random() < 0.4) else None
        r = rng.random()
        if r < 0.10 and dsl >= 2:
            # one of the package's own rank-aware samplers as side sampler (one rank of several)
            sp = gen_kd_spec(rng, dsl)
            if kd_valid(sp, dsl):
                sc["kd"], sc["shuffle"] = sp, None
                sc["idx"] = kd_order(sp, dsl, 0)
        elif r < 0.22:
            # the config draws from a dataset OBJECT another config (or the main sampler) draws from as well
            owners = [k for k, o in enumerate(sides) if o.get("share") is None and o.get("kd") is None]
            tgt = rng.choice(["main"] + owners + owners)
            tl = case["dsN"] if tgt == "main" else sides[tgt]["dslen"]
            sc["share"], sc["dslen"] = tgt, tl
            sc["idx"] = [rng.randrange(tl) for _ in range(ln)] if tl else []
            if len(sc["idx"]) < 2:
                sc["shuffle"] = None
        if sc.get("kd") is None and rng.random() < 0.3:
            sc["decoy"] = gen_decoy(rng, len(sc["idx"]))
        sides.append(sc)
    case["sides"] = sides
    # start checkpoint
    case["start"] = None
    if val > 0 and rng.random() < 0.45:
        skind = rng.choice(["epoch", "epoch", "update", "sample"])
        # epochs strictly before the budget
        if kind == "epochs":
            max_e = val - 1
        elif kind == "updates":
            max_e = (val - 1) // upe
        else:
            max_e = (val - 1) // spe
        if max_e >= 1:
            k = rng.randint(1, max_e)
            extra = 0 if rng.random() < 0.8 else rng.randint(1, max(1, upe))
            # off-boundary checkpoints (NotImplementedError expected) must still lie before the budget
            before = {"epochs": upe * val, "updates": val, "samples": -(-val // b)}[kind]
            if k * upe + extra >= before:
                extra = 0
            if skind == "epoch":
                case["start"] = ["epoch", k]
            elif skind == "update":
                case["start"] = ["update", k * upe + extra]
            else:
                case["start"] = ["sample", (k * upe + extra) * b]
    add_flavours(rng, case)
    return case


def set_dsn(case, ds):
    """another size of the main sampler's dataset; configs drawing from that dataset object follow"""
    case["dsN"] = ds
    for sc in case["sides"]:
        if sc.get("share") == "main":
            sc["dslen"] = ds
            sc["idx"] = [i % ds for i in sc["idx"]]


def gen_decoy(rng, n):
    """extra attributes of a recording mock that describe something else than the per-process iteration (the size
    over all ranks, a padded size, another dataset): the scheduler has to go by len(sampler) and the iteration"""
    vals = [0, 1, n + 1, 2 * n, 2 * n + 1, 3 * n, max(0, n - 1), max(1, n // 2)]
    keys = rng.sample(["effective_length", "total_size", "num_samples", "dataset"], rng.choice([1, 1, 2, 4]))
    return {k: rng.choice(vals) for k in keys}


# ---- sampler flavours and object histories -------------------------------------------------------
def add_flavours(rng, case):
    """the main / side sampler objects come as lazy generators (the epoch / order is read when the first index is
    pulled) or EAGER (__iter__ fixes the whole order at once from what the object holds at that moment), a few
    mains are torch's own DistributedSampler(shuffle=True); the main sampler object may hold an epoch of its own
    before the scheduler ever touches it"""
    r = rng.random()
    case["main_kind"] = "lazy" if r < 0.45 else "eager" if r < 0.95 else "torch"
    case["pre_epoch"] = rng.choice([None, None, 0, 1, 2, 5, 9])
    if case.get("kd") is not None:
        case["main_kind"] = "kd"
        case["pre_epoch"] = case["pre_epoch"] or 0
    elif rng.random() < 0.3:
        case["main_decoy"] = gen_decoy(rng, case["N"])
    if case["main_kind"] == "torch":
        set_dsn(case, case["N"])         # num_replicas=1: len(sampler) = len(dataset)
        if case["perm_seed"] is None:
            case["perm_seed"] = rng.randint(0, 999)
        case["pre_epoch"] = case["pre_epoch"] or 0
    for sc in case["sides"]:
        sc["eager"] = rng.random() < 0.4
    add_reprs(rng, case)


REPRS = ("int", "np", "tensor")


def add_reprs(rng, case):
    """the REPRESENTATION of the indices the recording samplers yield: Python ints, numpy integer scalars, or 0-d
    torch tensors that are VIEWS into an index tensor the sampler object keeps and re-uses on every iteration
    (`iter(self.indices)` over a fixed tensor).  The scheduler may compute with what it is handed, it must not
    change it."""
    if case.get("main_kind") in ("lazy", "eager"):
        case["main_repr"] = rng.choice(["int", "int", "np", "tensor"])
    for sc in case["sides"]:
        if sc.get("kd") is None:
            sc["repr"] = rng.choice(["int", "int", "np", "tensor", "tensor"])


def gen_other(rng, case):
    """another InterleavedSampler on the same main sampler / config objects: own batch size, drop_last, budget
    (often eval-only), sometimes a checkpoint, sometimes only some of the configs (in any order)"""
    n = case["N"]
    for _ in range(30):
        b = rng.choice([1, n, max(1, n // 2), rng.randint(1, n), rng.randint(1, n)])
        drop_last = rng.random() < 0.6
        d = None
        if drop_last and rng.random() < 0.25:
            d = b * rng.choice([m for m in (1, 2, 3) if b * m <= n])
        o = {"B": b, "drop_last": drop_last, "D": d, "start": None, "sel": None}
        spe, upe = geometry({"N": n, **o})
        kind = rng.choice(["epochs", "updates", "samples"])
        e = rng.choice([1, 1, 2, 3])
        if rng.random() < 0.3:
            val = 0
        elif kind == "epochs":
            val = e
        elif kind == "updates":
            val = max(1, upe * e + rng.choice([0, 0, -1, 1]))
        else:
            val = max(1, spe * e + rng.choice([0, 0, -1, 1, b]))
        o["budget"] = [kind, val]
        if kind == "epochs" and val >= 2 and rng.random() < 0.4:
            o["start"] = ["epoch", rng.randint(1, val - 1)]
        if case["sides"] and rng.random() < 0.25:
            o["sel"] = rng.sample(range(len(case["sides"])), rng.randint(0, len(case["sides"])))
        tmp = dict(case)
        tmp["others"] = [o]
        if expected_events(obj_case(tmp, 1)) <= 2500:
            return o
    return {"B": n, "drop_last": True, "D": None, "start": None, "sel": None, "budget": ["epochs", 1]}


def gen_overlap(rng, case):
    """simultaneously live iterations (a mid-training `next(iter(loader))` peek, a second consumer of the same
    sampler object): 2-3 iterators, most of them over ONE InterleavedSampler object, advanced alternately by a
    few items / about an epoch at a time; one of them is often run to its end"""
    nobj = len(case.get("others") or []) + 1
    j = rng.choice([0, 0, 0] + list(range(nobj)))
    objs = [j, j] + ([rng.randrange(nobj)] if rng.random() < 0.3 else [])
    rng.shuffle(objs)
    oc = obj_case(case, j)
    spe, _ = geometry(oc)
    b = oc["B"]
    pulls = []
    for k in range(rng.randint(3, 7)):
        li = rng.randrange(len(objs)) if k >= 2 else k
        pulls.append([li, rng.choice([1, 1, 2, b, b + 1, spe, spe + 1, rng.randint(1, 2 * spe + 3)])])
    if rng.random() < 0.6:
        pulls.append([rng.randrange(len(objs)), None])
    return ["overlap", objs, pulls]


def add_history(rng, case, overlap=0.35):
    """objects have histories: the case's InterleavedSampler is iterated (completely, or abandoned after some
    items) before its observed iteration, other InterleavedSamplers are built on the same main sampler and config
    objects and iterated before / in between, somebody calls set_epoch on the main sampler"""
    others = [gen_other(rng, case) for _ in range(rng.choice([0, 1, 1, 1, 2]))]
    case["others"] = others
    unbuilt = list(range(len(others) + 1))
    rng.shuffle(unbuilt)
    actions = ["build"] * len(unbuilt) + ["iter"] * rng.choice([0, 1, 1, 2, 3]) + ["set_epoch"] * rng.choice([0, 0, 1, 2])
    rng.shuffle(actions)
    steps, built = [], []
    for a in actions:
        if a == "build" or (a == "iter" and not built):
            if unbuilt:
                j = unbuilt.pop()
                steps.append(["build", j])
                built.append(j)
            if a == "build":
                continue
        if a == "iter":
            steps.append(["iter", rng.choice(built), None if rng.random() < 0.5 else rng.randint(1, 40)])
        elif a == "set_epoch":
            steps.append(["set_epoch", rng.choice([0, 1, 2, 3, 5, 11])])
    for j in unbuilt:
        steps.append(["build", j])
    if rng.random() < overlap:
        steps.append(gen_overlap(rng, case))
    if rng.random() < 0.25:
        steps.append(["set_epoch", rng.choice([0, 1, 2, 3, 5, 11])])
    steps.append(["iter", 0, None])
    case["scenario"] = steps
    assert scenario_ok(case), steps
    return case


def gen_history_case(rng, want=None, size="small"):
    """a case with a non-trivial history; want(case) may filter the underlying configuration"""
    for _ in range(400):
        c = gen_case(rng, size=size)
        if expected_events(c) > 3000 or (want is not None and not want(c)):
            continue
        if isinstance(start_epoch_of(c), str):
            continue        # the history is about objects the constructor accepts
        add_history(rng, c)
        if len(c["scenario"]) > 2:
            return c
    return add_history(rng, gen_bounded(rng))


def gen_bounded(rng, **kw):
    """gen_case, re-drawn until the expected stream is of moderate length"""
    for _ in range(50):
        c = gen_case(rng, **kw)
        if expected_events(c) <= GEN_EVENTS:
            return c
    return gen_case(rng)


_DRAWS = {}


def draw_value(seed, t):
    """the t-th value of the recorded draw source `seed`"""
    l = _DRAWS.get(seed)
    if l is None:
        if len(_DRAWS) > 64:
            _DRAWS.clear()
        l = _DRAWS[seed] = [random.Random(seed * 8191 + 17), []]
    while len(l[1]) <= t:
        l[1].append(l[0].randrange(1 << 20))
    return l[1][t]


class _Source:
    """ONE draw source shared by the main sampler and some side samplers (a torch.Generator handed to several
    RandomSampler(replacement=True) objects): every next() of such a sampler takes the source's next value at that
    moment, so the order in which the scheduler advances the samplers decides who gets which value"""

    def __init__(self, seed):
        self.seed, self.t = seed, 0

    def next(self):
        self.t += 1
        return draw_value(self.seed, self.t - 1)


def gen_drawn_case(rng):
    """a main sampler that draws every index LAZILY (at next()) from a draw source it shares with 1-2 side samplers
    that are due inside the epoch: main and side draws interleave in stream order"""
    for _ in range(100):
        c = gen_bounded(rng)
        n = c["N"]
        if n < 2 or c["budget"][1] == 0 or c.get("kd") is not None or not c["sides"]:
            continue
        c["B"] = b = rng.choice([1, 1, 2, max(1, n // 3), max(1, n // 2)])
        c["D"] = None
        c["start"] = None
        spe, upe = geometry(c)
        kind = rng.choice(["epochs", "updates", "samples"])
        e = rng.choice([1, 2, 3])
        c["budget"] = [kind, {"epochs": e, "updates": max(1, upe * e - rng.choice([0, 0, 1, upe // 2])),
                              "samples": max(1, spe * e - rng.choice([0, 0, 1, b, spe // 2]))}[kind]]
        c["main_kind"], c["main_repr"] = "drawn", "int"
        c.pop("main_decoy", None)
        c["drawn"] = {"seed": rng.randint(0, 9999)}
        k = 0
        for ci, sc in enumerate(c["sides"]):
            if (sc.get("kd") is not None or sc.get("share") is not None or (k >= 1 and rng.random() < 0.5)
                    or any(o.get("share") == ci for o in c["sides"])):
                continue
            ln = max(1, len(sc["idx"]))
            sc.update({"drawn": True, "shuffle": None, "eager": False, "repr": "int", "idx": [0] * ln,
                       "dslen": max(sc["dslen"], 1)})
            # due inside the epoch
            if rng.random() < 0.8:
                sc["enu"] = rng.choice([1, 1, 2, 3])
            k += 1
        if k and expected_events(c) <= 3000:
            return c
    return c


def gen_many_configs(rng):
    """an evaluation SUITE: 9-14 configs over tiny datasets with different intervals, so that after most updates only
    a few configs - far apart in the config list - are due (the passes still have to run in config order)"""
    for _ in range(50):
        n = rng.choice([2, 3, 4, 5, 6, 8])
        b = rng.choice([1, 1, 2, max(1, n // 2)])
        drop_last = rng.random() < 0.5
        case = {"N": n, "dsN": n + rng.choice([0, 0, 2]), "B": b, "drop_last": drop_last, "D": None,
                "perm_seed": rng.choice([None, rng.randint(0, 999)])}
        spe, upe = geometry(case)
        epochs = rng.choice([2, 3, 4, 6])
        kind = rng.choice(["epochs", "updates", "samples"])
        case["budget"] = [kind, {"epochs": epochs, "updates": max(1, upe * epochs - rng.choice([0, 0, 1])),
                                 "samples": max(1, spe * epochs - rng.choice([0, 0, 1]))}[kind]]
        sides = []
        for _i in range(rng.randint(9, 14)):
            ln = rng.choice([1, 1, 1, 2, 2, 3, 0])
            dsl = ln + rng.choice([0, 0, 1])
            sc = {"ene": None, "enu": None, "ens": None, "bs": rng.choice([None, None, 1, 2]), "dslen": dsl,
                  "idx": list(range(ln)) if rng.random() < 0.7 else [rng.randrange(dsl) for _ in range(ln)],
                  "shuffle": rng.randint(0, 999) if (ln >= 2 and rng.random() < 0.3) else None}
            r = rng.random()
            if r < 0.45:
                sc["enu"] = rng.choice([1, 2, 2, 3, 3, 4, 5, 6, 7, 9, 11])
            elif r < 0.7:
                sc["ene"] = rng.choice([1, 2, 2, 3, 3, 4, 5])
            elif r < 0.9:
                sc["ens"] = max(1, rng.choice([b, 2 * b, 3 * b, spe, spe + 1, 2 * spe - 1, 5, 7]))
            else:
                sc["enu"], sc["ene"] = rng.choice([3, 4, 5, 7]), rng.choice([2, 3])
            sides.append(sc)
        case["sides"] = sides
        case["start"] = None
        add_flavours(rng, case)
        if expected_events(case) <= 3000:
            return case
    return case


def expected_events(case):
    spe, upe = geometry(case)
    kind, val = case["budget"]
    if val == 0:
        return sum(len(s["idx"]) for s in case["sides"])
    ups = {"epochs": val * upe, "updates": val, "samples": -(-val // case["B"]) + val // spe + 1}[kind]
    per = 0
    for s in case["sides"]:
        f = 0.0
        if s["ene"]:
            f += 1.0 / (upe * s["ene"])
        if s["enu"]:
            f += 1.0 / s["enu"]
        if s["ens"]:
            f += min(1.0, case["B"] / s["ens"])
        per += min(1.0, f) * len(s["idx"])
    return ups * (case["B"] + per)


# ---- invalid / unusual constructor arguments -------------------------------------------------
def gen_mut(rng, case):
    """one assignment [path..., value] applied to the raw constructor arguments: the class of argument
    combinations the constructor's assertions are about"""
    n, b = case["N"], case["B"]
    kind = case["budget"][0]
    other = [k for k in ("epochs", "updates", "samples") if k != kind]
    opts = [
        ["B", 0], ["B", -1], ["B", n + 1],
        ["D", b + 1 if b > 1 else 2 * n + 1], ["D", (n // b + 1) * b], ["D", 0],
        ["drop_last", False] if case["D"] is not None else ["D", b],   # D without drop_last / a plain valid D
        [kind, -1], [kind, None], [rng.choice(other), rng.choice([0, 1, 3])],
    ]
    if case["sides"]:
        i = rng.randrange(len(case["sides"]))
        opts += [["sides", i, rng.choice(["ene", "enu", "ens", "bs"]), rng.choice([0, -2])],
                 ["sides", i, "all_none", True]]
    if case["start"] is not None:
        others = [k for k in ("epoch", "update", "sample") if k != case["start"][0]]
        opts += [["start_" + rng.choice(others), rng.choice([0, 1, b])]] * 2
        if case["start"][0] == "sample":
            opts += [["start_sample", case["start"][1] + 1]] if b > 1 else []
    return rng.choice(opts)


def raw_args(case, start="case"):
    """the constructor arguments of this case (after its optional mutation)"""
    st = case["start"] if start == "case" else start
    raw = {"N": case["N"], "dsN": case["dsN"], "B": case["B"], "drop_last": case["drop_last"], "D": case["D"],
           "epochs": None, "updates": None, "samples": None,
           "start_epoch": None, "start_update": None, "start_sample": None,
           "sides": [{"ene": s["ene"], "enu": s["enu"], "ens": s["ens"], "bs": s["bs"]} for s in case["sides"]]}
    raw[case["budget"][0]] = case["budget"][1]
    if st is not None:
        raw["start_" + st[0]] = st[1]
    mut = case.get("mut")
    if mut:
        if mut[0] == "sides":
            if mut[2] == "all_none":
                raw["sides"][mut[1]].update({"ene": None, "enu": None, "ens": None})
            else:
                raw["sides"][mut[1]][mut[2]] = mut[3]
        else:
            raw[mut[0]] = mut[1]
    return raw


def ctor_expect(raw):
    """independent statement of which argument combinations the constructor accepts:
    'ok' | 'AssertionError' | 'NotImplementedError'"""
    n, b, d = raw["N"], raw["B"], raw["D"]
    if not (isinstance(b, int) and 0 < b <= n):
        return "AssertionError"
    if d is not None and not (raw["drop_last"] and d % b == 0 and b <= d <= n):
        return "AssertionError"
    given = [raw[k] for k in ("epochs", "updates", "samples") if raw[k] is not None]
    if len(given) != 1 or given[0] < 0:
        return "AssertionError"
    for s in raw["sides"]:
        if all(s[k] is None for k in ("ene", "enu", "ens")):
            return "AssertionError"
        if any(s[k] is not None and s[k] <= 0 for k in ("ene", "enu", "ens", "bs")):
            return "AssertionError"
    starts = [k for k in ("start_epoch", "start_update", "start_sample") if raw[k] is not None]
    if len(starts) > 1:
        return "AssertionError"
    if not starts or starts[0] == "start_epoch":
        return "ok"
    unit = d or b
    spe = n // unit * unit if raw["drop_last"] else n
    if starts[0] == "start_sample" and raw["start_sample"] % b != 0:
        return "AssertionError"
    pos = raw["start_update"] * b if starts[0] == "start_update" else raw["start_sample"]
    if not raw["drop_last"] or pos % spe != 0:
        return "NotImplementedError"
    return "ok"


def gen_cases(rng, tier):
    n = 700 if tier == "quick" else 6000
    out = [gen_bounded(rng) for _ in range(n)]
    if tier == "thorough":
        out += [gen_bounded(rng, size="mid") for _ in range(2500)]
        out += [gen_bounded(rng, size="large") for _ in range(800)]
    return out


def search_cases(rng, tier):
    for _ in range(20000):
        r = rng.random()
        if r < 0.3:
            yield gen_history_case(rng)
        elif r < 0.4:
            yield gen_boundary_case(rng)
        elif r < 0.5:
            yield gen_many_configs(rng)
        elif r < 0.6:
            yield gen_drawn_case(rng)
        else:
            yield gen_bounded(rng, size="mid" if rng.random() < 0.3 else "small")


ITEMS = "wrong (is_full_batch, index) items: "


def items_tag(a, b):
    """prefix of a violation message: do the yielded items differ, or only the calls the samplers received"""
    ya = [e for e in a if not isinstance(e, list) or not e or e[0] not in ("E", "I", "S")]
    yb = [e for e in b if not isinstance(e, list) or not e or e[0] not in ("E", "I", "S")]
    return ITEMS if ya != yb else ""


def shrink_keeping(oracle, run):
    """shrinker that keeps the strong kind of violation: a case whose yielded items are wrong is only shrunk to
    cases whose yielded items are wrong (not to one where merely a call arrives at another moment)"""
    def sh(case):
        try:
            m = oracle(case, run(case))
        except Exception:  # noqa
            m = None
        strong = bool(m) and m.startswith(ITEMS)
        for cand in shrink(case):
            if not strong:
                yield cand
                continue
            try:
                m2 = oracle(cand, run(cand))
            except Exception:  # noqa
                continue
            if m2 and m2.startswith(ITEMS):
                yield cand
    return sh


def shrink(case):
    """candidate smaller cases"""
    c = case
    for k in ("mut", "post_budget", "loader"):
        if c.get(k) is not None:
            yield {kk: v for kk, v in c.items() if kk != k}
    # the history: no history at all, fewer steps, fewer other objects, complete instead of abandoned iterations
    if c.get("scenario"):
        yield {kk: v for kk, v in c.items() if kk not in ("scenario", "others")}
        sc = c["scenario"]
        for i in range(len(sc) - 1):
            cand = sc[:i] + sc[i + 1:]
            if scenario_ok(c, cand):
                yield {**c, "scenario": cand}
        for j in range(1, len(c.get("others") or []) + 1):
            # drop object j (and renumber the later ones)
            if any(st[0] == "overlap" and j in st[1] for st in sc):
                continue
            cand = [[st[0], [x - 1 if x > j else x for x in st[1]]] + st[2:] if st[0] == "overlap" else
                    [st[0], st[1] - 1 if (st[0] != "set_epoch" and st[1] > j) else st[1]] + st[2:]
                    for st in sc if st[0] in ("set_epoch", "overlap") or st[1] != j]
            c2 = {**c, "others": c["others"][:j - 1] + c["others"][j:], "scenario": cand}
            if scenario_ok(c2):
                yield c2
        for i, st in enumerate(sc[:-1]):
            if st[0] == "overlap":
                # fewer pulls, fewer items per pull
                for q in range(len(st[2])):
                    yield {**c, "scenario": sc[:i] + [["overlap", st[1], st[2][:q] + st[2][q + 1:]]] + sc[i + 1:]}
                for q, pl in enumerate(st[2]):
                    for m in ([1, pl[1] // 2, pl[1] - 1] if pl[1] else [4, 16, 64]):
                        if m >= 1 and m != pl[1]:
                            yield {**c, "scenario": sc[:i] + [["overlap", st[1], st[2][:q] + [[pl[0], m]] + st[2][q + 1:]]]
                                   + sc[i + 1:]}
        for i, st in enumerate(sc[:-1]):
            if st[0] == "iter" and st[2] is not None:
                yield {**c, "scenario": sc[:i] + [["iter", st[1], None]] + sc[i + 1:]}
        for j, o in enumerate(c.get("others") or []):
            if o.get("sel") is not None:
                yield {**c, "others": c["others"][:j] + [{**o, "sel": None}] + c["others"][j + 1:]}
            if o.get("start") is not None:
                yield {**c, "others": c["others"][:j] + [{**o, "start": None}] + c["others"][j + 1:]}
    if c.get("main_decoy"):
        yield {kk: v for kk, v in c.items() if kk != "main_decoy"}
    if c.get("main_kind") == "kd" and c["kd"].get("seed"):
        yield {**c, "kd": {**c["kd"], "seed": 0}}
    if c.get("main_kind") == "torch":
        yield {**c, "main_kind": "eager"}
    if c.get("main_kind") == "eager":
        yield {**c, "main_kind": "lazy"}
    if c.get("pre_epoch") is not None and c.get("main_kind") not in ("torch", "kd"):
        yield {**c, "pre_epoch": None}
    if c.get("main_repr") not in (None, "int"):
        yield {**c, "main_repr": "int"}
    for i, sc_ in enumerate(c["sides"]):
        if sc_.get("repr") not in (None, "int"):
            yield {**c, "sides": c["sides"][:i] + [{**sc_, "repr": "int"}] + c["sides"][i + 1:]}
    for i, sc_ in enumerate(c["sides"]):
        if sc_.get("eager"):
            yield {**c, "sides": c["sides"][:i] + [{**sc_, "eager": False}] + c["sides"][i + 1:]}
    for i in range(len(c["sides"])):
        if (c.get("mut") and c["mut"][0] == "sides") or any(o.get("sel") is not None for o in c.get("others") or []):
            break
        if any(o.get("share") == i for o in c["sides"]):
            continue
        rest = [({**o, "share": o["share"] - 1} if isinstance(o.get("share"), int) and o["share"] > i else o)
                for o in c["sides"][:i] + c["sides"][i + 1:]]
        yield {**c, "sides": rest}
    for i, sc in enumerate(c["sides"]):
        if sc.get("decoy"):
            yield {**c, "sides": c["sides"][:i] + [{kk: v for kk, v in sc.items() if kk != "decoy"}] + c["sides"][i + 1:]}
        if sc.get("kd") is not None:
            yield {**c, "sides": c["sides"][:i] + [{kk: v for kk, v in sc.items() if kk != "kd"}] + c["sides"][i + 1:]}
            continue
        if sc.get("share") is not None or any(o.get("share") == i for o in c["sides"]):
            # the dataset object stays as it is; fewer indices drawn from it
            if len(sc["idx"]) > 1:
                yield {**c, "sides": c["sides"][:i] + [{**sc, "idx": sc["idx"][:-1]}] + c["sides"][i + 1:]}
            for k in ("ene", "enu", "ens", "bs"):
                if sc[k] is not None and sum(sc[x] is not None for x in ("ene", "enu", "ens")) > (1 if k != "bs" else 0):
                    yield {**c, "sides": c["sides"][:i] + [{**sc, k: None}] + c["sides"][i + 1:]}
            continue
        for k in ("ene", "enu", "ens", "bs"):
            if sc[k] is not None and sum(sc[x] is not None for x in ("ene", "enu", "ens")) > (1 if k != "bs" else 0):
                yield {**c, "sides": c["sides"][:i] + [{**sc, k: None}] + c["sides"][i + 1:]}
        if sc.get("shuffle") is not None:
            yield {**c, "sides": c["sides"][:i] + [{**sc, "shuffle": None}] + c["sides"][i + 1:]}
        if len(sc["idx"]) > 1:
            m = len(sc["idx"]) - 1
            yield {**c, "sides": c["sides"][:i] + [{**sc, "idx": list(range(m)), "dslen": m}] + c["sides"][i + 1:]}
    if c["perm_seed"] is not None and c.get("main_kind") != "kd":
        yield {**c, "perm_seed": None}
    if c["dsN"] != c["N"] and c.get("main_kind") != "kd" and not any(o.get("share") == "main" for o in c["sides"]):
        yield {**c, "dsN": c["N"]}
    if c["D"] is not None and not c.get("mut"):
        yield {**c, "D": None}
    if (c["start"] is None and c["N"] > c["B"] and c["N"] > 1 and not c.get("mut") and c.get("main_kind") != "kd"
            and not any(o.get("share") == "main" for o in c["sides"])):
        yield {**c, "N": c["N"] - 1, "dsN": c["N"] - 1}
    if c["budget"][1] > 1 and c["start"] is None and c.get("post_budget") is None:
        yield {**c, "budget": [c["budget"][0], c["budget"][1] - 1]}


# ---------------------------------------------------------------------------
# running the implementation
# ---------------------------------------------------------------------------
class _DS:
    """data source whose items identify themselves"""

    def __init__(self, tag, n, classes=None):
        self.tag, self.n, self.classes = tag, n, classes

    def __len__(self):
        return self.n

    # what ClassBalancedSampler / SemiSampler ask their dataset
    def getall_class(self):
        return list(self.classes)

    def getdim_class(self):
        return len({c for c in self.classes if c >= 0})

    def __getitem__(self, i):
        assert 0 <= i < self.n, (self.tag, i, self.n)
        return (self.tag, i)

    def worker_init_fn(self, rank, **kwargs):
        pass


class _TagCollator:
    """collator of dataset `tag`: returns its own tag and the samples it was given"""

    def __init__(self, tag):
        self.tag = tag

    def __call__(self, data):
        return [self.tag, [list(x) for x in data]]


class _World:
    """where the recording samplers write to: the log of the step that is being executed (an iteration of one of
    the InterleavedSampler objects, or `outside`: constructions and foreign calls)"""

    def __init__(self):
        self.outside = []
        self.log = self.outside
        self.plog = []
        self.src = None


class _RecMain:
    """recording main sampler; its order depends on the epoch it HOLDS (the last set_epoch).  Two flavours, both
    common in practice: lazy (a generator: the epoch is read when the first index is pulled - all kappadata
    samplers) and eager (__iter__ fixes the whole epoch's order at once from the epoch held at that moment and
    returns iter(list) - torch's DistributedSampler).  Every set_epoch and every __iter__ call is logged."""

    def __init__(self, case, raw, world):
        self.case, self.world, self.n = case, world, raw["N"]
        self.data_source = _DS(0, raw["dsN"])
        self.eager = case.get("main_kind") == "eager"
        self.epoch = case.get("pre_epoch")
        self.repr = case.get("main_repr") or "int"
        self.kept = None
        if self.repr == "tensor":
            import torch
            self.kept = torch.arange(raw["dsN"])      # the sampler's own index tensor, re-used in every epoch
        _apply_decoy(self, case.get("main_decoy"))

    def __len__(self):
        return self.n

    def _order(self):
        return as_repr(self.repr, main_iter(self.case, self.epoch), self.kept)

    def set_epoch(self, e):
        self.world.log.append(["E", e])
        self.epoch = e

    def __iter__(self):
        self.world.log.append(["I", self.epoch])
        if self.case.get("main_kind") == "drawn":
            return self._drawn()
        if self.eager:
            return iter(self._order())
        return self._gen()

    def _gen(self):
        yield from self._order()

    def _drawn(self):
        ds = len(self.data_source)
        for _ in range(self.n):
            yield self.world.src.next() % ds


def _apply_decoy(obj, decoy):
    """misleading extra attributes (see gen_decoy); `dataset` only where the real data source is `data_source`,
    which _get_data_source asks first"""
    for k, v in (decoy or {}).items():
        if k == "dataset":
            if hasattr(obj, "data_source"):
                obj.dataset = _DS(99, v)
        else:
            setattr(obj, k, v)


def _kd_main(case, raw, world):
    """the package's own rank-aware sampler (one rank of world_size) as main sampler, recording"""
    def rec(cls):
        class _RecKdMain(cls):
            def set_epoch(self, e):
                world.log.append(["E", int(e)])
                super().set_epoch(e)

            def __iter__(self):
                world.log.append(["I", int(self.epoch)])
                return super().__iter__()
        return _RecKdMain

    m = kd_make(case["kd"], _DS(0, raw["dsN"], kd_classes(case["kd"], raw["dsN"])), rec)
    assert len(m) == raw["N"], ("len of the kappadata main sampler changed since the case was generated", len(m), raw["N"])
    m.epoch = case.get("pre_epoch") or 0
    return m


def _kd_side(tag, sc, ds, world):
    """the package's own rank-aware sampler as side sampler, recording like _Side"""
    def rec(cls):
        class _RecKdSide(cls):
            p = 0

            def set_epoch(self, e):
                world.log.append(["S", tag - 1, int(e)])
                super().set_epoch(e)

            def __iter__(self):
                it = super().__iter__()
                first = True
                for i in it:
                    if first:
                        world.plog.append([tag - 1, len(world.log), self.p])
                        self.p += 1
                        first = False
                    yield int(i)
                if first:
                    world.plog.append([tag - 1, len(world.log), self.p])
                    self.p += 1
        return _RecKdSide

    sm = kd_make(sc["kd"], ds, rec)
    assert len(sm) == len(sc["idx"]), ("len of the kappadata side sampler changed since the case was generated",)
    return sm


def _torch_main(case, raw, world):
    from torch.utils.data.distributed import DistributedSampler

    class _RecTorchMain(DistributedSampler):
        """torch's DistributedSampler(shuffle=True) itself (order fixed eagerly in __iter__ from self.epoch)"""

        def set_epoch(self, e):
            world.log.append(["E", int(e)])
            super().set_epoch(e)

        def __iter__(self):
            world.log.append(["I", int(self.epoch)])
            return super().__iter__()

    m = _RecTorchMain(_DS(0, raw["dsN"]), num_replicas=1, rank=0, shuffle=True, seed=case["perm_seed"])
    m.epoch = case.get("pre_epoch") or 0
    return m


class _Side:
    """recording side sampler; its order may change with every iteration (pass counter = the object's state,
    starting at p0); lazy (generator) or eager (order fixed in __iter__) like the main sampler; it offers
    set_epoch and logs any call of it"""

    def __init__(self, tag, sc, p0, world, ds=None):
        # _get_data_source accepts either attribute name
        ds = _DS(tag, sc["dslen"]) if ds is None else ds
        if tag % 2:
            self.data_source = ds
        else:
            self.dataset = ds
        self.tag, self.sc, self.p, self.world = tag, sc, p0, world
        self.repr = sc.get("repr") or "int"
        self.kept = None
        if self.repr == "tensor":
            import torch
            self.kept = torch.tensor(list(sc["idx"]), dtype=torch.int64)   # kept and re-used on every pass
        _apply_decoy(self, sc.get("decoy"))

    def __len__(self):
        return len(self.sc["idx"])

    def set_epoch(self, e):
        self.world.log.append(["S", self.tag - 1, e])

    def _begin(self):
        p = self.p
        self.p += 1
        self.world.plog.append([self.tag - 1, len(self.world.log), p])
        return as_repr(self.repr, side_iter(self.sc, p), self.kept, side_positions(self.sc, p))

    def __iter__(self):
        if self.sc.get("eager"):
            return iter(self._begin())
        return self._gen()

    def _gen(self):
        if self.sc.get("drawn"):
            p = self.p
            self.p += 1
            self.world.plog.append([self.tag - 1, len(self.world.log), p])
            for _ in range(len(self.sc["idx"])):
                yield self.world.src.next() % self.sc["dslen"]
            return
        yield from self._begin()


CFG_FIELDS = ("sampler", "every_n_epochs", "every_n_updates", "every_n_samples", "collator", "batch_size")


def obj_case(case, j):
    """the configuration of InterleavedSampler object j of this case's history: 0 = the case itself, j >= 1 =
    another InterleavedSampler built on the SAME main sampler object and (a selection of) the SAME config
    objects, with its own batch size / drop_last / budget / checkpoint"""
    if j == 0:
        return case
    o = case["others"][j - 1]
    sel = o.get("sel")
    sides = case["sides"] if sel is None else [case["sides"][i] for i in sel]
    oc = {k: v for k, v in case.items() if k not in ("mut", "post_budget", "loader", "scenario", "others")}
    oc.update({"B": o["B"], "drop_last": o["drop_last"], "D": o["D"], "budget": list(o["budget"]),
               "start": o.get("start"), "sides": sides})
    return oc


def default_scenario():
    return [["build", 0], ["iter", 0, None]]


def scenario_ok(case, sc=None):
    """every object is built once and before it is iterated; the last step is the full iteration of object 0"""
    sc = case.get("scenario") if sc is None else sc
    if not sc or sc[-1] != ["iter", 0, None]:
        return False
    built = set()
    for st in sc:
        if st[0] == "build":
            if st[1] in built or not 0 <= st[1] <= len(case.get("others") or []):
                return False
            built.add(st[1])
        elif st[0] == "iter" and st[1] not in built:
            return False
        elif st[0] == "overlap" and (not st[1] or any(j not in built for j in st[1])
                                     or any(not 0 <= pl[0] < len(st[1]) for pl in st[2])):
            return False
    return True


class _Objects:
    """the objects of one case: ONE main sampler object, ONE sampler + config object per side config, and the
    InterleavedSampler objects built on them"""

    def __init__(self, case, start="case", pass0=None):
        from kappadata.samplers.interleaved_sampler import InterleavedSamplerConfig
        self.case, self.start = case, start
        self.world = _World()
        if case.get("drawn") is not None:
            self.world.src = _Source(case["drawn"]["seed"])
        raw = raw_args(case, start)
        mk = case.get("main_kind")
        self.main = (_torch_main if mk == "torch" else _kd_main if mk == "kd" else _RecMain)(case, raw, self.world)
        pass0 = pass0 or [0] * len(case["sides"])
        # ONE dataset object per config, unless the config shares the object of the main sampler / an earlier config
        self.side_samplers = []
        for i, sc in enumerate(case["sides"]):
            sh = sc.get("share")
            ds = None
            if sh == "main":
                ds = self.main.dataset if hasattr(self.main, "dataset") and mk in ("kd", "torch") else self.main.data_source
            elif sh is not None:
                o = self.side_samplers[sh]
                ds = o.data_source if hasattr(o, "data_source") else o.dataset
            if sc.get("kd") is not None:
                sm = _kd_side(i + 1, sc, _DS(i + 1, sc["dslen"], kd_classes(sc["kd"], sc["dslen"])), self.world)
                sm.p = pass0[i]
            else:
                sm = _Side(i + 1, sc, pass0[i], self.world, ds)
            self.side_samplers.append(sm)
        self.cfgs = [InterleavedSamplerConfig(sampler=sm, every_n_epochs=rs["ene"], every_n_updates=rs["enu"],
                                              every_n_samples=rs["ens"], batch_size=rs["bs"])
                     for sm, rs in zip(self.side_samplers, raw["sides"])]
        self.main_collator = None
        if case.get("loader") is not None:
            for i, cf in enumerate(self.cfgs):
                cf.collator = _TagCollator(i + 1)
            self.main_collator = _TagCollator(0)
        self.samplers = {}

    def snapshot(self):
        return [[(id(v) if k in ("sampler", "collator") and v is not None else v)
                 for k, v in ((k, getattr(cf, k, "<deleted>")) for k in CFG_FIELDS)] for cf in self.cfgs]

    def storage_mutations(self):
        """index tensors the recording samplers keep between iterations (they yield views of them) that no longer
        hold what they were built with"""
        out = []
        for name, o, want in [("main sampler", self.main, None)] + \
                [(f"sampler of config #{i}", sm, sc["idx"]) for i, (sm, sc) in enumerate(zip(self.side_samplers, self.case["sides"]))]:
            kept = getattr(o, "kept", None)
            if kept is None or getattr(o, "repr", None) != "tensor":
                continue
            want = list(range(len(kept))) if want is None else [int(v) for v in want]
            got = [int(v) for v in kept.tolist()]
            if got != want:
                out.append([name, want[:12], got[:12]])
        return out

    def held(self):
        e = self.main.epoch
        return None if e is None else int(e)

    def passes(self):
        return [sm.p for sm in self.side_samplers]

    def construct(self, j):
        from kappadata.samplers.interleaved_sampler import InterleavedSampler
        oc = obj_case(self.case, j)
        raw = raw_args(oc, self.start if j == 0 else "case")
        kw = {k: raw[k] for k in ("epochs", "updates", "samples", "start_epoch", "start_update", "start_sample")
              if raw[k] is not None}
        if self.main_collator is not None:
            kw["main_collator"] = self.main_collator
        sel = None if j == 0 else self.case["others"][j - 1].get("sel")
        cfgs = self.cfgs if sel is None else [self.cfgs[i] for i in sel]
        self.world.log = self.world.outside
        s = InterleavedSampler(main_sampler=self.main, batch_size=raw["B"], configs=cfgs or None,
                               drop_last=raw["drop_last"], drop_last_batch_size=raw["D"], **kw)
        if j == 0 and self.case.get("post_budget") is not None:
            # several budgets at once: the constructor refuses them, the loop's end test handles them
            for k, v in self.case["post_budget"].items():
                setattr(s, k, v)
        self.samplers[j] = s
        return s

    def iterate(self, j, k=None):
        """one iteration of object j (k = abandon it after k yielded items) -> (result, log, plog)"""
        w = self.world
        w.log, w.plog = log, plog = [], []
        res = "ok"
        it = None
        try:
            it = iter(self.samplers[j])
            n = 0
            for full, idx in it:
                log.append(["Y", bool(full), int(idx)])
                n += 1
                if k is not None and n >= k:
                    break
                if len(log) > MAX_EVENTS:
                    res = "RUNAWAY"
                    break
        except AssertionError:
            res = "AssertionError"
        finally:
            w.log, w.plog = w.outside, []
            if it is not None and hasattr(it, "close"):
                it.close()
        return res, log, plog


def _overlap(ob, objs, pulls):
    """SIMULTANEOUSLY LIVE iterations: iterator li runs over InterleavedSampler object objs[li] (several may run
    over the same object); pulls = [[li, count | None], ...] in the order the items are pulled (None = until the
    iterator ends).  Every call the samplers receive is attributed to the iterator that was being advanced.
    -> one history entry per started iterator"""
    w = ob.world
    n = len(objs)
    its, logs, plogs = [None] * n, [[] for _ in objs], [[] for _ in objs]
    res, ended, pulled = ["ok"] * n, [False] * n, [0] * n
    p0, h0 = [None] * n, [None] * n
    try:
        for li, cnt in pulls:
            if ended[li] or objs[li] not in ob.samplers:
                continue
            w.log, w.plog = logs[li], plogs[li]
            if its[li] is None:
                p0[li], h0[li] = ob.passes(), ob.held()
                its[li] = iter(ob.samplers[objs[li]])
            k = 0
            try:
                while cnt is None or k < cnt:
                    full, idx = next(its[li])
                    logs[li].append(["Y", bool(full), int(idx)])
                    k += 1
                    pulled[li] += 1
                    if len(logs[li]) > MAX_EVENTS:
                        res[li], ended[li] = "RUNAWAY", True
                        break
            except StopIteration:
                ended[li] = True
            except AssertionError:
                res[li], ended[li] = "AssertionError", True
    finally:
        w.log, w.plog = w.outside, []
        for it in its:
            if it is not None and hasattr(it, "close"):
                it.close()
    out = []
    ns = len(ob.side_samplers)
    for li in range(n):
        if its[li] is None:
            continue
        pseq = [[] for _ in range(ns)]
        for ci, _pos, p in plogs[li]:
            pseq[ci].append(p)
        out.append({"obj": objs[li], "k": None if (ended[li] and res[li] == "ok") else pulled[li], "result": res[li],
                    "log": logs[li], "pass0": p0[li], "held0": h0[li], "pseq": pseq, "live": li})
    return out


def build(case, log, start="case", pass0=None, plog=None):
    """fresh objects, the InterleavedSampler of the case itself; set_epoch / __iter__ calls go to `log`"""
    ob = _Objects(case, start, pass0)
    s = ob.construct(0)
    ob.world.outside = ob.world.log = log
    if plog is not None:
        ob.world.plog = plog
    return s


def _loader_batches(s, workers):
    try:
        lb = []
        for bt in s.get_data_loader(num_workers=workers):
            lb.append([int(bt[0]), [[int(a), int(b)] for a, b in bt[1]]])
            if len(lb) > MAX_EVENTS:
                break
        return lb
    except Exception as e:  # noqa
        return type(e).__name__ + ": " + str(e)[:300]


def run_stream(case, start="case", pass0=None):
    """runs the case's history (default: construct, iterate once) on one set of objects
    -> dict(result=ok|NotImplementedError|AssertionError|RUNAWAY, log=[...] of the final iteration of object 0,
            hist=[earlier iterations], cfg_mutations=[...], pass0 / held0 = state of the shared sampler objects
            right before the final iteration, resolve=[...], ...)"""
    scenario = case.get("scenario") or default_scenario()
    ob = _Objects(case, start, pass0)
    snap = ob.snapshot()
    hist, muts = [], []
    out = {}
    res, log, plog = "ok", [], []

    def note_mutations(k):
        nonlocal snap
        now = ob.snapshot()
        for ci, (a, b) in enumerate(zip(snap, now)):
            for f, x, y in zip(CFG_FIELDS, a, b):
                if x != y:
                    muts.append([k, scenario[k][0], ci, f, x if f not in ("sampler", "collator") else "<object>",
                                 y if f not in ("sampler", "collator") else "<other object>"])
        snap = now

    for k, st in enumerate(scenario):
        last = k == len(scenario) - 1
        if st[0] == "build":
            try:
                ob.construct(st[1])
            except (NotImplementedError, AssertionError) as e:
                if st[1] == 0:
                    return {"result": type(e).__name__, "log": [], "hist": hist, "cfg_mutations": muts}
                hist.append({"obj": st[1], "k": None, "result": "ctor:" + type(e).__name__, "log": [],
                             "pass0": ob.passes(), "held0": ob.held()})
        elif st[0] == "set_epoch":
            ob.world.log = ob.world.outside
            ob.main.set_epoch(st[1])
        elif st[0] == "overlap":
            hist.extend(_overlap(ob, st[1], st[2]))
        elif st[0] == "iter":
            if st[1] not in ob.samplers:
                continue
            p0, h0 = ob.passes(), ob.held()
            r, lg, pl = ob.iterate(st[1], st[2])
            if last:
                res, log, plog = r, lg, pl
                out["pass0"], out["held0"] = p0, h0
            else:
                hist.append({"obj": st[1], "k": st[2], "result": r, "log": lg, "pass0": p0, "held0": h0})
        note_mutations(k)
    s = ob.samplers[0]
    out.update({"index_offsets": [int(x) for x in s.index_offsets], "result": res, "log": log, "plog": plog,
                "hist": hist, "cfg_mutations": muts, "storage_mutations": ob.storage_mutations(),
                "outside": [ev for ev in ob.world.outside][:50]})
    if res == "ok":
        # resolution of every distinct yielded index through the real concat dataset
        seen = {}
        for ev in log:
            if ev[0] == "Y" and ev[2] not in seen:
                try:
                    di, item = s.dataset[ev[2]]
                    seen[ev[2]] = [int(di), list(item)]
                except Exception as e:  # noqa
                    seen[ev[2]] = [type(e).__name__]
        out["resolve"] = sorted([k] + v for k, v in seen.items())
        # the batch sampler on a second, independent iteration (fresh objects in the same state)
        s2 = build(case, [], start, out["pass0"])
        try:
            bs = []
            for b in s2.batch_sampler:
                bs.append([int(i) for i in b])
                if len(bs) > MAX_EVENTS:
                    break
            out["batches"] = bs
        except AssertionError:
            out["batches"] = "AssertionError"
        if case.get("loader") is not None:
            # the real DataLoader (num_workers = case["loader"]) with one tagging collator per dataset
            out["loader_batches"] = _loader_batches(build(case, [], start, out["pass0"]), case["loader"])
    return out


def passes_before(fresh, e0, n_sides):
    """how often every side sampler was iterated in the run `fresh` before set_epoch(e0)"""
    try:
        k = fresh["log"].index(["E", e0])
    except ValueError:
        return None
    out = [0] * n_sides
    for ci, pos, *_ in fresh.get("plog", []):
        if pos <= k:
            out[ci] += 1
    return out


CPU_GUARD = 20.0     # seconds of the process's own CPU time for all runs of one case (a real one takes milliseconds)


def run_impl(case):
    """_run_impl under the CPU-time guard of harness/samplers.py (a loop that never ends and never yields, e.g. an
    epochs budget whose epoch counter stops advancing inside a sampler that is re-iterated without output, is not
    seen by the event cap of the iteration loops)"""
    from .samplers import Alarm, Runaway
    import torch  # noqa: F401  (first imports are not on the guard's clock)
    import kappadata.samplers  # noqa: F401
    try:
        with Alarm(cpu=CPU_GUARD, wall=240.0):
            return _run_impl(case)
    except Runaway:
        return {"result": "RUNAWAY", "log": [], "hist": [], "cfg_mutations": [], "guard": "cpu/wall-clock guard fired"}


def _run_impl(case):
    if case["start"] is None:
        obs = run_stream(case)
        obs.setdefault("pass0", [0] * len(case["sides"]))
        return obs
    # a resumed run is compared with the uninterrupted run of the real code on objects of its own; the side
    # sampler objects of the two runs are in the same state at the checkpoint (for samplers yielding the same
    # order every time this is immaterial)
    plain = {k: v for k, v in case.items() if k not in ("scenario", "others")}
    fresh = run_stream(plain, start=None)
    e0 = start_epoch_of(case)
    if e0 == "NotImplementedError" and not case.get("mut"):
        e0 = resume_point(case)     # a checkpoint the constructor may refuse; if it accepts it, the claim applies
    before = None
    if isinstance(e0, int) and fresh["result"] == "ok":
        before = passes_before(fresh, e0, len(case["sides"]))
    before = before or [0] * len(case["sides"])
    if case.get("scenario"):
        # the resumed object lives in a history; the state its side samplers have when its final iteration starts
        # decides where the uninterrupted reference has to start
        obs = run_stream(case)
        p0 = obs.get("pass0") or [0] * len(case["sides"])
        if p0 != before and any(sc.get("shuffle") is not None for sc in case["sides"]):
            fresh = run_stream(plain, start=None, pass0=[a - b for a, b in zip(p0, before)])
    else:
        obs = run_stream(case, pass0=before)
    obs.setdefault("pass0", before)
    if obs["result"] == "ok":
        obs["fresh"] = fresh["log"]
        if case.get("loader") is not None:
            obs["fresh_loader"] = fresh.get("loader_batches")
    return obs


# ---------------------------------------------------------------------------
# closed-form Python spec (independent of the Coq model)
# ---------------------------------------------------------------------------
def chunks(l, b):
    return [l[i:i + b] for i in range(0, len(l), b)]


def offsets(case):
    offs, acc = [], case["dsN"]
    for sc in case["sides"]:
        offs.append(acc)
        acc += sc["dslen"]
    return offs


def side_pass(case, ci, p=0, src=None, rec=None):
    sc = case["sides"][ci]
    off = offsets(case)[ci]
    bs = sc["bs"] or case["B"]
    out = []
    order = [src.next() % sc["dslen"] for _ in sc["idx"]] if (src is not None and sc.get("drawn")) else side_iter(sc, p)
    if rec is not None:
        rec.setdefault("side", {}).setdefault(ci, {})[p] = list(order)
    for b in chunks(order, bs):
        out += [["Y", False, off + i] for i in b[:-1]] + [["Y", True, off + b[-1]]]
    return out


def crossed(n, a, b):
    """some multiple of n lies in (a, b]"""
    return any(m % n == 0 for m in range(a + 1, b + 1))


def start_epoch_of(case):
    """-> (e0 | 'NotImplementedError' | 'AssertionError')"""
    exp = ctor_expect(raw_args(case))
    if exp != "ok":
        return exp
    spe, upe = geometry(case)
    st = case["start"]
    if st is None:
        return 0
    if st[0] == "epoch":
        return st[1]
    u = st[1] // case["B"] if st[0] == "sample" else st[1]
    return u // upe


def before_budget(case, e0):
    """the property's domain: the run starts (epoch e0 boundary) strictly before every budget given; a checkpoint at
    or past the budget never meets `update == updates` and is outside the claim"""
    if e0 == 0:
        return True
    spe, upe = geometry(case)
    bud = budgets(case)
    return all(v is None or pos < v
               for v, pos in ((bud["epochs"], e0), (bud["updates"], e0 * upe), (bud["samples"], e0 * spe)))


def resume_point(case):
    """the epoch boundary the case's checkpoint DENOTES in the uninterrupted run (None: it lies inside an epoch),
    whether or not the constructor accepts that form of checkpoint: start_update u is the state after u updates,
    start_sample s the state after s main samples.  With a short last batch (not drop_last, len % B != 0) an epoch
    has len samples but ceil(len / B) updates, so s = k * len is the end of epoch k although s / B updates is not."""
    st = case["start"]
    spe, upe = geometry(case)
    if st is None:
        return 0
    if st[0] == "epoch":
        return st[1]
    if st[0] == "update":
        return st[1] // upe if st[1] % upe == 0 else None
    return st[1] // spe if st[1] % spe == 0 else None


def gen_boundary_case(rng):
    """directed: geometries with a short last batch (drop_last=False, len % B != 0) and a start_sample /
    start_update checkpoint at k * len samples / k * updates_per_epoch updates strictly before the budget.  The
    constructor may refuse these (NotImplementedError); where it accepts one, the resumed run has to be the
    uninterrupted run's suffix from epoch k"""
    import math
    for _ in range(200):
        c = gen_bounded(rng)
        n = c["N"]
        if n < 2 or c.get("mut"):
            continue
        bs = [b for b in range(2, n + 1) if n % b]
        if not bs:
            continue
        b = rng.choice(bs)
        c["B"], c["drop_last"], c["D"] = b, False, None
        spe, upe = geometry(c)
        form = rng.choice(["sample", "sample", "sample", "update"])
        k = rng.choice([1, 1, 2, 3])
        if form == "sample":
            k *= b // math.gcd(n, b)          # start_sample has to be a multiple of the batch size
            c["start"] = ["sample", k * n]
        else:
            c["start"] = ["update", k * upe]
        more = rng.choice([1, 1, 2, 3])
        kind = rng.choice(["epochs", "updates", "samples"])
        c["budget"] = [kind, {"epochs": k + more, "updates": (k + more) * upe - rng.choice([0, 0, 1]),
                              "samples": (k + more) * spe - rng.choice([0, 0, 1, b])}[kind]]
        for sc in c["sides"]:
            if sc["ens"] is not None and rng.random() < 0.5:
                sc["ens"] = max(1, rng.choice([b, spe, spe - 1, 2 * b, 3]))
        if expected_events(c) <= GEN_EVENTS:
            return c
    return c


def spec_stream(case, e0, tag=False, pass0=None, pseq=None, rec=None):
    """the stream an uninterrupted run shows from the beginning of epoch e0 on (side samplers iterated pass0
    times before); with tag=True every event carries 'M' (main) / config index.  pseq (iterations that are live
    at the same time as others): per config, which iteration of the shared side sampler object each pass of THIS
    run was (recorded); after that the count carries on"""
    bud = budgets(case)
    pn = list(pass0 or [0] * len(case["sides"]))
    pseq = [list(x) for x in pseq] if pseq is not None else None
    # samplers drawing lazily from ONE shared source: the spec consumes the source in stream order
    src = _Source(case["drawn"]["seed"]) if case.get("drawn") is not None else None

    def take(ci):
        if pseq is not None and pseq[ci]:
            pn[ci] = pseq[ci].pop(0)
        pn[ci] += 1
        return pn[ci] - 1
    if any(v == 0 for v in bud.values()):
        out = []
        for ci in range(len(case["sides"])):
            out += [ev + [ci] if tag else ev for ev in side_pass(case, ci, take(ci), src, rec)]
        return out
    spe, upe = geometry(case)
    out = []
    e = e0
    while True:
        out.append(["E", e, "M"] if tag else ["E", e])
        out.append(["I", e, "M"] if tag else ["I", e])       # iter(main_sampler) is called with epoch e announced
        bs = chunks(main_iter(case, e)[:spe] if src is None else [None] * spe, case["B"])
        done = 0
        for j, b in enumerate(bs):
            if src is not None:
                b = [src.next() % case["dsN"] for _ in b]      # drawn when the scheduler pulls them
                if rec is not None:
                    rec.setdefault("main", {}).setdefault(e, []).extend(b)
            out += [["Y", False, i] + (["M"] if tag else []) for i in b[:-1]]
            out.append(["Y", True, b[-1]] + (["M"] if tag else []))
            prev = e * spe + done
            done += len(b)
            sample = e * spe + done
            update = e * upe + j + 1
            end = j + 1 == len(bs)
            epoch = e + 1 if end else e
            for ci, sc in enumerate(case["sides"]):
                due = ((sc["ene"] is not None and end and epoch % sc["ene"] == 0)
                       or (sc["enu"] is not None and update % sc["enu"] == 0)
                       or (sc["ens"] is not None and crossed(sc["ens"], prev, sample)))
                if due:
                    out += [ev + [ci] if tag else ev for ev in side_pass(case, ci, take(ci), src, rec)]
            if ((bud["epochs"] is not None and epoch == bud["epochs"])
                    or (bud["updates"] is not None and update == bud["updates"])
                    or (bud["samples"] is not None and sample >= bud["samples"])):
                return out
            if len(out) > 4 * MAX_EVENTS:
                return out
        e += 1


def cut_after(stream, k):
    """the part of a stream an iteration abandoned after k yielded items shows"""
    if k is None:
        return stream
    n = 0
    for i, ev in enumerate(stream):
        if ev[0] == "Y":
            n += 1
            if n >= k:
                return stream[:i + 1]
    return stream


def expected_iteration(case, h):
    """what an earlier iteration h = {obj, k, pass0} of the case's history has to show: an InterleavedSampler has
    no memory and reads nothing the shared sampler objects held before, so it is the stream of a FRESH object of
    that configuration (side samplers continuing from their own iteration counts), cut where it was abandoned"""
    j = h["obj"]
    oc = obj_case(case, j)
    e0 = start_epoch_of(oc)
    if isinstance(e0, str):
        return None
    sel = None if j == 0 else case["others"][j - 1].get("sel")
    p0 = h["pass0"] if sel is None else [h["pass0"][i] for i in sel]
    ps = h.get("pseq")
    if ps is not None and sel is not None:
        ps = [ps[i] for i in sel]
    return oc, cut_after(spec_stream(oc, e0, pass0=p0, pseq=ps), h["k"])


def history_violation(case, obs, proj=None, what="stream"):
    """every earlier iteration of the history, projected by proj(case_of_object, log), against the fresh model"""
    for n, h in enumerate(obs.get("hist") or []):
        name = f"history step: iteration of InterleavedSampler object #{h['obj']}" + \
               (f" (abandoned after {h['k']} items)" if h["k"] is not None else "") + \
               (f" [live iterator #{h['live']} of several simultaneously live iterations: each owns its counters]"
                if h.get("live") is not None else "")
        if ctor_expect(raw_args(obj_case(case, h["obj"]))) != "ok":
            continue
        e0h = start_epoch_of(obj_case(case, h["obj"]))
        if isinstance(e0h, int) and not before_budget(obj_case(case, h["obj"]), e0h):
            continue
        if h["result"].startswith("ctor:"):
            return f"history: constructing object #{h['obj']} with valid arguments raised {h['result'][5:]}"
        if h["result"] != "ok":
            return f"{name}: {h['result']}"
        e = expected_iteration(case, h)
        if e is None:
            continue
        oc, exp = e
        a, b = (exp, h["log"]) if proj is None else (proj(oc, exp), proj(oc, h["log"]))
        if a != b:
            k = next((i for i in range(min(len(a), len(b))) if a[i] != b[i]), min(len(a), len(b)))
            return (items_tag(a, b) + f"{name} (main sampler object held epoch {h['held0']} before, side samplers iterated "
                    f"{h['pass0']} times): {what} differs from what a fresh object of that configuration yields "
                    f"at event {k}: expected {a[k:k + 6]} got {b[k:k + 6]} ({len(a)} vs {len(b)} events)")
    return None


def config_mutation_violation(obs):
    m = obs.get("cfg_mutations")
    if m:
        k, op, ci, f, x, y = m[0]
        return (f"history step {k} ({op}) changed attribute {f!r} of the InterleavedSamplerConfig object #{ci} it "
                f"was given: {x!r} -> {y!r} (configs are shared between samplers; {len(m)} change(s) in all)")
    return None


def storage_violation(obs):
    m = obs.get("storage_mutations")
    if m:
        name, want, got = m[0]
        return (f"the {name} yields 0-d tensor views of an index tensor it keeps between iterations; the scheduler "
                f"changed that tensor in place: it held {want} and holds {got} after the run (what a sampler yields "
                f"belongs to the sampler; later passes draw other indices)")
    return None


def ds_ranges(case):
    offs = [0, case["dsN"]]
    for sc in case["sides"]:
        offs.append(offs[-1] + sc["dslen"])
    return offs


def ds_of(case, i):
    offs = ds_ranges(case)
    for d in range(len(offs) - 1):
        if offs[d] <= i < offs[d + 1]:
            return d, i - offs[d]
    return None, None


def ds_tag(case, d):
    """the tag of the dataset OBJECT at position d of the concatenation (0 = main sampler's, d = config d-1's): a
    config may draw from the object of the main sampler or of an earlier config"""
    if d is None or d == 0:
        return d
    sh = case["sides"][d - 1].get("share")
    return 0 if sh == "main" else d if sh is None else sh + 1


def expected_loader_batches(case, stream):
    """[collator tag, [[tag of the dataset object, sample], ...]] per batch of `stream`; the collator is the one of
    the CONFIG the batch was drawn for (configs sharing a dataset object keep their own collators)"""
    expb, cur = [], []
    for ev in stream:
        if ev[0] != "Y":
            continue
        cur.append(ev[2])
        if ev[1]:
            d = ds_of(case, cur[0])[0]
            expb.append([d, [[ds_tag(case, d), ds_of(case, i)[1]] for i in cur]])
            cur = []
    return expb


def side_set_epoch_calls(obs):
    return [ev for ev in obs.get("log", []) if ev[0] == "S"]


# ---------------------------------------------------------------------------
# rendering to Coq
# ---------------------------------------------------------------------------
COQ_PRELUDE = """From Coq Require Import ZArith List Bool.
Import ListNotations.
From KD Require Import C04.Model C04.Spec C04.Check.
Open Scope Z_scope.
"""


def drawn_record(case):
    """for samplers drawing from a shared source: what every iteration of every sampler object yields when the
    source is consumed in stream order (the model takes the samplers' iterations as given)"""
    if case.get("drawn") is None or isinstance(start_epoch_of(case), str):
        return None
    rec = {}
    spec_stream(case, 0, rec=rec)
    return rec


def coq_args(case, obs):
    raw = raw_args(case)
    calls = [0] * len(case["sides"])
    for ci, *_ in obs.get("plog", []):
        calls[ci] += 1
    pass0 = obs.get("pass0") or [0] * len(case["sides"])
    sides = []
    rec = drawn_record(case)
    for i, (sc, rs) in enumerate(zip(case["sides"], raw["sides"])):
        if sc.get("drawn") and rec is not None:
            got = rec.get("side", {}).get(i, {})
            sidx = Raw("(passes_fun " + coq([got.get(p, list(sc["idx"])) for p in range(pass0[i] + calls[i] + 2)]) + ")")
        elif sc.get("shuffle") is None:
            sidx = Raw("(fun _ => " + coq(list(sc["idx"])) + ")")
        else:
            sidx = Raw("(passes_fun " + coq([side_iter(sc, p) for p in range(pass0[i] + calls[i] + 2)]) + ")")
        sides.append(Rec(ene=Opt(rs["ene"]), enu=Opt(rs["enu"]), ens=Opt(rs["ens"]), sbs=Opt(rs["bs"]),
                         sidx=sidx, slen=len(sc["idx"]), dslen=sc["dslen"]))
    return Rec(a_N=raw["N"], a_dsN=raw["dsN"], a_B=raw["B"], a_drop_last=bool(raw["drop_last"]), a_D=Opt(raw["D"]),
               a_epochs=Opt(raw["epochs"]), a_updates=Opt(raw["updates"]), a_samples=Opt(raw["samples"]),
               a_start_epoch=Opt(raw["start_epoch"]), a_start_update=Opt(raw["start_update"]),
               a_start_sample=Opt(raw["start_sample"]), a_sides=sides)


NEVER = -1000003      # rendering of "the sampler object was never told an epoch" inside an observed OIterStart


def coq_obs(log):
    out = []
    for ev in log:
        if ev[0] == "E":
            out.append(C("OSetEpoch", ev[1]))
        elif ev[0] == "I":
            out.append(C("OIterStart", NEVER if ev[1] is None else ev[1]))
        elif ev[0] == "S":
            out.append(C("OSideSetEpoch", Nat(ev[1]), ev[2]))
        else:
            out.append(C("OYield", ev[1], ev[2]))
    return out


def coq_case_common(case, obs):
    result = {"ok": 0, "NotImplementedError": 1, "AssertionError": 2, "RUNAWAY": 3}[obs["result"]]
    epochs = [ev[1] for ev in obs["log"] if ev[0] == "E"]
    emin = min(epochs) if epochs else 0
    emax = max(epochs) + 1 if epochs else 0
    if case.get("main_kind") == "drawn":
        rec = drawn_record(case) or {}
        iters = [(rec.get("main", {}).get(e, []) + [0] * case["N"])[:case["N"]] for e in range(emin, emax + 1)]
    else:
        iters = [main_iter(case, e) for e in range(emin, emax + 1)]
    batches = obs.get("batches")
    bat = Opt(None if not isinstance(batches, list) else batches)
    resolve = [(r[0], Nat(r[1]), r[2][1]) for r in obs.get("resolve", []) if len(r) == 3]
    pb = case.get("post_budget")
    ovr = Opt(None if pb is None else (Opt(pb["epochs"]), Opt(pb["updates"]), Opt(pb["samples"])))
    offs = Opt(obs.get("index_offsets"))
    lb = obs.get("loader_batches")
    lbt = Opt(None if not isinstance(lb, list) else [(Nat(t), [x[1] for x in items]) for t, items in lb])
    pass0 = [Nat(p) for p in (obs.get("pass0") or [0] * len(case["sides"]))]
    held0 = Opt(obs.get("held0"))
    return (coq_args(case, obs), ovr, pass0, held0, Nat(result), emin, iters, coq_obs(obs["log"]), bat, resolve, offs, lbt)
