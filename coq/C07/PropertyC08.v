(* C08 - seeded sample wrappers make sample i a pure function of (data, config, seed, i). *)
From Coq Require Import ZArith List Bool String.
Import ListNotations.
From KD Require Import C07.RngGraph C07.Proofs C07.ModelC08 C07.ProofsC08 C07.gen.RngTable C07.TableProofs C07.TableProofsC08.
Open Scope Z_scope.

(* generic: over closed tables, whatever earlier requests (any order, any repetitions, any length) left in the
   transform slots and whatever the construction-time generators were, every generator a request for item i can
   draw from is the one seeded with seed + i *)
Theorem seeded_wrapper_pure : forall tbl wt,
    forallb (closed tbl) tbl = true ->
    forallb (wclosed tbl) wt = true ->
    forall w, wwf tbl wt w = true ->
    forall seed hist i q,
      In q (getitem_draws tbl wt seed i (run_history tbl wt seed hist w)) -> q = Inj (seed + i).
Proof. exact seeded_wrapper_pure_proof. Qed.
Print Assumptions seeded_wrapper_pure.

(* the same for whole access sequences: every draw made while index i is served, wherever and however often i occurs *)
Theorem access_sequence_pure : forall tbl wt,
    forallb (closed tbl) tbl = true ->
    forallb (wclosed tbl) wt = true ->
    forall seed idxs w, wwf tbl wt w = true ->
    forall i q, In (i, q) (seq_draws tbl wt seed idxs w) -> q = Inj (seed + i).
Proof. exact access_sequence_pure_proof. Qed.
Print Assumptions access_sequence_pure.

(* two copies with arbitrary slots (independently constructed instances; the copies of two dataloader workers, each
   serving its own part of the indices in its own order) draw item i from one and the same stream *)
Theorem any_two_copies_agree : forall tbl wt,
    forallb (closed tbl) tbl = true ->
    forallb (wclosed tbl) wt = true ->
    forall w1 w2, wwf tbl wt w1 = true -> wwf tbl wt w2 = true ->
    forall seed h1 h2 i q1 q2,
      In q1 (getitem_draws tbl wt seed i (run_history tbl wt seed h1 w1)) ->
      In q2 (getitem_draws tbl wt seed i (run_history tbl wt seed h2 w2)) ->
      q1 = q2.
Proof. exact any_two_copies_agree_proof. Qed.
Print Assumptions any_two_copies_agree.

(* stacks: several seeded layers (seeded wrapper above or below other wrappers), each run at whatever indices the
   layers above ask it for *)
Theorem stack_pure : forall tbl wt,
    forallb (closed tbl) tbl = true ->
    forallb (wclosed tbl) wt = true ->
    forall ls, layers_wf tbl wt ls = true ->
    forall seed i q, In (seed, i, q) (stack_seq_draws tbl wt ls) -> q = Inj (seed + i).
Proof. exact stack_pure_proof. Qed.
Print Assumptions stack_pure.

(* different indices, different streams *)
Theorem streams_distinct : forall seed i j : Z, seed + i = seed + j -> i = j.
Proof. exact streams_distinct_proof. Qed.
Print Assumptions streams_distinct.

Theorem no_stream_shared_between_indices : forall tbl wt,
    forallb (closed tbl) tbl = true ->
    forallb (wclosed tbl) wt = true ->
    forall w1 w2, wwf tbl wt w1 = true -> wwf tbl wt w2 = true ->
    forall seed h1 h2 i j q,
      In q (getitem_draws tbl wt seed i (run_history tbl wt seed h1 w1)) ->
      In q (getitem_draws tbl wt seed j (run_history tbl wt seed h2 w2)) ->
      i = j.
Proof. exact no_stream_shared_between_indices_proof. Qed.
Print Assumptions no_stream_shared_between_indices.

(* the wrapper table generated from today's sources is closed (guards admit every non-quiet transform class a field
   can hold, the wrappers' own draws come from the per-item generator) *)
Theorem wrapper_table_closed : forallb (wclosed rng_table) wrp_table = true.
Proof. exact wrapper_table_closed_proof. Qed.
Print Assumptions wrapper_table_closed.

(* hence for the shipped wrappers and transforms *)
Theorem shipped_seeded_wrappers_pure : forall w, wwf rng_table wrp_table w = true ->
    forall seed hist i q,
      In q (getitem_draws rng_table wrp_table seed i (run_history rng_table wrp_table seed hist w)) -> q = Inj (seed + i).
Proof. exact (seeded_wrapper_pure_proof rng_table wrp_table table_closed_proof wrapper_table_closed_proof). Qed.
Print Assumptions shipped_seeded_wrappers_pure.

Theorem shipped_seeded_stacks_pure : forall ls, layers_wf rng_table wrp_table ls = true ->
    forall seed i q, In (seed, i, q) (stack_seq_draws rng_table wrp_table ls) -> q = Inj (seed + i).
Proof. exact (stack_pure_proof rng_table wrp_table table_closed_proof wrapper_table_closed_proof). Qed.
Print Assumptions shipped_seeded_stacks_pure.

(* non-vacuity: a seeded XTransformWrapper around a patchwise transform (the class the old guard excluded) and a
   multi-view wrapper are instances of the generated tables, do draw, and forget the history *)
Example nonvacuous_x :
  let w := WObj "XTransformWrapper"
             [("transform", [Node "PatchwiseTransform" None
                               [("patchify", [Node "Patchify" None []]);
                                ("transform", [Node "KDRandomHorizontalFlip" (Some (Ctor 0%nat)) []]);
                                ("unpatchify", [Node "Unpatchify" None []])]])] in
  wwf rng_table wrp_table w = true
  /\ getitem_draws rng_table wrp_table 100 7 (run_history rng_table wrp_table 100 [3; 7; 3] w) = [Inj 107]
  /\ called_draws rng_table ["transform"%string] (match w with WObj _ k => k end) = [Ctor 0%nat].
Proof. vm_compute. repeat split. Qed.

Example nonvacuous_stack :
  let mv := WObj "KDMultiViewWrapper"
              [("transform_configs", [Node "KDRandomCrop" (Some (Ctor 0%nat)) [];
                                      Node "KDComposeTransform" None
                                        [("transforms", [Node "KDRandomGrayscale" (Some (Ctor 1%nat)) []])]])] in
  let mix := WObj "KDMixWrapper" [] in
  layers_wf rng_table wrp_table [(5, mix, [2; 0]); (40, mv, [2; 9; 0; 9])] = true
  /\ stack_seq_draws rng_table wrp_table [(5, mix, [2; 0]); (40, mv, [2; 9; 0; 9])]
     = [(5, 2, Inj 7); (5, 0, Inj 5);
        (40, 2, Inj 42); (40, 2, Inj 42); (40, 9, Inj 49); (40, 9, Inj 49);
        (40, 0, Inj 40); (40, 0, Inj 40); (40, 9, Inj 49); (40, 9, Inj 49)].
Proof. vm_compute. repeat split. Qed.
