"""C17 — DINO and I-JEPA mask collators emit well-formed, budget-respecting, non-overlapping masks."""
import builtins
import random
from fractions import Fraction

from .common import C, Nat, Raw, Rec, coq

ID = "C17"
COQ_FILES = ["C17/Model.v", "C17/Spec.v", "C17/Check.v", "C17/Proofs.v", "C17/Example.v", "C17/Property.v"]
COQ_PRELUDE = ("From Coq Require Import ZArith List Bool.\nImport ListNotations.\n"
               "From KD Require Import C17.Model C17.Spec C17.Check.\nOpen Scope Z_scope.\n")
COQ_CHECK = "check"
COQ_CASE_TYPE = "case_t"
SHARD = 40
ALLOWED_AXIOMS = []
TRUSTED = [
    "hand-written model coq/C17/Model.v of KDDinoMaskCollator.collate/_generate_mask/_mask_block and "
    "KDIjepaMaskCollator.collate/step/_sample_block_mask/_sample_block_mask_constrained (+ the clamp of "
    "_sample_block_size); tied to KD_REPO by this run's correspondence evaluation (masks / index rows compared cell by "
    "cell with the model fed the recorded draws)",
    "float-valued decisions are oracle values: int(round(sqrt(..))) block-size candidates (DINO h, w per try; I-JEPA "
    "raw h, w per step) are recorded by shadowing `round` in the collator modules; uniform draws are shipped as exact "
    "rationals of their binary64 value; int(u * num_patches) is modelled as exact floor (binary64 product rounding "
    "ignored)",
    "oracle contracts (Spec.draw_ok, also checked on every recorded draw by the Python oracle): rng.integers(lo,hi) in "
    "[lo,hi); lo <= rng.uniform(lo,hi) <= hi; int(round(sqrt(..))) >= 0; rng.shuffle applies a permutation.  The "
    "float32 torch.linspace the ratio bins come from is not modelled: the model only checks, on every ratio draw, that "
    "the upper bound passed to the generator is <= float32(mask_ratio_max) (shipped as the exact rational dRn/dRd; a "
    "violation is a Mismatch = DRIFT), and the Coq cap is floor(float32(ratio_max) * patches); the Python oracle uses "
    "the exact configured rational (the two differ by <= 1e-7 relative).  torch.Generator().manual_seed(s) "
    "+ torch.rand is a deterministic function of s (the block-size oracle is a function of the step; observed: two "
    "instances with different rngs/batches agree step by step)",
    "torch tensor plumbing (zeros, slicing assignment, nonzero, default_collate, concat, stack) is modelled on lists, "
    "not verified",
    "harness/c17.py: spy rng (delegating to numpy default_rng), shadowed round, torch shim (Generator subclass "
    "recording manual_seed), case rendering; every call of a sequence gets its own spy rng through set_rng (the draws "
    "are recorded per call; the collator object is the same for all calls of a case)",
    "DataLoader cases: the collator runs inside forked worker processes of a real torch DataLoader (one copy of the "
    "collator object per worker, multiprocessing.Value step counter shared); spies and traces live in the workers and "
    "travel back with the batch",
]
ASSUMPTIONS = [
    "DINO: 0 <= mask_prob <= 1 with int(batch*views*mask_prob) equal to the exact floor (cases where the binary64 "
    "product rounds across an integer, e.g. 3*fl(1/3) = 1.0, are not generated); batch >= 1; mask ratios rational with "
    "small denominators; grid 2..20 x 2..20; min_num_patches integer >= 0",
    "I-JEPA: batch >= 1, num_enc_masks >= 1, num_pred_masks >= 1, tries >= 1, min_keep >= 0, grid 2..20 x 2..20; "
    "encoder/predictor disjointness only claimed where enc_area - n_pred*pred_area > min_keep for the sizes of that "
    "step; outside that premise the real loop may relax the constraint (overlap possible, not claimed) and it never "
    "ends when the encoder block has <= min_keep patches (draws capped, classified RUNAWAY, the calls before it are "
    "still evaluated; a RUNAWAY with a larger encoder block is reported as a violation, cf. theorems "
    "ijepa_constrained_ends_when_block_exceeds_min_keep / ijepa_collate_draw_count_bound).  NOTE (genuine-defect "
    "candidate, outside the property as stated): KDIjepaMaskCollator hangs forever in `while True` whenever the clamped "
    "encoder block has <= min_keep patches, e.g. small grids with the default min_keep=10; inside the premise this cannot "
    "happen (premise => encoder area > min_keep => first try accepted: ijepa_no_retry_inside_premise)",
    "outside the premise the checks are: disjointness at the relaxation level reached (Coq: theorem on the constrained "
    "loop + exact model comparison; Python: the number of rejected iterations of a sample must suffice for the overlaps "
    "observed) and the draw-count bound of a whole call",
]
RULE = ("60% DINO / 40% I-JEPA. DINO: a case is a SEQUENCE of 1-4 calls on ONE collator object (an epoch with a smaller "
        "last batch / larger then smaller / smaller then larger / arbitrary batch sizes 1..8, x as tensor or list of views "
        "per call -- for half of the cases the list has FEWER or MORE entries than the configured num_views (1, V-1, V+1, "
        "V+2, V+4, 2V, 10: multi-crop layouts) with global / local views of different spatial sizes; the spec stays "
        "B*num_views masks and budget floor(B*num_views*p) with the CONFIGURED num_views, which is what the code does "
        "(no assertion on len(x)) --, 8% of the calls with ctx=None), grid HxW in 2..20 (60% non-square), views 1..3, mask_prob from "
        "{0,.1,.25,.3,.5,.75,.9,1}, ratio pairs from a rational list, min_num_patches 0..9, aspect bounds. I-JEPA: grid 2..20, 1-3 enc and 1-5 pred masks, scales/aspects, min_keep mostly "
        "inside the premise, tries 1..20, 1-4 calls per instance with varying batch sizes (same patterns, some ctx=None) plus "
        "a twin instance with other rngs/batches; grids 65% non-square.  2 (thorough: 60) cases run the collator as collate_fn "
        "of a real DataLoader with 1-3 forked workers and a smaller last batch. non-trivial = DINO: >= 1 non-empty mask with >= 2 blocks drawn; I-JEPA: an "
        "encoder block that had to drop cells because of a predictor block; distinct by configuration")

MAX_DRAWS_IJEPA = 4000
MAX_DRAWS_DINO = 400000


class Runaway(Exception):
    pass


# ---------------------------------------------------------------------------
# spies
# ---------------------------------------------------------------------------
def frac(x):
    if hasattr(x, "item"):
        x = x.item()
    if isinstance(x, int):
        return [x, 1]
    f = Fraction(float(x))
    return [f.numerator, f.denominator]


class SpyRng:
    """has the np.random.Generator methods the two collators use; delegates to a real default_rng"""

    def __init__(self, seed, trace, cap):
        import numpy as np
        self.g = np.random.default_rng(seed)
        self.trace = trace
        self.cap = cap
        self.n = 0

    def _tick(self):
        self.n += 1
        if self.n > self.cap:
            raise Runaway()

    def uniform(self, lo, hi):
        self._tick()
        v = self.g.uniform(lo, hi)
        self.trace.append(["U", frac(lo), frac(hi), frac(v)])
        return v

    def integers(self, lo, hi):
        self._tick()
        v = self.g.integers(lo, hi)
        self.trace.append(["I", int(lo), int(hi), int(v)])
        return v

    def shuffle(self, x):
        self._tick()
        before = list(x)
        self.g.shuffle(x)
        perm = []
        for y in x:
            perm.append(next(i for i, z in enumerate(before) if z is y))
        self.trace.append(["P", perm])


class _Shadow:
    """shadows the builtin `round` (and optionally `torch`) in a collator module for the duration of a case"""

    def __init__(self, mod, trace_ref, torch_shim=False):
        self.mod, self.trace_ref, self.torch_shim = mod, trace_ref, torch_shim

    def __enter__(self):
        tr = self.trace_ref

        def spy_round(x, *a):
            r = builtins.round(x, *a)
            tr[0].append(["R", int(r)])
            return r

        self.mod.round = spy_round
        if self.torch_shim:
            import torch
            self.real_torch = self.mod.torch

            class SpyGenerator(torch.Generator):
                def manual_seed(g, s):
                    tr[0].append(["S", int(s)])
                    return super().manual_seed(s)

            class Shim:
                Generator = SpyGenerator

                def __getattr__(s, name):
                    return getattr(torch, name)

            self.mod.torch = Shim()
        return self

    def __exit__(self, *a):
        del self.mod.round
        if self.torch_shim:
            self.mod.torch = self.real_torch


# ---------------------------------------------------------------------------
# case generation
# ---------------------------------------------------------------------------
RATIOS = [[0, 1], [1, 10], [1, 5], [1, 4], [3, 10], [2, 5], [1, 2], [3, 5], [3, 4], [9, 10], [1, 1], [1, 3], [2, 3]]
PROBS = [[0, 1], [1, 10], [1, 4], [3, 10], [1, 2], [3, 4], [9, 10], [1, 1], [1, 3], [2, 3], [1, 8], [7, 10]]


def _floor_ok(n, p):
    """int(n * float(p)) equals the exact floor of n*p"""
    return int(n * (p[0] / p[1])) == (n * p[0]) // p[1]


def dino_calls(case):
    """the successive calls made on ONE collator object; a case without "calls" (older corpus files) is a single call"""
    if "calls" in case:
        return case["calls"]
    return [{"B": case["B"], "ctx": case["ctx"], "x_list": case["x_list"], "seed": case["seed"]}]


def gen_batch_sizes(rng):
    """batch sizes seen by one collator object: one call / an epoch with a smaller last batch (drop_last=False) /
    larger then smaller / smaller then larger / arbitrary"""
    r = rng.random()
    if r < 0.2:
        return [rng.choice([1, 2, 3, 4, 5, 6])]
    if r < 0.45:
        full = rng.choice([2, 3, 4, 5, 6, 8])
        return [full] * rng.choice([1, 2, 3]) + [rng.randint(1, full - 1)]
    if r < 0.6:
        a = rng.choice([2, 3, 4, 6, 8])
        return [a, rng.randint(1, a - 1)]
    if r < 0.75:
        a = rng.choice([1, 2, 3, 4])
        return [a, a + rng.randint(1, 4)] + ([rng.randint(1, a)] if rng.random() < 0.5 else [])
    return [rng.choice([1, 2, 3, 4, 5, 6, 8]) for _ in range(rng.randint(2, 4))]


def gen_views(rng, V):
    """(number of entries of the list x, their side lengths): fewer / more entries than num_views, views of different sizes"""
    nx = rng.choice([v for v in (1, V - 1, V + 1, V + 2, V + 4, 2 * V, 10) if v >= 1 and v != V])
    if rng.random() < 0.2:
        nx = V
    g, l = rng.choice([(4, 2), (3, 1), (2, 2), (6, 3)])
    return nx, [g] * min(V, nx) + [l] * max(nx - V, 0)


def gen_dino(rng, big=False):
    hi = 20 if big else 12
    H = rng.choice([2, 3, 4, 5, 7, 8, rng.randint(2, hi), rng.randint(2, hi)])
    W = H if rng.random() < 0.4 else rng.choice([2, 3, 5, 8, rng.randint(2, hi)])
    V = rng.choice([1, 2, 2, 3])
    Bs = gen_batch_sizes(rng)
    if H * W > 100:
        Bs = [min(b, 4) for b in Bs][:3]
    B = Bs[0]
    for _ in range(200):
        p = rng.choice(PROBS)
        if all(_floor_ok(b * V, p) for b in Bs):
            break
    else:
        p = [1, 2]
    a, b = sorted([rng.choice(RATIOS), rng.choice(RATIOS)], key=lambda r: Fraction(*r))
    if rng.random() < 0.1:
        a = b
    if H * W > 150 and Fraction(*b) > Fraction(1, 2):
        b = [1, 2]
        if Fraction(*a) > Fraction(1, 2):
            a = [1, 10]
    x_list = rng.random() < 0.5
    calls = [{"B": b, "ctx": rng.random() >= 0.08, "x_list": x_list if rng.random() < 0.8 else not x_list,
              "seed": rng.randrange(10 ** 6)} for b in Bs]
    if rng.random() < 0.5:
        # x as a list whose length differs from the configured num_views (multi-crop: global + local crops of other
        # spatial sizes, only num_views of them are masked; or fewer entries than num_views)
        nx, sizes = gen_views(rng, V)
        for cl in calls:
            if cl["x_list"] and rng.random() < 0.85:
                cl["nx"], cl["sizes"] = nx, sizes
    return {"kind": "dino", "H": H, "W": W, "V": V, "p": p, "ratio": [a, b],
            "minp": rng.choice([0, 1, 2, 4, 4, 4, 6, 9]), "min_aspect": rng.choice([0.3, 0.3, 0.5, 0.1, 1.0]),
            "max_aspect": rng.choice([None, None, 2.0, 3.3]), "calls": calls}


def gen_ijepa(rng, big=False):
    hi = 20 if big else 14
    H = rng.choice([2, 3, 4, 5, 6, 8, 10, 14, rng.randint(2, hi), rng.randint(2, hi)])
    W = H if rng.random() < 0.35 else rng.choice([2, 3, 5, 8, rng.randint(2, hi), rng.randint(2, hi)])
    nE = rng.choice([1, 1, 2, 3])
    nP = rng.choice([1, 2, 3, 4, 4, 5])
    ps_lo = rng.choice([0.02, 0.05, 0.1, 0.15, 0.2])
    ps_hi = ps_lo + rng.choice([0.0, 0.05, 0.1])
    es_lo = rng.choice([0.4, 0.6, 0.85, 0.85, 1.0])
    es_hi = min(1.0, es_lo + rng.choice([0.0, 0.15, 0.3]))
    ar = rng.choice([[0.75, 1.5], [0.75, 1.5], [1.0, 1.0], [0.3, 3.0], [0.5, 0.5]])
    # rough size estimate to land mostly inside the premise
    est_enc = max(0, (int(H * W * es_lo) ** 0.5 - 1)) ** 2
    est_enc = min(est_enc, (H - 1) * (W - 1))
    est_pred = H * W * ps_hi + 2 * (H * W * ps_hi) ** 0.5 + 1
    room = int(est_enc - nP * est_pred)
    r = rng.random()
    if r < 0.7 and room > 0:
        min_keep = rng.choice([0, rng.randint(0, room), rng.randint(0, room), min(10, room)])
    elif r < 0.85:
        min_keep = rng.choice([0, 0, 1, 2])
    else:
        min_keep = rng.randint(0, max(1, int(H * W * es_lo)))
    Bs = [min(b, 5) for b in gen_batch_sizes(rng)]
    calls = [{"B": b, "ctx": rng.random() >= 0.1, "seed": rng.randrange(10 ** 6)} for b in Bs]
    twin = [{"B": rng.choice([1, 2, 3]), "ctx": True, "seed": rng.randrange(10 ** 6)}
            for c in calls if c["ctx"]] if rng.random() < 0.6 else []
    return {"kind": "ijepa", "H": H, "W": W, "patch": rng.choice([1, 1, 2]), "extra": rng.choice([0, 0, 1]),
            "nE": nE, "nP": nP, "pscale": [ps_lo, ps_hi], "escale": [es_lo, es_hi], "aspect": ar,
            "min_keep": min_keep, "tries": rng.choice([1, 2, 5, 20, 20]), "calls": calls, "twin": twin}


def gen_loader(rng):
    """the collator as collate_fn of a REAL torch DataLoader with worker processes (fork): every worker holds its own
    copy of the collator object and collates a subsequence of the batches, the last batch is smaller (drop_last=False);
    the I-JEPA step counter is a multiprocessing.Value shared by all workers"""
    c = gen_dino(rng) if rng.random() < 0.5 else gen_ijepa(rng)
    if c["kind"] == "ijepa":
        c["min_keep"] = min(c["min_keep"], 1)       # keep clear of the never-ending loop (encoder block <= min_keep)
        c["twin"] = []
    bs = rng.choice([2, 3, 4, 5])
    n = bs * rng.randint(1, 4) + rng.randint(1, bs - 1)
    if c["kind"] == "dino":
        for _ in range(50):
            if all(_floor_ok(b * c["V"], c["p"]) for b in (bs, n % bs)):
                break
            c["p"] = rng.choice(PROBS)
        else:
            c["p"] = [1, 2]
    c["calls"] = []
    c["loader"] = {"n": n, "batch_size": bs, "workers": rng.choice([1, 2, 2, 3]), "seed": rng.randrange(10 ** 6),
                   "x_list": rng.random() < 0.5}
    if c["kind"] == "dino" and c["loader"]["x_list"] and rng.random() < 0.5:
        c["loader"]["nx"], c["loader"]["sizes"] = gen_views(rng, c["V"])
    return c


def gen_case(rng, big=False):
    return gen_dino(rng, big) if rng.random() < 0.6 else gen_ijepa(rng, big)


def gen_cases(rng, tier):
    if tier == "quick":
        return [gen_case(rng) for _ in range(300)] + [gen_loader(rng) for _ in range(2)]
    return ([gen_case(rng) for _ in range(2000)] + [gen_case(rng, big=True) for _ in range(1000)]
            + [gen_loader(rng) for _ in range(60)])


def search_cases(rng, tier):
    # directed first: tiny blocks / tiny grids / many predictor masks, then the thorough stream
    for _ in range(300):
        c = gen_ijepa(rng)
        c["H"] = c["W"] = rng.choice([2, 3, 4, 5])
        c["pscale"] = [0.05, 0.15]
        c["min_keep"] = 0
        yield c
    for _ in range(300):
        c = gen_dino(rng)
        c["minp"] = rng.choice([0, 1])
        yield c
    for _ in range(20000):
        yield gen_case(rng, big=rng.random() < 0.3)


def shrink(case):
    c = case
    if c.get("loader"):
        ld = c["loader"]
        if ld["workers"] > 1:
            yield {**c, "loader": {**ld, "workers": ld["workers"] - 1}}
        if ld["n"] > ld["batch_size"] + 1:
            yield {**c, "loader": {**ld, "n": ld["n"] - ld["batch_size"]}}
        return
    if c["kind"] == "dino":
        calls = dino_calls(c)
        c = {k: v for k, v in c.items() if k not in ("B", "ctx", "x_list", "seed")}
        for i in range(len(calls)):
            if len(calls) > 1:
                yield {**c, "calls": calls[:i] + calls[i + 1:]}
        for i, cl in enumerate(calls):
            if cl["B"] > 1 and _floor_ok((cl["B"] - 1) * c["V"], c["p"]):
                yield {**c, "calls": calls[:i] + [{**cl, "B": cl["B"] - 1}] + calls[i + 1:]}
            if cl["x_list"]:
                yield {**c, "calls": calls[:i] + [{k: v for k, v in cl.items() if k not in ("nx", "sizes")} | {"x_list": False}] + calls[i + 1:]}
            if cl.get("nx") is not None:
                yield {**c, "calls": calls[:i] + [{k: v for k, v in cl.items() if k not in ("nx", "sizes")}] + calls[i + 1:]}
                if len(set(cl.get("sizes") or [2])) > 1:
                    yield {**c, "calls": calls[:i] + [{**cl, "sizes": [2] * cl["nx"]}] + calls[i + 1:]}
                for nx in (cl["nx"] - 1, c["V"] + 1):
                    if 1 <= nx < cl["nx"] and nx != c["V"]:
                        yield {**c, "calls": calls[:i] + [{**cl, "nx": nx, "sizes": (cl.get("sizes") or [2] * cl["nx"])[:nx]}] + calls[i + 1:]}
        if c["V"] > 1 and all(_floor_ok(cl["B"] * (c["V"] - 1), c["p"]) for cl in calls):
            yield {**c, "V": c["V"] - 1, "calls": calls}
        for k in ("H", "W"):
            if c[k] > 2:
                yield {**c, k: c[k] - 1, "calls": calls}
        if c["max_aspect"] is not None:
            yield {**c, "max_aspect": None, "calls": calls}
    else:
        if len(c["calls"]) > 1:
            yield {**c, "calls": c["calls"][:-1], "twin": []}
            yield {**c, "calls": c["calls"][1:], "twin": []}
        if c["twin"]:
            yield {**c, "twin": []}
        for i, cl in enumerate(c["calls"]):
            if cl["B"] > 1:
                yield {**c, "calls": c["calls"][:i] + [{**cl, "B": cl["B"] - 1}] + c["calls"][i + 1:], "twin": []}
        for k in ("nE", "nP"):
            if c[k] > 1:
                yield {**c, k: c[k] - 1}
        if c["patch"] != 1 or c["extra"]:
            yield {**c, "patch": 1, "extra": 0}
        for k in ("H", "W"):
            if c[k] > 2:
                yield {**c, k: c[k] - 1}


# ---------------------------------------------------------------------------
# running the implementation
# ---------------------------------------------------------------------------
def _batch(B, x_list, V, tag, nx=None, sizes=None):
    """B samples; x is a tensor, or (x_list) a list of nx views (default: as many as the collator's num_views; the
    multi-crop layout has more -- 2 global + N local crops with num_views=2 -- or fewer) of side lengths `sizes`"""
    import torch
    samples = []
    nx = V if nx is None else nx
    sizes = sizes or [2] * nx
    for i in range(B):
        if x_list:
            x = [torch.full((1, sizes[v % len(sizes)], sizes[v % len(sizes)]), float(100 * tag + 10 * i + v)) for v in range(nx)]
        else:
            x = torch.full((1, 2, 2), float(100 * tag + 10 * i))
        samples.append(((7 * i + tag, x), {}))
    return samples


def _same(a, b):
    import torch
    if isinstance(a, torch.Tensor):
        return isinstance(b, torch.Tensor) and a.shape == b.shape and a.dtype == b.dtype and bool(torch.equal(a, b))
    if isinstance(a, (list, tuple)):
        return type(a) is type(b) and len(a) == len(b) and all(_same(x, y) for x, y in zip(a, b))
    return a == b


def run_dino(case):
    """all calls of the case on ONE collator object; every call has its own spy rng (set_rng) so that the draws are
    recorded per call"""
    import importlib
    import torch
    mod = importlib.import_module("kappadata.collators.kd_dino_mask_collator")
    rmin, rmax = [r[0] / r[1] for r in case["ratio"]]
    coll = mod.KDDinoMaskCollator(
        mask_ratio=(rmin, rmax), mask_prob=case["p"][0] / case["p"][1], mask_size=(case["H"], case["W"]),
        num_views=case["V"], min_num_patches=case["minp"], min_aspect=case["min_aspect"],
        max_aspect=case["max_aspect"], dataset_mode="index x", return_ctx=True)
    out_calls = []
    ref = [None]
    with _Shadow(mod, ref):
        for k, cl in enumerate(dino_calls(case)):
            trace = []
            ref[0] = trace
            coll.set_rng(SpyRng(cl["seed"], trace, MAX_DRAWS_DINO))
            samples = _batch(cl["B"], cl["x_list"], case["V"], 1 + k, cl.get("nx"), cl.get("sizes"))
            expected = torch.utils.data.default_collate([s[0] for s in samples])
            obs = {"status": "ok", "trace": trace, "B": cl["B"], "ctx": cl["ctx"]}
            try:
                if cl["ctx"]:
                    out, ctx = coll(samples)
                    m = ctx.get("mask")
                    obs["ctx_keys"] = sorted(ctx.keys())
                    obs["shape"] = list(m.shape)
                    obs["dtype"] = str(m.dtype)
                    obs["mask"] = [["".join("1" if v else "0" for v in row) for row in mm] for mm in m.tolist()] \
                        if m.dim() == 3 else None
                    obs["passthrough"] = _same(out, expected)
                else:
                    out = coll.collate(expected, "index x", None)
                    obs["passthrough"] = out is expected
                    obs["mask"] = []
            except Runaway:
                obs["status"] = "RUNAWAY"
            except Exception as e:  # noqa
                obs["status"] = type(e).__name__ + ": " + str(e)[:200]
            out_calls.append(obs)
            if obs["status"] != "ok":
                break
    return {"calls": out_calls}


def _ijepa_instance(mod, case, calls, tag):
    import torch
    H, W, ps = case["H"], case["W"], case["patch"]
    coll = mod.KDIjepaMaskCollator(
        input_size=(H * ps + min(case["extra"], ps - 1), W * ps + min(case["extra"], ps - 1)), patch_size=ps,
        encoder_mask_scale=tuple(case["escale"]), predictor_mask_scale=tuple(case["pscale"]),
        predictor_aspect_ratio=tuple(case["aspect"]), num_enc_masks=case["nE"], num_pred_masks=case["nP"],
        min_keep=case["min_keep"], tries=case["tries"], dataset_mode="index x", return_ctx=True)
    out_calls = []
    ref = [None]
    with _Shadow(mod, ref, torch_shim=True):
        for k, cl in enumerate(calls):
            trace = []
            ref[0] = trace
            coll.set_rng(SpyRng(cl["seed"], trace, MAX_DRAWS_IJEPA))
            samples = _batch(cl["B"], False, 1, tag + k)
            expected = torch.utils.data.default_collate([s[0] for s in samples])
            o = {"status": "ok", "trace": trace, "B": cl["B"], "ctx": cl["ctx"]}
            try:
                if cl["ctx"]:
                    out, ctx = coll(samples)
                    o["ctx_keys"] = sorted(ctx.keys())
                    e, p = ctx["encoder_masks"], ctx["predictor_masks"]
                    o["enc_shape"], o["pred_shape"] = list(e.shape), list(p.shape)
                    o["dtype"] = [str(e.dtype), str(p.dtype)]
                    o["enc"], o["pred"] = e.tolist(), p.tolist()
                    o["passthrough"] = _same(out, expected)
                else:
                    out = coll.collate(expected, "index x", None)
                    o["passthrough"] = out is expected
                    o["enc"], o["pred"] = [], []
                o["counter"] = int(coll._itr_counter.value)
            except Runaway:
                o["status"] = "RUNAWAY"
            except Exception as e:  # noqa
                o["status"] = type(e).__name__ + ": " + str(e)[:200]
            out_calls.append(o)
            if o["status"] != "ok":
                break
    return out_calls


def run_ijepa(case):
    import importlib
    # a freshly executed module per case: state kept on the class / module (instead of the object) by one case must not
    # leak into the next one -- every case, and so every minimised replay, is judged on its own
    mod = importlib.reload(importlib.import_module("kappadata.collators.kd_ijepa_mask_collator"))
    return {"calls": _ijepa_instance(mod, case, case["calls"], 1),
            "twin": _ijepa_instance(mod, case, case["twin"], 5)}


class _LoaderDataset:
    def __init__(self, n, x_list, V, nx=None, sizes=None):
        self.samples = _batch(n, x_list, V, 3, nx, sizes)

    def __len__(self):
        return len(self.samples)

    def __getitem__(self, i):
        return self.samples[i]


class _LoaderCollate:
    """collate_fn handed to the DataLoader: the real collator under its spies; called inside the worker processes, each
    of which has its own (forked) copy of this object and of the collator"""

    def __init__(self, kind, mod, coll, seed, cap):
        self.kind, self.mod, self.coll, self.seed, self.cap = kind, mod, coll, seed, cap
        self.k = 0

    def __call__(self, samples):
        import torch
        info = torch.utils.data.get_worker_info()
        wid = info.id if info is not None else -1
        trace = []
        self.coll.set_rng(SpyRng(self.seed + 1000 * (wid + 1) + self.k, trace, self.cap))
        rec = {"wid": wid, "k": self.k, "B": len(samples), "trace": trace, "status": "ok"}
        self.k += 1
        out, ctx = None, {}
        with _Shadow(self.mod, [trace], torch_shim=self.kind == "ijepa"):
            try:
                out, ctx = self.coll(samples)
            except Runaway:
                rec["status"] = "RUNAWAY"
            except Exception as e:  # noqa
                rec["status"] = type(e).__name__ + ": " + str(e)[:200]
        if self.kind == "ijepa":
            rec["counter"] = int(self.coll._itr_counter.value)
        return out, ctx, rec


def run_loader(case):
    import importlib
    import torch
    ld = case["loader"]
    if case["kind"] == "dino":
        mod = importlib.import_module("kappadata.collators.kd_dino_mask_collator")
        rmin, rmax = [r[0] / r[1] for r in case["ratio"]]
        coll = mod.KDDinoMaskCollator(
            mask_ratio=(rmin, rmax), mask_prob=case["p"][0] / case["p"][1], mask_size=(case["H"], case["W"]),
            num_views=case["V"], min_num_patches=case["minp"], min_aspect=case["min_aspect"],
            max_aspect=case["max_aspect"], dataset_mode="index x", return_ctx=True)
        ds = _LoaderDataset(ld["n"], ld["x_list"], case["V"], ld.get("nx"), ld.get("sizes"))
        cap = MAX_DRAWS_DINO
    else:
        mod = importlib.import_module("kappadata.collators.kd_ijepa_mask_collator")
        H, W, ps = case["H"], case["W"], case["patch"]
        coll = mod.KDIjepaMaskCollator(
            input_size=(H * ps + min(case["extra"], ps - 1), W * ps + min(case["extra"], ps - 1)), patch_size=ps,
            encoder_mask_scale=tuple(case["escale"]), predictor_mask_scale=tuple(case["pscale"]),
            predictor_aspect_ratio=tuple(case["aspect"]), num_enc_masks=case["nE"], num_pred_masks=case["nP"],
            min_keep=case["min_keep"], tries=case["tries"], dataset_mode="index x", return_ctx=True)
        ds = _LoaderDataset(ld["n"], False, 1)
        cap = MAX_DRAWS_IJEPA
    loader = torch.utils.data.DataLoader(
        ds, batch_size=ld["batch_size"], shuffle=False, drop_last=False, num_workers=ld["workers"],
        collate_fn=_LoaderCollate(case["kind"], mod, coll, ld["seed"], cap), multiprocessing_context="fork",
        timeout=120)
    calls = []
    pos = 0
    try:
        for out, ctx, rec in loader:
            samples = ds.samples[pos:pos + rec["B"]]
            pos += rec["B"]
            o = {"status": rec["status"], "trace": rec["trace"], "B": rec["B"], "ctx": True, "wid": rec["wid"], "k": rec["k"]}
            if rec["status"] == "ok":
                expected = torch.utils.data.default_collate([s[0] for s in samples])
                o["passthrough"] = _same(out, expected)
                o["ctx_keys"] = sorted(ctx.keys())
                if case["kind"] == "dino":
                    m = ctx.get("mask")
                    o["shape"], o["dtype"] = list(m.shape), str(m.dtype)
                    o["mask"] = [["".join("1" if v else "0" for v in row) for row in mm] for mm in m.tolist()] \
                        if m.dim() == 3 else None
                else:
                    e, p = ctx["encoder_masks"], ctx["predictor_masks"]
                    o["enc_shape"], o["pred_shape"] = list(e.shape), list(p.shape)
                    o["dtype"] = [str(e.dtype), str(p.dtype)]
                    o["enc"], o["pred"] = e.tolist(), p.tolist()
                    o["counter"] = rec["counter"]
            calls.append(o)
    except Exception as e:  # noqa  (a worker died / timed out)
        calls.append({"status": "loader: " + type(e).__name__ + ": " + str(e)[:200], "trace": [], "B": 0, "ctx": True})
    expect_b = [ld["batch_size"]] * (ld["n"] // ld["batch_size"]) + ([ld["n"] % ld["batch_size"]] if ld["n"] % ld["batch_size"] else [])
    obs = {"calls": calls, "expected_batches": expect_b}
    if case["kind"] == "ijepa":
        obs["twin"] = []
    return obs


def run_impl(case):
    if case.get("loader"):
        return run_loader(case)
    return run_dino(case) if case["kind"] == "dino" else run_ijepa(case)


# ---------------------------------------------------------------------------
# independent Python oracle (states the property on the real output)
# ---------------------------------------------------------------------------
def ijepa_sizes(case, call):
    """(ph, pw, eh, ew) after clamping, and the raw rounds, read from the recorded trace of a ctx call"""
    r = [ev[1] for ev in call["trace"] if ev[0] == "R"]
    if len(r) != 4:
        return None, None
    H, W = case["H"], case["W"]
    return (min(r[0], H - 1), min(r[1], W - 1), min(r[2], H - 1), min(r[3], W - 1)), tuple(r)


def in_premise(case, sizes):
    ph, pw, eh, ew = sizes
    return eh * ew - case["nP"] * ph * pw > case["min_keep"]


def oracle_dino(case, obs):
    calls = dino_calls(case)
    if case.get("loader"):
        if [o["B"] for o in obs["calls"]] != obs["expected_batches"]:
            return f"DataLoader delivered batches of sizes {[o['B'] for o in obs['calls']]}, expected {obs['expected_batches']}"
        calls = [{"B": o["B"], "ctx": True, "x_list": case["loader"]["x_list"], "nx": case["loader"].get("nx"),
                      "sizes": case["loader"].get("sizes")} for o in obs["calls"]]
    if len(obs["calls"]) != len(calls) and obs["calls"][-1]["status"] == "ok":
        return "harness: number of observed calls"
    for k, (cl, o) in enumerate(zip(calls, obs["calls"])):
        msg = oracle_dino_call(case, cl, o)
        if msg:
            return f"call {k} of {len(calls)} on one collator object (batch sizes {[c['B'] for c in calls]}): " + msg
    return None


def oracle_dino_call(case, cl, obs):
    if obs["status"] != "ok":
        return "DINO collator did not return: " + obs["status"]
    if not obs["passthrough"]:
        return "batch data did not pass through unchanged"
    if not cl["ctx"]:
        if obs["trace"]:
            return "collate without ctx consumed random draws"
        return None
    H, W, V, B = case["H"], case["W"], case["V"], cl["B"]
    if obs["ctx_keys"] != ["mask"]:
        return f"ctx keys {obs['ctx_keys']}"
    if obs["shape"] != [B * V, H, W] or obs["dtype"] != "torch.bool":
        return f"mask has shape {obs['shape']} dtype {obs['dtype']}, expected {[B * V, H, W]} bool"
    counts = [sum(row.count("1") for row in m) for m in obs["mask"]]
    budget = (B * V * case["p"][0]) // case["p"][1]
    nonempty = sum(1 for c in counts if c > 0)
    if nonempty > budget:
        return f"{nonempty} non-empty masks, budget floor({B}*{V}*{case['p'][0]}/{case['p'][1]}) = {budget}"
    rn, rd = case["ratio"][1]
    cap = (rn * H * W) // rd
    if max(counts, default=0) > cap:
        return f"a mask has {max(counts)} masked patches, upper ratio allows floor({rn}/{rd}*{H * W}) = {cap}"
    # generator contracts on the recorded draws
    for ev in obs["trace"]:
        if ev[0] == "I" and not ev[1] <= ev[3] < ev[2]:
            return f"oracle contract: integers({ev[1]},{ev[2]}) returned {ev[3]}"
        if ev[0] == "U" and not Fraction(*ev[1]) <= Fraction(*ev[3]) <= Fraction(*ev[2]):
            return f"oracle contract: uniform outside its bounds {ev}"
        if ev[0] == "P" and sorted(ev[1]) != list(range(B * V)):
            return f"oracle contract: shuffle is not a permutation {ev[1]}"
        if ev[0] == "R" and ev[1] < 0:
            return f"oracle contract: int(round(sqrt(..))) returned {ev[1]}"
    return None


def _rect_dims(row, W):
    """(top, left, h, w) if the sorted index list is a full rectangle, else None"""
    if not row:
        return (0, 0, 0, 0)
    cells = [(x // W, x % W) for x in row]
    top, left = cells[0]
    bot, right = cells[-1][0] + 1, cells[-1][1] + 1
    h, w = bot - top, right - left
    if h <= 0 or w <= 0:
        return None
    if cells != [(i, j) for i in range(top, bot) for j in range(left, right)]:
        return None
    return (top, left, h, w)


def oracle_ijepa(case, obs):
    H, W, nE, nP = case["H"], case["W"], case["nE"], case["nP"]
    sizes_by_step = {}
    loader = bool(case.get("loader"))
    if loader:
        if [o["B"] for o in obs["calls"]] != obs["expected_batches"]:
            return f"DataLoader delivered batches of sizes {[o['B'] for o in obs['calls']]}, expected {obs['expected_batches']}"
        all_seeds = sorted(ev[1] for call in obs["calls"] for ev in call["trace"] if ev[0] == "S")
        if all(call["status"] == "ok" for call in obs["calls"]) and all_seeds != list(range(len(obs["calls"]))):
            return (f"DataLoader workers: the {len(obs['calls'])} batches were collated at steps {all_seeds}; with the shared "
                    f"step counter every step 0..{len(obs['calls']) - 1} is used exactly once")
    for name in ("calls", "twin"):
        step = -1
        for k, call in enumerate(obs[name]):
            where = f"{name}[{k}]"
            sizes, raw = (None, None)
            if call["ctx"]:
                step += 1
                sizes, raw = ijepa_sizes(case, call)
                seeds = [ev[1] for ev in call["trace"] if ev[0] == "S"]
                if loader and len(seeds) == 1:
                    step = seeds[0]          # whatever the other workers left in the shared counter
                if seeds != [step]:
                    return f"{where}: generator seeded with {seeds}, step counter says {step}"
                if sizes is None:
                    return f"{where}: expected 4 block-size roundings, trace has another number"
                if sizes_by_step.setdefault(step, raw) != raw:
                    return (f"{where}: block sizes at step {step} are {raw} but another instance with the same "
                            f"configuration got {sizes_by_step[step]} at that step")
            if call["status"] == "RUNAWAY":
                if sizes is not None and in_premise(case, sizes):
                    return f"{where}: constrained sampling does not end although the premise holds (sizes {sizes})"
                if sizes is not None and sizes[2] * sizes[3] > case["min_keep"]:
                    # after num_pred_masks * tries rejections no complement is applied any more and the whole
                    # encoder block (more than min_keep patches) is accepted: <= nP*tries + 1 iterations per mask,
                    # far below MAX_DRAWS_IJEPA for every generated configuration
                    return (f"{where}: constrained sampling does not end although the fully relaxed encoder block "
                            f"{sizes[2]}x{sizes[3]} has more than min_keep={case['min_keep']} patches")
                # encoder block area <= min_keep: `len(mask) > min_keep` can never hold, the real loop never ends
                # (outside the property's premise, not claimed); later calls of this instance are not made
                break
            if call["status"] != "ok":
                return f"{where}: I-JEPA collator did not return: {call['status']}"
            if not call["passthrough"]:
                return f"{where}: batch data did not pass through unchanged"
            if (call["counter"] < step) if loader else (call["counter"] != step):
                return f"{where}: step counter is {call['counter']}, expected {step}"
            if not call["ctx"]:
                if call["trace"]:
                    return f"{where}: collate without ctx consumed random draws"
                continue
            B = call["B"]
            if call["ctx_keys"] != ["encoder_masks", "predictor_masks"]:
                return f"{where}: ctx keys {call['ctx_keys']}"
            enc, pred = call["enc"], call["pred"]
            if len(call["enc_shape"]) != 2 or call["enc_shape"][0] != nE * B:
                return f"{where}: encoder_masks shape {call['enc_shape']}, expected ({nE * B}, K)"
            if len(call["pred_shape"]) != 2 or call["pred_shape"][0] != nP * B:
                return f"{where}: predictor_masks shape {call['pred_shape']}, expected ({nP * B}, K)"
            if call["dtype"] != ["torch.int64", "torch.int64"]:
                return f"{where}: dtypes {call['dtype']}"
            for nm, rows in (("encoder", enc), ("predictor", pred)):
                for r in rows:
                    if any(not 0 <= x < H * W for x in r):
                        return f"{where}: {nm} index out of range in {r}"
                    if any(a >= b for a, b in zip(r, r[1:])):
                        return f"{where}: {nm} indices not sorted / duplicate-free: {r}"
                if len({len(r) for r in rows}) > 1:
                    return f"{where}: {nm} rows of different lengths"
            dims = [_rect_dims(r, W) for r in pred]
            if any(d is None for d in dims):
                return f"{where}: a predictor mask is not a rectangle: {pred[dims.index(None)]}"
            if len({d[2:] for d in dims}) > 1:
                return f"{where}: predictor rectangles of different sizes {sorted({d[2:] for d in dims})}"
            ph, pw, eh, ew = sizes
            if dims and dims[0][2:] != (ph, pw) and ph * pw > 0:
                return f"{where}: predictor rectangles are {dims[0][2:]}, sampled size was {(ph, pw)}"
            if any(d[0] + d[2] > H or d[1] + d[3] > W for d in dims):
                return f"{where}: predictor rectangle leaves the grid"
            if in_premise(case, sizes):
                for b in range(B):
                    for j in range(nE):
                        e = set(enc[j * B + b])
                        for q in range(nP):
                            both = e & set(pred[q * B + b])
                            if both:
                                return (f"{where}: sample {b}: encoder mask {j} and predictor mask {q} share patches "
                                        f"{sorted(both)} although {eh}*{ew} - {nP}*{ph}*{pw} > {case['min_keep']}")
                n_int = sum(1 for ev in call["trace"] if ev[0] == "I")
                if n_int != 2 * B * (nE + nP):
                    return f"{where}: premise holds but the constrained sampling retried ({n_int} integer draws)"
            else:
                msg = relaxed_disjointness(case, call, sizes)
                if msg:
                    return f"{where}: {msg}"
            if eh * ew > case["min_keep"] and case["tries"] >= 1:
                n_int = sum(1 for ev in call["trace"] if ev[0] == "I")
                bound = B * (2 * nP + nE * 2 * (nP * case["tries"] + 1))
                if n_int > bound:
                    return (f"{where}: {n_int} integer draws for a batch of {B}, more than B*(2*nP + nE*2*(nP*tries+1)) = "
                            f"{bound} although the encoder block {eh}x{ew} has more than min_keep patches")
            for ev in call["trace"]:
                if ev[0] == "I" and not ev[1] <= ev[3] < ev[2]:
                    return f"oracle contract: integers({ev[1]},{ev[2]}) returned {ev[3]}"
                if ev[0] == "R" and ev[1] < 0:
                    return f"oracle contract: int(round(sqrt(..))) returned {ev[1]}"
    return None


def relaxed_disjointness(case, call, sizes):
    """outside the premise: the integer draws of a call are, per sample, 2 per predictor block (bounds H-ph, W-pw) followed
    by 2 per iteration of the constrained loops (bounds H-eh, W-ew).  If the two kinds can be told apart by their bounds,
    sample b made R_b encoder iterations; then there must be a split R_b = sum_j (n_j + 1) over its encoder masks such that
    encoder mask j shares no patch with the first max(nP - n_j // tries, 0) predictor masks of the sample."""
    H, W, nE, nP, T = case["H"], case["W"], case["nE"], case["nP"], case["tries"]
    ph, pw, eh, ew = sizes
    if (ph, pw) == (eh, ew) or T < 1:
        return None
    ints = [ev for ev in call["trace"] if ev[0] == "I"]
    pairs = [(ints[i][2], ints[i + 1][2]) for i in range(0, len(ints) - 1, 2)]
    B = call["B"]
    pos = 0
    for b in range(B):
        if pairs[pos:pos + nP] != [(H - ph, W - pw)] * nP:
            return None                       # not the layout described above: nothing is claimed here
        pos += nP
        r = 0
        while pos < len(pairs) and pairs[pos] == (H - eh, W - ew):     # the next sample starts with predictor draws
            r += 1
            pos += 1
        rejected = r - nE
        if rejected < 0:
            return None
        encs = [set(call["enc"][j * B + b]) for j in range(nE)]
        preds = [set(call["pred"][q * B + b]) for q in range(nP)]
        # smallest number of rejections mask j needs: the first level at which it avoids the predictor blocks it must avoid
        need = []
        for e in encs:
            clean = 0                          # e avoids the first `clean` predictor blocks
            while clean < nP and not (e & preds[clean]):
                clean += 1
            need.append(max(nP - clean, 0) * T)
        if sum(need) > rejected:
            return (f"sample {b}: {rejected} rejected encoder iterations (tries={T}) cannot explain the overlaps: the encoder "
                    f"masks would need at least {need} rejections to be allowed to overlap the predictor blocks they overlap")
    return None


def oracle(case, obs):
    if "harness_exception" in obs:
        return "harness exception: " + obs["harness_exception"] + obs.get("tb", "")
    return oracle_dino(case, obs) if case["kind"] == "dino" else oracle_ijepa(case, obs)


# ---------------------------------------------------------------------------
# rendering to Coq
# ---------------------------------------------------------------------------
def coq_applicable(case, obs):
    if "harness_exception" in obs:
        return False
    if case["kind"] == "dino":
        return any(c["status"] == "ok" and c.get("mask") is not None for c in _ok_prefix(obs["calls"]))
    # calls are rendered up to the first one that did not return (RUNAWAY outside the premise ends an instance)
    if case.get("loader"):
        return any(c["status"] == "ok" for c in obs["calls"])
    return any(c["status"] == "ok" for c in _ok_prefix(obs["calls"]) + _ok_prefix(obs["twin"]))


def _ok_prefix(calls):
    out = []
    for c in calls:
        if c["status"] != "ok":
            break
        out.append(c)
    return out


def coq_trace(trace, skip_rounds=False):
    out = []
    for ev in trace:
        if ev[0] == "U":
            out.append(C("DUnif", tuple(ev[1]), tuple(ev[2]), tuple(ev[3])))
        elif ev[0] == "R":
            if not skip_rounds:
                out.append(C("DRound", ev[1]))
        elif ev[0] == "I":
            out.append(C("DInt", ev[1], ev[2], ev[3]))
        elif ev[0] == "P":
            out.append(C("DPerm", [Nat(i) for i in ev[1]]))
        elif ev[0] == "S":
            out.append(C("DSeed", ev[1]))
        else:
            raise ValueError(ev)
    return out


def coq_case(case, obs):
    if case["kind"] == "dino":
        import numpy as np
        r32 = Fraction(float(np.float32(case["ratio"][1][0] / case["ratio"][1][1])))   # what linspace ends with
        cfg = Rec(dH=case["H"], dW=case["W"], dV=case["V"], dMinP=case["minp"], dPn=case["p"][0], dPd=case["p"][1],
                  dRn=r32.numerator, dRd=r32.denominator)
        rendered = []
        for o in _ok_prefix(obs["calls"]):
            if o.get("mask") is None:
                break
            if not o["ctx"]:
                rendered.append(C("DCall", False, o["B"], coq_trace(o["trace"]), []))
                continue
            masks = [[[ch == "1" for ch in row] for row in m] for m in o["mask"]]
            rendered.append(C("DCall", bool(o["ctx"]), o["B"], coq_trace(o["trace"]), masks))
        return coq(C("CDino", cfg, rendered))
    cfg = Rec(jH=case["H"], jW=case["W"], jNEnc=Nat(case["nE"]), jNPred=Nat(case["nP"]), jMinKeep=case["min_keep"],
              jTries=case["tries"])
    sizes = {}
    insts = []
    if case.get("loader"):
        # every batch was collated by some worker at the step it found in the shared counter
        for call in obs["calls"]:
            if call["status"] != "ok":
                continue
            seeds = [ev[1] for ev in call["trace"] if ev[0] == "S"]
            step = seeds[0] if len(seeds) == 1 else 0
            _, raw = ijepa_sizes(case, call)
            sizes.setdefault(step, raw or (0, 0, 0, 0))
            insts.append((step - 1, [C("JCall", True, call["B"], coq_trace(call["trace"], skip_rounds=True),
                                      call["enc"], call["pred"])]))
        size_list = [tuple(sizes.get(s, (0, 0, 0, 0))) for s in range(max(sizes, default=-1) + 1)]
        return coq(C("CIjepa", cfg, size_list, insts))
    for name in ("calls", "twin"):
        step = -1
        rendered = []
        for call in _ok_prefix(obs[name]):
            if call["ctx"]:
                step += 1
                _, raw = ijepa_sizes(case, call)
                sizes.setdefault(step, raw or (0, 0, 0, 0))
            rendered.append(C("JCall", bool(call["ctx"]), call["B"], coq_trace(call["trace"], skip_rounds=True),
                              call["enc"], call["pred"]))
        insts.append((-1, rendered))
    size_list = [tuple(sizes[s]) for s in range(len(sizes))]
    return coq(C("CIjepa", cfg, size_list, insts))


# ---------------------------------------------------------------------------
# evidence
# ---------------------------------------------------------------------------
def features(case, obs):
    yield "kind=" + case["kind"]
    if "harness_exception" in obs:
        yield "harness_exception"
        return
    if case.get("loader"):
        yield "%s.DataLoader workers=%d" % (case["kind"], case["loader"]["workers"])
        yield "%s.DataLoader batches collated by %d different worker copies of the collator" % (
            case["kind"], len({c.get("wid") for c in obs["calls"]}))
        if case["kind"] == "ijepa":
            seeds = [ev[1] for call in obs["calls"] for ev in call["trace"] if ev[0] == "S"]
            if seeds != sorted(seeds):
                yield "ijepa.DataLoader steps not in batch order (workers overtook each other)"
    if case["kind"] == "dino":
        calls = dino_calls(case)
        if case.get("loader"):
            calls = [{"B": o["B"], "ctx": True, "x_list": case["loader"]["x_list"], "nx": case["loader"].get("nx"),
                      "sizes": case["loader"].get("sizes")} for o in obs["calls"]]
        yield "dino.calls=%d" % len(calls)
        yield "dino.grid=%s" % ("square" if case["H"] == case["W"] else "non-square")
        yield "dino.cells=%s" % ("<=25" if case["H"] * case["W"] <= 25 else "<=100" if case["H"] * case["W"] <= 100 else ">100")
        bs = [c["B"] for c in calls if c["ctx"]]
        budgets = [(b * case["V"] * case["p"][0]) // case["p"][1] for b in bs]
        if any(x > y for x, y in zip(bs, bs[1:])):
            yield "dino.seq: larger batch then smaller batch"
        if any(x < y for x, y in zip(bs, bs[1:])):
            yield "dino.seq: smaller batch then larger batch"
        if any(x > y for x, y in zip(budgets, budgets[1:])):
            yield "dino.seq: mask budget shrinks between calls"
        if len({c["x_list"] for c in calls}) > 1:
            yield "dino.seq: x as tensor and as list of views"
        for cl, o in zip(calls, obs["calls"]):
            yield "dino.status=" + o["status"].split(":")[0]
            yield "dino.ctx=%s" % cl["ctx"]
            yield "dino.x_list=%s" % cl["x_list"]
            if cl["x_list"]:
                nx = cl.get("nx") or case["V"]
                yield "dino.len(x) %s num_views%s" % (
                    "<" if nx < case["V"] else "==" if nx == case["V"] else ">",
                    ", views of different sizes" if len(set(cl.get("sizes") or [2])) > 1 else "")
            if o.get("mask"):
                counts = [sum(row.count("1") for row in m) for m in o["mask"]]
                yield "dino.nonempty=%s" % min(sum(1 for c in counts if c), 4)
                n_blocks = sum(1 for ev in o["trace"] if ev[0] == "I") // 2
                yield "dino.blocks=%s" % ("0" if n_blocks == 0 else "1-5" if n_blocks <= 5 else "6-30" if n_blocks <= 30 else ">30")
    else:
        yield "ijepa.grid=%s" % ("square" if case["H"] == case["W"] else "non-square")
        for name in ("calls", "twin"):
            for call in obs[name]:
                yield "ijepa.status=" + call["status"].split(":")[0]
                if call["ctx"] and call["status"] in ("ok", "RUNAWAY"):
                    sizes, _ = ijepa_sizes(case, call)
                    if sizes:
                        prem = in_premise(case, sizes)
                        yield "ijepa.premise=%s" % prem
                        n_int = sum(1 for ev in call["trace"] if ev[0] == "I")
                        if n_int != 2 * call["B"] * (case["nE"] + case["nP"]):
                            yield "ijepa.retried(outside premise)"
                if not call["ctx"]:
                    yield "ijepa.ctx=None"
        yield "ijepa.twin=%s" % bool(case["twin"])


def nontrivial_key(case, obs):
    if "harness_exception" in obs:
        return None
    if case["kind"] == "dino":
        good = False
        for o in obs["calls"]:
            if o["status"] != "ok" or not o.get("mask"):
                continue
            n_blocks = sum(1 for ev in o["trace"] if ev[0] == "I") // 2
            if n_blocks >= 2 and any("1" in row for m in o["mask"] for row in m):
                good = True
        if not good:
            return None
        return ("dino", case["H"], case["W"], case["V"], tuple(c["B"] for c in obs["calls"]), tuple(case["p"]),
                str(case["ratio"]), case["minp"])
    for call in obs["calls"]:
        if call["status"] == "ok" and call["ctx"]:
            sizes, _ = ijepa_sizes(case, call)
            if sizes and call["enc"] and len(call["enc"][0]) < sizes[2] * sizes[3]:
                return ("ijepa", case["H"], case["W"], case["nE"], case["nP"], case["min_keep"], case["tries"],
                        str(case["pscale"]), str(case["escale"]))
    return None
