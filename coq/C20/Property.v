(* C20 — copy_folder_from_global_to_local / copy_imagefolder_from_global_to_local are crash-safe
   and idempotent.  Statements only; proofs are in Proofs.v.

   Quantification: every configuration (both functions, any destination path, plain folder /
   single zip / folder of zips with arbitrary well-formed content), every initial file system
   that is `fresh` (nothing at dst, temporary sibling name unused) or `manual` (dst exists without
   a start marker), every history = any number of invocations killed after an arbitrary number of
   operations -- between two of them or inside a write after an arbitrary number of bytes (a_torn) --
   (or stopped by an OSError) followed by one that returns, every directory-scan order
   (the oracle of rmtree / delete_folder_content) that lists entries below dst and -- for a call that gets as far
   as the end marker -- misses none, every num_workers and every schedule of the unzip workers (the oracle
   `sched` of Model.interleave). *)
From Coq Require Import List String Bool Arith ZArith.
Import ListNotations.
From Coq Require Import Permutation.
From KD Require Import C20.Model C20.Spec C20.Check C20.Proofs C20.CrossFs.

(* headline: whenever a call returns, dst is a complete copy -- or it was the user's folder and is untouched *)
Theorem crash_safe : forall c h order sched s0 s' r evs,
    src_ok c = true -> (fresh c s0 \/ manual c s0) ->
    attempts_ok c h s0 -> order_in_dst c order -> order_covers c (after_crashes true true c h s0) order ->
    history_run true true c h order sched s0 = Some (s', r, evs) ->
    (fresh c s0 /\ complete_copy c s') \/ (manual c s0 /\ s' = s0).
Proof. exact crash_safe_l. Qed.
Print Assumptions crash_safe.

(* the invariant behind it: after any history of killed invocations, if dst exists it contains the start
   marker, and the end marker is only there on a complete copy *)
Theorem start_marker_invariant : forall c h s,
    src_ok c = true -> auto_state c s -> attempts_ok c h s -> auto_state c (after_crashes true true c h s).
Proof. exact auto_state_history. Qed.
Print Assumptions start_marker_invariant.

Theorem fresh_is_auto_state : forall c s, fresh c s -> auto_state c s.
Proof. exact fresh_auto. Qed.
Print Assumptions fresh_is_auto_state.

(* a call that returns from any state automatic copying can be in leaves exactly source + markers *)
Theorem complete_call_yields_copy : forall c order sched s s' r evs,
    src_ok c = true -> auto_state c s -> order_in_dst c order -> order_covers c s order ->
    invoke true true c order sched s = Some (s', r, evs) ->
    complete_copy c s' /\
    (was_copied r = true ->
     lookup s' (smark c) = Some (File start_text) /\ lookup s' (emark c) = Some (File end_text)).
Proof. exact complete_call_yields_copy_l. Qed.
Print Assumptions complete_call_yields_copy.

(* a folder without start marker is never touched, by killed invocations or by the one that returns *)
Theorem manual_folder_untouched : forall c h order sched s0 s' r evs,
    manual c s0 -> history_run true true c h order sched s0 = Some (s', r, evs) ->
    s' = s0 /\ r = nothing_done /\ evs = [].
Proof. exact manual_untouched. Qed.
Print Assumptions manual_folder_untouched.

Theorem manual_folder_untouched_by_killed_calls : forall fa fw c h s, manual c s -> after_crashes fa fw c h s = s.
Proof. exact manual_crashes. Qed.
Print Assumptions manual_folder_untouched_by_killed_calls.

(* once a call has returned, no later history makes a single system call *)
Theorem completed_copy_never_redone : forall c h order sched s0 s' r evs,
    src_ok c = true -> fresh c s0 ->
    attempts_ok c h s0 -> order_in_dst c order -> order_covers c (after_crashes true true c h s0) order ->
    history_run true true c h order sched s0 = Some (s', r, evs) ->
    forall h2 order2 sched2, history_run true true c h2 order2 sched2 s' = Some (s', nothing_done, []).
Proof. exact completed_copy_never_redone_l. Qed.
Print Assumptions completed_copy_never_redone.

Theorem both_markers_mean_no_operation : forall c s, src_exists c = true ->
    lookup s (dst c) <> None -> lookup s (smark c) <> None -> lookup s (emark c) <> None ->
    (forall order sched, invoke true true c order sched s = Some (s, nothing_done, [])) /\
    (forall h, after_crashes true true c h s = s).
Proof. exact done_never_redone. Qed.
Print Assumptions both_markers_mean_no_operation.

(* the returned record says what was done *)
Theorem result_truthful : forall c order sched s s' r evs,
    src_ok c = true -> auto_state c s -> order_in_dst c order -> order_covers c s order ->
    invoke true true c order sched s = Some (s', r, evs) ->
    (was_copied r = true /\ source_format r = Some (format_of c) /\ evs <> [] /\
     complete_copy c s' /\ lookup s (emark c) = None /\
     (was_deleted r = true <-> lookup s (dst c) <> None))
    \/ (r = nothing_done /\ evs = [] /\ s' = s /\ complete_copy c s).
Proof. exact result_truthful_l. Qed.
Print Assumptions result_truthful.

(* whatever existed outside the destination and its temporary sibling keeps its content through any history
   (missing parent directories of the destination may be created, nothing else) *)
Theorem other_files_untouched : forall c h order sched s0 s' r evs,
    src_ok c = true -> auto_state c s0 -> attempts_ok c h s0 -> order_in_dst c order ->
    history_run true true c h order sched s0 = Some (s', r, evs) ->
    forall x, under (dst c) x = false -> under (tmp c) x = false -> lookup s0 x <> None ->
              lookup s' x = lookup s0 x.
Proof. exact other_files_untouched_l. Qed.
Print Assumptions other_files_untouched.

(* the implementation's walk over the source (copytree pre-order / zip member order) enumerates exactly the
   content of the source as Spec.src_lookup describes it.
   NAMES: Model.name is [string] and a path a list of names; nothing in Model.v / Spec.v / Check.v restricts the alphabet.  The
   only names that are ever inspected are the two marker names (equality), the suffix ".zip" of the entries directly inside
   the source directory (is_zip_name = item.endswith(".zip")) and the temporary sibling <dst>.autocopy_tmp (append).  The
   config c in this theorem - like in every theorem of this file - is universally quantified, so it holds for file and
   directory names with consecutive / leading / trailing dots, spaces, any bytes (non-ASCII names are their UTF-8 bytes),
   names of any length, names that differ only in case, names that contain "autocopy", marker names below the top level,
   any nesting depth and empty directories: a member "take..2.wav" or a directory "v1..v2" IS part of the source and
   complete_copy demands it (example dotted_names_are_names below; harness: NAME_CLASSES / gen_name in harness/c20.py, one
   logical tree in all three source formats judged against the same tree) *)
Theorem copy_walk_is_the_source : forall c, src_ok c = true -> forall r e,
    In (r, e) (src_entries c) <->
    (r = [] /\ e = Dir /\ In ([], Dir) (src_entries c)) \/ (r <> [] /\ src_lookup c r = Some e).
Proof. exact entries_spec. Qed.
Print Assumptions copy_walk_is_the_source.

(* the executable completeness test of Check.v implies the specification *)
Theorem complete_copyb_sound : forall c s, src_ok c = true -> complete_copyb c s = true -> complete_copy c s.
Proof. exact complete_copyb_sound_l. Qed.
Print Assumptions complete_copyb_sound.


(* ---------------------------------------------------------------------- *)
(* THE PARALLEL EXTRACTION OF A FOLDER OF ZIPS (num_workers >= 2)          *)
(* ---------------------------------------------------------------------- *)
(* run_unzip_jobs: the tasks handed to the workers are, together and in order, the whole list of zips -- for every
   number of zips and every num_workers (no zip is dropped or extracted twice) *)
Theorem unzip_jobs_cover_all_zips : forall (A : Type) (workers : nat) (zs : list A),
    List.concat (unzip_jobs workers zs) = zs.
Proof. exact unzip_jobs_concat. Qed.
Print Assumptions unzip_jobs_cover_all_zips.

(* whatever the schedule oracle does, every member of every job is extracted exactly once *)
Theorem any_schedule_runs_every_job_once : forall (A : Type) (sched : list nat) (jobs : list (list A)),
    Permutation (interleave sched jobs) (List.concat jobs).
Proof. exact interleave_perm. Qed.
Print Assumptions any_schedule_runs_every_job_once.

(* hence the members extracted by one call are a permutation of the members of the archives, and the entries it
   writes a permutation of the canonical walk over the source (which copy_walk_is_the_source ties to the source) *)
Theorem parallel_extraction_is_a_permutation : forall c sched items,
    Permutation (scheduled_members c sched items) (all_members c items).
Proof. exact scheduled_members_perm. Qed.
Print Assumptions parallel_extraction_is_a_permutation.

Theorem copy_entries_permute_the_walk : forall c sched, Permutation (copy_entries c sched) (src_entries c).
Proof. exact copy_entries_perm. Qed.
Print Assumptions copy_entries_permute_the_walk.

(* with num_workers <= 1 the schedule is irrelevant: the archives are extracted one after the other in listing order *)
Theorem sequential_extraction_ignores_schedule : forall c sched items, c_workers c <= 1 ->
    scheduled_members c sched items = all_members c items.
Proof. exact scheduled_members_sequential. Qed.
Print Assumptions sequential_extraction_ignores_schedule.

(* the order in which (consistent) entries are written does not matter for the resulting tree: two runs over
   permuted entry lists that both succeed end in the same state (finer than member granularity) *)
Theorem extraction_order_irrelevant : forall base es es' s s1 ev1 s2 ev2,
    (forall r e1 e2, In (r, e1) es -> In (r, e2) es -> e1 = e2) -> Permutation es es' ->
    run (flat_map (ops_of_entry base) es) s = Some (s1, ev1) ->
    run (flat_map (ops_of_entry base) es') s = Some (s2, ev2) ->
    forall x, lookup s1 x = lookup s2 x.
Proof. exact entries_order_irrelevant. Qed.
Print Assumptions extraction_order_irrelevant.

(* ---------------------------------------------------------------------- *)
(* the assumption on the interrupted calls, and the end marker             *)
(* ---------------------------------------------------------------------- *)
(* attempts_ok is weaker than "every call of the history sees an honest directory listing" *)
Theorem honest_listings_suffice : forall c h s, attempts_honest c h s -> attempts_ok c h s.
Proof. exact honest_attempts_ok. Qed.
Print Assumptions honest_listings_suffice.

(* a call that found an interrupted copy and is killed before it gets to the end marker leaves dst with its start
   marker and without end marker WHATEVER its directory scan returned (below dst) *)
Theorem killed_before_end_marker_needs_no_honest_listing : forall c order sched s k t,
    src_ok c = true ->
    lookup s (dst c) = Some Dir -> (exists a, lookup s (smark c) = Some (File a)) -> lookup s (emark c) = None ->
    tmp_small c s -> order_in_dst c order ->
    k <= List.length (wipe_ops true c order ++ common_ops c sched) - 2 ->
    let s' := crash_state_t (wipe_ops true c order ++ common_ops c sched) k t s in
    lookup s' (dst c) = Some Dir /\ (exists a, lookup s' (smark c) = Some (File a)) /\ lookup s' (emark c) = None.
Proof. exact wipe_killed_early_l. Qed.
Print Assumptions killed_before_end_marker_needs_no_honest_listing.

(* killed while the end marker is being written (or anywhere else; between two operations or, a_torn = Some n, inside
   a write after n bytes): if the end marker exists afterwards -- even empty or with a part of its text -- the copy
   is complete *)
Theorem end_marker_after_kill_means_complete : forall c s a, src_ok c = true -> auto_state c s ->
    order_in_dst c (a_order a) -> (seals c s a -> order_covers c s (a_order a)) ->
    lookup (invoke_crashed true true c s a) (emark c) <> None ->
    complete_copy c (invoke_crashed true true c s a).
Proof. exact end_marker_after_kill_l. Qed.
Print Assumptions end_marker_after_kill_means_complete.

(* ---------------------------------------------------------------------- *)
(* OUTSIDE THE PROPERTY: two copiers working on the same destination at once *)
(* ---------------------------------------------------------------------- *)
(* the model does NOT make the property true for concurrent copiers: A has copied a.txt when B starts with an honest
   listing, B takes A's work for an interrupted copy and deletes a.txt, A carries on and returns was_copied = true
   with the end marker in place and a.txt missing *)
Theorem concurrent_copiers_are_not_covered : exists opsA rA opsB rB s1 e1 s2 e2 s3 e3,
    plan w_cfg [] [] w_s0 = ORun opsA rA /\
    run (firstn 10 opsA) w_s0 = Some (s1, e1) /\
    order_in_dst w_cfg cc_orderB /\ order_covers w_cfg s1 cc_orderB /\
    plan w_cfg cc_orderB [] s1 = ORun opsB rB /\
    run (firstn 1 opsB) s1 = Some (s2, e2) /\
    run (skipn 10 opsA) s2 = Some (s3, e3) /\
    was_copied rA = true /\ lookup s3 (emark w_cfg) = Some (File end_text) /\ ~ complete_copy w_cfg s3.
Proof. exact concurrent_copiers_l. Qed.
Print Assumptions concurrent_copiers_are_not_covered.

(* the atomic Rename of the model is an assumption about two names in ONE directory (one file system): a move across file
   systems (shutil.move's copytree + rmtree fallback, CrossFs.cross_device_move) creates the destination first - killed after
   that first operation, ANY destination-less state s has become one where dst exists WITHOUT the start marker (what the
   code takes for a manually copied dataset).  The harness therefore requires every recorded rename to be between siblings
   and runs the crash points with local_path and the temporary directory on different file systems *)
Theorem move_across_file_systems_is_not_atomic : forall s tmp d,
    lookup s d = None -> lookup s (d ++ [sname]) = None -> parent_is_dir s d = true ->
    exists s1 evs, run (firstn 1 (cross_device_move tmp d)) s = Some (s1, evs) /\
                   lookup s1 d = Some Dir /\ lookup s1 (d ++ [sname]) = None.
Proof. exact cross_device_move_not_atomic_l. Qed.
Print Assumptions move_across_file_systems_is_not_atomic.

(* ---------------------------------------------------------------------- *)
(* THE CODE BEFORE THE REPAIRS (plan_gen false false): crash_safe is false *)
(* ---------------------------------------------------------------------- *)
(* window (i): killed between dst_path.mkdir(parents=True) and the creation of the start marker *)
Theorem crash_safe_prefix_refuted_mkdir_window : exists s' r evs,
    honest false false w_cfg w1_history w_s0 /\
    history_run false false w_cfg w1_history [] [] w_s0 = Some (s', r, evs) /\
    r = nothing_done /\ ~ complete_copy w_cfg s'.
Proof. exact w1_refutes. Qed.
Print Assumptions crash_safe_prefix_refuted_mkdir_window.

(* window (ii): killed inside shutil.rmtree after the start marker was unlinked *)
Theorem crash_safe_prefix_refuted_rmtree_window : exists s' r evs,
    honest false false w_cfg w2_history w_s0 /\
    order_covers w_cfg (after_crashes false false w_cfg w2_history w_s0) [w_dst ++ ["a.txt"%string]] /\
    history_run false false w_cfg w2_history [w_dst ++ ["a.txt"%string]] [] w_s0 = Some (s', r, evs) /\
    r = nothing_done /\ ~ complete_copy w_cfg s'.
Proof. exact (w2_refutes_gen false w2_history (or_introl (conj eq_refl eq_refl))). Qed.
Print Assumptions crash_safe_prefix_refuted_rmtree_window.

(* each repair alone leaves the other window open *)
Theorem atomic_creation_alone_is_not_enough : exists s' r evs,
    honest true false w_cfg w2_history_atomic w_s0 /\
    order_covers w_cfg (after_crashes true false w_cfg w2_history_atomic w_s0) [w_dst ++ ["a.txt"%string]] /\
    history_run true false w_cfg w2_history_atomic [w_dst ++ ["a.txt"%string]] [] w_s0 = Some (s', r, evs) /\
    r = nothing_done /\ ~ complete_copy w_cfg s'.
Proof. exact (w2_refutes_gen true w2_history_atomic (or_intror (conj eq_refl eq_refl))). Qed.
Print Assumptions atomic_creation_alone_is_not_enough.

Theorem keeping_the_marker_alone_is_not_enough : exists s' r evs,
    honest false true w_cfg w1_history w_s0 /\
    history_run false true w_cfg w1_history [] [] w_s0 = Some (s', r, evs) /\
    r = nothing_done /\ ~ complete_copy w_cfg s'.
Proof. exact w1_refutes_wipe_fix_only. Qed.
Print Assumptions keeping_the_marker_alone_is_not_enough.

(* ---------------------------------------------------------------------- *)
(* non-vacuity                                                             *)
(* ---------------------------------------------------------------------- *)
(* the premises of crash_safe / completed_copy_never_redone / complete_call_yields_copy / result_truthful hold for a
   history with three killed invocations (killed while copying, killed at once, killed after the wipe) *)
Example premises_satisfiable_fresh :
    src_ok w_cfg = true /\ fresh w_cfg w_s0 /\ attempts_ok w_cfg nv_history w_s0 /\
    order_in_dst w_cfg nv_order /\ order_covers w_cfg (after_crashes true true w_cfg nv_history w_s0) nv_order /\
    exists s' evs, history_run true true w_cfg nv_history nv_order [] w_s0 = Some (s', res_wipe w_cfg, evs).
Proof. exact nv_premises. Qed.

Example premises_satisfiable_manual :
    manual w_cfg nv_manual_s0 /\
    history_run true true w_cfg nv_history nv_order [] nv_manual_s0 = Some (nv_manual_s0, nothing_done, []).
Proof. exact nv_manual. Qed.

(* a folder of three class-wise zips extracted by two workers under a schedule that differs from the sequential
   order: the premises hold, the call returns, the copy is complete *)
Example premises_satisfiable_parallel :
    src_ok par_cfg = true /\ fresh par_cfg w_s0 /\
    unzip_jobs (c_workers par_cfg) (zip_items [("n1.zip", TFile []); ("n0.zip", TFile []); ("README", TFile [82%Z]); ("n2.zip", TFile [])]%string)
      = [["n1.zip"]; ["n0.zip"]; ["n2.zip"]]%string /\
    copy_entries par_cfg par_sched <> src_entries par_cfg /\
    exists s' evs, invoke true true par_cfg [] par_sched w_s0 = Some (s', res_create par_cfg, evs)
                   /\ complete_copyb par_cfg s' = true.
Proof. exact par_witness. Qed.

(* a call killed inside the write of the end marker (5 bytes are out): the end marker is there, the copy is complete,
   the next call does nothing *)
Example torn_end_marker_is_complete :
    attempts_ok w_cfg torn_history w_s0 /\
    lookup (after_crashes true true w_cfg torn_history w_s0) (emark w_cfg) = Some (File (firstn 5 end_text)) /\
    complete_copyb w_cfg (after_crashes true true w_cfg torn_history w_s0) = true /\
    history_run true true w_cfg torn_history [] [] w_s0
      = Some (after_crashes true true w_cfg torn_history w_s0, nothing_done, []).
Proof. exact torn_end_marker_witness. Qed.

(* the two refuting histories are harmless for the repaired code *)
Example refuting_histories_are_handled_now : forall h, h = w1_history \/ h = w2_history_atomic ->
    exists s' r evs, history_run true true w_cfg h [w_dst ++ [sname]] [] w_s0 = Some (s', r, evs)
                     /\ complete_copyb w_cfg s' = true /\ was_copied r = true.
Proof. exact w_repaired_ok. Qed.

(* names are arbitrary strings: a single zip whose members have consecutive / leading / trailing dots, a space as a name,
   siblings that differ only in case, marker names below the top level and a name containing a quote satisfies the premises;
   the uninterrupted call over it returns, the copy is complete, and completeness means that these very members exist *)
Definition dots_cfg : config :=
  {| c_variant := VFolder; c_parent := ["l"%string]; c_name := "my data..v1"%string; c_dir := None; c_zips := [];
     c_zip := Some [ {| m_path := ["take..2.wav"%string]; m_file := Some [1%Z; 2%Z] |};
                     {| m_path := ["v1..v2"%string; "..."%string; " "%string]; m_file := Some [8%Z] |};
                     {| m_path := ["..hidden"%string]; m_file := Some [] |};
                     {| m_path := ["trailing.."%string]; m_file := None |};
                     {| m_path := ["A.txt"%string]; m_file := Some [65%Z] |};
                     {| m_path := ["a.txt"%string]; m_file := Some [97%Z] |};
                     {| m_path := ["sub"%string; "autocopy_end.txt"%string]; m_file := Some [2%Z] |};
                     {| m_path := ["q""uote"%string]; m_file := Some [34%Z] |} ];
     c_workers := 0 |}.

Example dotted_names_are_names :
    src_ok dots_cfg = true /\ fresh dots_cfg [([], Dir); (["l"%string], Dir)] /\
    src_lookup dots_cfg ["take..2.wav"%string] = Some (File [1%Z; 2%Z]) /\
    src_lookup dots_cfg ["v1..v2"%string; "..."%string] = Some Dir /\
    src_lookup dots_cfg ["trailing.."%string] = Some Dir /\
    exists s' evs, invoke true true dots_cfg [] [] [([], Dir); (["l"%string], Dir)] = Some (s', res_create dots_cfg, evs)
                   /\ complete_copyb dots_cfg s' = true
                   /\ lookup s' (dst dots_cfg ++ ["take..2.wav"%string]) = Some (File [1%Z; 2%Z])
                   /\ lookup s' (dst dots_cfg ++ ["v1..v2"%string; "..."%string; " "%string]) = Some (File [8%Z])
                   /\ lookup s' (dst dots_cfg ++ ["a.txt"%string]) = Some (File [97%Z])
                   /\ lookup s' (dst dots_cfg ++ ["A.txt"%string]) = Some (File [65%Z]).
Proof.
  split; [vm_compute; reflexivity|]. split; [split; intros r; reflexivity|].
  split; [vm_compute; reflexivity|]. split; [vm_compute; reflexivity|]. split; [vm_compute; reflexivity|].
  eexists. eexists. split; [vm_compute; reflexivity|]. repeat split; vm_compute; reflexivity.
Qed.
