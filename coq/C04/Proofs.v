(* proofs *)
