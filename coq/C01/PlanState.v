(* C01: the state of the constructor's fuse loop before position i in closed form -- which positions earlier joint
   loads have consumed ([consumed]: occurrence number below the number of joint loads fired so far) -- and what one
   more position changes. *)
From Coq Require Import ZArith List Bool String Ascii Lia Arith.
Import ListNotations.
From KD Require Import C01.Model C01.Spec C01.Check C01.Proofs.
From KD Require Import C01.Occ.
Local Open Scope nat_scope.
Local Notation length := List.length.

Lemma list_ext_nth_error : forall A (a b : list A), (forall q, nth_error a q = nth_error b q) -> a = b.
Proof.
  intros A a; induction a as [|x r IH]; intros b H.
  - destruct b; auto. specialize (H 0). discriminate.
  - destruct b as [|y s]; [specialize (H 0); discriminate|].
    pose proof (H 0) as H0. simpl in H0. inversion H0; subst. f_equal. apply IH. intro q. apply (H (S q)).
Qed.

Lemma spec_plan_from_app : forall groups items a b p,
  spec_plan_from groups items p (a ++ b) =
  spec_plan_from groups items p a ++ spec_plan_from groups items (p + length a) b.
Proof.
  intros groups items a; induction a as [|s r IH]; intros b p; simpl.
  - rewrite Nat.add_0_r. reflexivity.
  - rewrite IH. rewrite app_assoc. replace (S p + length r) with (p + S (length r)) by lia. reflexivity.
Qed.

Section Eq.
  Variable groups : list (list string).
  Variable items : list string.
  Hypothesis Hok : groups_ok groups.

  Definition cnt (s : string) (q : nat) : nat := occ s (firstn q items).

  (* joint loads of group g that happened before position i *)
  Definition fired (g : list string) (i : nat) : nat :=
    match g with [] => 0 | h :: _ => Nat.min (joint_loads items g) (cnt h i) end.

  Definition consumed (i q : nat) : bool :=
    match nth_error items q with
    | Some s => match group_of groups s with
                | Some g => cnt s q <? fired g i
                | None => false
                end
    | None => false
    end.

  Definition exp_temp (i : nat) : list (option string) :=
    map (fun q => if consumed i q then None else nth_error items q) (seq 0 (length items)).

  Lemma exp_temp_length : forall i, length (exp_temp i) = length items.
  Proof. intro. unfold exp_temp. rewrite map_length, seq_length. reflexivity. Qed.

  Lemma exp_temp_nth : forall i q, q < length items ->
    nth_error (exp_temp i) q = Some (if consumed i q then None else nth_error items q).
  Proof. intros i q H. unfold exp_temp. rewrite nth_error_map'. rewrite nth_error_seq by auto. reflexivity. Qed.

  Lemma exp_temp_nth_none : forall i q, length items <= q -> nth_error (exp_temp i) q = None.
  Proof. intros. apply nth_error_None. rewrite exp_temp_length. auto. Qed.

  Lemma exp_temp_some : forall i q op, nth_error (exp_temp i) q = Some (Some op) <->
    nth_error items q = Some op /\ consumed i q = false.
  Proof.
    intros i q op. destruct (lt_dec q (length items)) as [Hq|Hq].
    - rewrite exp_temp_nth by auto. destruct (consumed i q); split.
      + discriminate.
      + intros [_ H]; discriminate.
      + intro H. inversion H. auto.
      + intros [H _]. rewrite H. reflexivity.
    - rewrite exp_temp_nth_none by lia. split; [discriminate|]. intros [H _].
      assert (q < length items) by (apply nth_error_Some; congruence). lia.
  Qed.

  (* facts about cnt *)
  Lemma cnt_S : forall s q x, nth_error items q = Some x -> cnt s (S q) = cnt s q + (if String.eqb s x then 1 else 0).
  Proof. intros. unfold cnt. apply occ_firstn_S; auto. Qed.

  Lemma cnt_mono : forall s q q', q <= q' -> cnt s q <= cnt s q'.
  Proof. intros. unfold cnt. apply occ_firstn_mono; auto. Qed.

  Lemma cnt_lt_occ : forall s q, nth_error items q = Some s -> cnt s q < occ s items.
  Proof.
    intros s q H. pose proof (cnt_S s q s H) as HS. rewrite String.eqb_refl in HS.
    pose proof (occ_firstn_le s items (S q)). unfold cnt in *. lia.
  Qed.

  Lemma cnt_lt_pos : forall s q q', nth_error items q = Some s -> q < q' -> cnt s q < cnt s q'.
  Proof.
    intros s q q' H Hlt. pose proof (cnt_S s q s H) as HS. rewrite String.eqb_refl in HS.
    pose proof (cnt_mono s (S q) q' ltac:(lia)). lia.
  Qed.

  Lemma nth_occ_cnt : forall s k q, nth_occ s k 0 items = Some q <-> nth_error items q = Some s /\ cnt s q = k.
  Proof.
    intros s k q. split.
    - intro H. destruct (nth_occ_spec _ _ _ _ _ H) as [_ [H2 H3]]. rewrite Nat.sub_0_r in *. auto.
    - intros [H1 H2]. rewrite <- H2. unfold cnt. rewrite (nth_occ_complete s items q 0 H1). reflexivity.
  Qed.

  Lemma group_nonempty : forall g, In g groups -> exists h tl, g = h :: tl.
  Proof.
    intros g Hg. destruct Hok as [Hf _]. rewrite Forall_forall in Hf. destruct (Hf g Hg) as [_ Hne].
    destruct g; [congruence | eauto].
  Qed.

  (* an unconsumed occurrence of a member exists iff fewer joint loads happened than the member occurs *)
  Lemma mem_exp_temp : forall g i op, In g groups -> In op g ->
    mem oeqb (Some op) (exp_temp i) = true <-> fired g i < occ op items.
  Proof.
    intros g i op Hg Hop. destruct Hok as [_ Hnd]. rewrite mem_nth. split.
    - intros [q Hq]. apply exp_temp_some in Hq. destruct Hq as [Hq Hc].
      unfold consumed in Hc. rewrite Hq in Hc. rewrite (group_of_in groups op g Hnd Hg Hop) in Hc.
      apply Nat.ltb_ge in Hc. pose proof (cnt_lt_occ op q Hq). lia.
    - intro H. destruct (nth_occ_some op items (fired g i) 0 H) as [q Hq].
      apply nth_occ_cnt in Hq. destruct Hq as [Hq Hc]. exists q. apply exp_temp_some. split; auto.
      unfold consumed. rewrite Hq. rewrite (group_of_in groups op g Hnd Hg Hop). apply Nat.ltb_ge. lia.
  Qed.

  Lemma index_of_exp_temp : forall g i op q, In g groups -> In op g ->
    nth_occ op (fired g i) 0 items = Some q -> index_of oeqb (Some op) (exp_temp i) = Some q.
  Proof.
    intros g i op q Hg Hop Hq. destruct Hok as [_ Hnd]. apply nth_occ_cnt in Hq. destruct Hq as [Hq Hc].
    apply index_of_first.
    - apply exp_temp_some. split; auto. unfold consumed. rewrite Hq.
      rewrite (group_of_in groups op g Hnd Hg Hop). apply Nat.ltb_ge. lia.
    - intros j Hj Hcontra. apply exp_temp_some in Hcontra. destruct Hcontra as [Hjq Hjc].
      unfold consumed in Hjc. rewrite Hjq in Hjc. rewrite (group_of_in groups op g Hnd Hg Hop) in Hjc.
      apply Nat.ltb_ge in Hjc. pose proof (cnt_lt_pos op j q Hjq Hj). lia.
  Qed.

  (* how the number of joint loads changes when position i is passed *)
  Lemma fired_S_other : forall h tl i s, nth_error items i = Some s -> h <> s -> fired (h :: tl) (S i) = fired (h :: tl) i.
  Proof.
    intros h tl i s Hs Hne. unfold fired. rewrite (cnt_S h i s Hs).
    replace (String.eqb h s) with false by (symmetry; apply String.eqb_neq; auto). rewrite Nat.add_0_r. reflexivity.
  Qed.

  Lemma fired_S_head : forall h tl i, nth_error items i = Some h ->
    fired (h :: tl) (S i) = Nat.min (joint_loads items (h :: tl)) (cnt h i + 1).
  Proof. intros h tl i Hs. unfold fired. rewrite (cnt_S h i h Hs). rewrite String.eqb_refl. reflexivity. Qed.

  (* the loop state stays put when no group fires at i *)
  Lemma exp_temp_same : forall i,
    (forall g, In g groups -> fired g (S i) = fired g i) -> exp_temp (S i) = exp_temp i.
  Proof.
    intros i H. unfold exp_temp. apply map_ext. intro q. unfold consumed.
    destruct (nth_error items q) as [s|]; auto. destruct (group_of groups s) as [g|] eqn:Eg; auto.
    destruct (group_of_some _ _ _ Eg) as [Hg _]. rewrite (H g Hg). reflexivity.
  Qed.
End Eq.
