(* C10 -- executable model of KDMixCollator.collate (kappadata/collators/kd_mix_collator.py,
   REPAIRED tree: fixes/C10_sample_flag_bbox.patch, fixes/C10_set_item_single.patch,
   fixes/C10_multiview_single_mode.patch) and of the
   ModeWrapper.get_item/set_item plumbing it uses.  No proofs in this file.

   Samples are represented by their position in the batch (0..B-1).  The model follows the
   code statement by statement: same order of draws, same index used for every lookup, same
   order of the places where the code raises.  Inputs the code rejects are error VALUES
   (type [err]): the flip assertion on odd batches, the label format assertion, the
   `h, w = x.shape[2:]` unpacking of images that are not (C, H, W), the in-place mixing of
   non-float images, lamb[i].view() on 0-d samples, a batch without an image item.
   What is NOT modelled: pixel / label float arithmetic (the model emits *descriptors* that
   say which partner and which weight / box the arithmetic is applied with), the float
   evaluation of  floor(0.5*sqrt(1-lambda)*h)  for the half box sizes (shipped by the harness
   as the argument [halves]; Spec.half_spec states the exact value and Check compares), and
   the float32 rounding of lambda.  Probabilities / lambdas are rationals (exact values of
   the binary64 draws). *)
From Coq Require Import ZArith QArith List Bool.
Import ListNotations.
Open Scope Z_scope.

(* ---------- configuration ---------- *)
Inductive shuffle_mode := Roll | Flip | Random.
Inductive ab_mode := PerBatch | PerSample.
Inductive token := TIndex | TX | TClass | TOther (k : nat).

Record cfg := {
  bsz : nat;                 (* batch_size = len(x) *)
  img_h : Z; img_w : Z;      (* h, w = x.shape[2:]  (meaningful when x_rank = 3) *)
  mixup_p : Q; cutmix_p : Q;
  total_p : Q;               (* the float sum mixup_p + cutmix_p; the ctor raises unless it is 1.0 *)
  mixup_alpha : option Q; cutmix_alpha : option Q;
  apply_mode : ab_mode; lamb_mode : ab_mode; shuf : shuffle_mode;
  tokens : list token;       (* dataset_mode.split(" ") *)
  x_rank : nat;              (* x.ndim - 1: number of dimensions of one sample (3 for C x H x W images) *)
  x_float : bool;            (* x has a floating point dtype *)
  lab_ndim : nat;            (* y.ndim of the collated "class" item (2: rows, 1: binary scalars) *)
  x_views : nat              (* 0: the collated "x" item is one tensor; n > 0: a list of n view tensors (multi-view samples) *)
}.

(* ---------- draws ---------- *)
Inductive draw :=
| DUnit (u : Q)                      (* rng.random() *)
| DUnits (us : list Q)               (* rng.random(n) *)
| DBeta (a : Q) (x : Q)              (* rng.beta(a, a) *)
| DBetas (a : Q) (xs : list Q)       (* rng.beta(a, a, size=n) *)
| DInts (hi : Z) (xs : list Z)       (* rng.integers(hi, size=(n,)) *)
| DPerm (p : list nat).              (* rng.permutation(n) *)
Definition trace := list draw.

(* ---------- what the code raises ---------- *)
Inductive err :=
| EDraw            (* the recorded draws do not fit the code path: model / implementation mismatch *)
| EAssertFlip      (* shuffle: assert len(item) % 2 == 0 *)
| EAssertLabel     (* "KDMixCollator expects classes to be in one-hot format" *)
| EUnpack          (* h, w = x.shape[2:]  with x.ndim != 4: ValueError *)
| ECast            (* x.mul_(lamb) on an integer image: RuntimeError (result type Float can't be cast) *)
| EView            (* lamb[i].view() without arguments on 0-d samples: TypeError *)
| ENoX             (* len(None): the mode has no "x" item: TypeError *)
| EMultiView       (* assert torch.is_tensor(x): the "x" item is a list of views *)
| EItem.           (* get_item / set_item on a batch that does not fit the mode (not reachable from a ModeWrapper) *)
Inductive res (A : Type) := Ok (a : A) | Err (e : err).
Arguments Ok {A} a.
Arguments Err {A} e.

Definition M (A : Type) := trace -> res (A * trace).
Definition ret {A} (a : A) : M A := fun tr => Ok (a, tr).
Definition fail {A} (e : err) : M A := fun _ => Err e.
Definition bind {A B} (m : M A) (f : A -> M B) : M B :=
  fun tr => match m tr with Ok (a, tr') => f a tr' | Err e => Err e end.
Notation "x <- m ;; k" := (bind m (fun x => k)) (at level 61, m at next level, right associativity).
Notation "' p <- m ;; k" := (bind m (fun p => k)) (at level 61, p pattern, m at next level, right associativity).

Definition Qeqb (a b : Q) : bool := Qeq_bool a b.
Definition Qltb (a b : Q) : bool := negb (Qle_bool b a).

Definition next_unit : M Q := fun tr =>
  match tr with DUnit u :: tr' => Ok (u, tr') | _ => Err EDraw end.
Definition next_units (n : nat) : M (list Q) := fun tr =>
  match tr with DUnits us :: tr' => if Nat.eqb (length us) n then Ok (us, tr') else Err EDraw | _ => Err EDraw end.
Definition next_beta (a : Q) : M Q := fun tr =>
  match tr with DBeta a' x :: tr' => if Qeqb a a' then Ok (x, tr') else Err EDraw | _ => Err EDraw end.
Definition next_betas (a : Q) (n : nat) : M (list Q) := fun tr =>
  match tr with DBetas a' xs :: tr' => if Qeqb a a' && Nat.eqb (length xs) n then Ok (xs, tr') else Err EDraw | _ => Err EDraw end.
Definition next_ints (hi : Z) (n : nat) : M (list Z) := fun tr =>
  match tr with DInts hi' xs :: tr' => if (hi =? hi') && Nat.eqb (length xs) n then Ok (xs, tr') else Err EDraw | _ => Err EDraw end.
Definition next_perm (n : nat) : M (list nat) := fun tr =>
  match tr with DPerm p :: tr' => if Nat.eqb (length p) n then Ok (p, tr') else Err EDraw | _ => Err EDraw end.
Definition lift {A} (e : err) (o : option A) : M A := match o with Some a => ret a | None => fail e end.

(* ---------- descriptors ---------- *)
Definition box := (Z * Z * Z * Z)%type.          (* top, left, bot, right *)
Inductive img_desc :=
| Mix (p : nat) (w : Q)       (* x_i * w + x_p * (1 - w) *)
| Cut (p : nat) (b : box)     (* x_i[..., top:bot, left:right] = x_p[..., top:bot, left:right] *)
| Keep.                       (* x_i untouched (never produced: [apply] is drawn but never read) *)
Definition lab_desc := (nat * Q)%type.           (* y_i * w + y_p * (1 - w) *)

(* ---------- shuffle ---------- *)
(* item.roll(shifts=1, dims=0): out[0] = in[-1], out[k] = in[k-1] *)
Definition roll1 (l : list nat) : list nat :=
  match rev l with [] => [] | x :: r => x :: rev r end.
(* item[permutation] *)
Definition index_by (l : list nat) (p : list nat) : list nat := map (fun k => nth k l 0%nat) p.

Definition shuffle (m : shuffle_mode) (item : list nat) (permutation : option (list nat))
  : M (list nat * option (list nat)) :=
  if Nat.eqb (length item) 1 then ret (item, None) else
  match m with
  | Roll => ret (roll1 item, None)
  | Flip => if Nat.even (length item) then ret (rev item, None) else fail EAssertFlip   (* assert len(item) % 2 == 0 *)
  | Random =>
      match permutation with
      | Some p => ret (index_by item p, Some p)
      | None => p <- next_perm (length item) ;; ret (index_by item p, Some p)
      end
  end.

(* ---------- get_random_bbox ---------- *)
Definition clamp_box (h w : Z) (ch cw : Z) (half : Z * Z) : box :=
  let '(hh, wh) := half in
  (Z.max (ch - hh) 0, Z.max (cw - wh) 0, Z.min (ch + hh) h, Z.min (cw + wh) w).

Definition box_area (b : box) : Z := let '(t, l, bo, r) := b in (bo - t) * (r - l).

(* lamb_adjusted = 1.0 - (bot - top) * (right - left) / (h * w) *)
Definition lamb_adjusted (h w : Z) (b : box) : Q := 1 - inject_Z (box_area b) / inject_Z (h * w).

Fixpoint zip3 (a b : list Z) (c : list (Z * Z)) : list (Z * Z * (Z * Z)) :=
  match a, b, c with
  | x :: a', y :: b', z :: c' => (x, y, z) :: zip3 a' b' c'
  | _, _, _ => []
  end.

(* halves: (bbox_h_half, bbox_w_half) per box = (floor(0.5*sqrt(1-lamb)*h), floor(0.5*sqrt(1-lamb)*w)) as the
   float code evaluated it *)
Definition get_random_bbox (h w : Z) (n : nat) (halves : list (Z * Z)) : M (list box * list Q) :=
  chs <- next_ints h n ;;
  cws <- next_ints w n ;;
  if negb (Nat.eqb (length halves) n) then fail EDraw else
  let boxes := map (fun '(ch, cw, hf) => clamp_box h w ch cw hf) (zip3 chs cws halves) in
  ret (boxes, map (lamb_adjusted h w) boxes).

(* ---------- ModeWrapper.has_item / get_item_index / set_item ---------- *)
Definition tok_eqb (a b : token) : bool :=
  match a, b with
  | TIndex, TIndex | TX, TX | TClass, TClass => true
  | TOther i, TOther j => Nat.eqb i j
  | _, _ => false
  end.
Definition has_item (mode : list token) (t : token) : bool := existsb (tok_eqb t) mode.
Fixpoint index_of (t : token) (mode : list token) : option nat :=
  match mode with
  | [] => None
  | t' :: r => if tok_eqb t t' then Some 0%nat else option_map S (index_of t r)
  end.
Fixpoint set_at {A} (k : nat) (v : A) (l : list A) : list A :=     (* tuple(it if i != idx else value ...) *)
  match l, k with
  | [], _ => []
  | _ :: r, O => v :: r
  | x :: r, S k' => x :: set_at k' v r
  end.
(* a single-item mode (decided by the MODE, repaired: the batch of mode "x" is the x item itself, also when that item
   is a list of views) is represented as a one-element list *)
Definition set_item {A} (mode : list token) (t : token) (batch : list A) (v : A) : option (list A) :=
  match mode with
  | [_] => Some [v]                                    (* repaired: not a tuple -> return value *)
  | _ => match index_of t mode with Some k => Some (set_at k v batch) | None => None end
  end.
Definition get_item {A} (mode : list token) (t : token) (batch : list A) : option A :=
  match mode with
  | [_] => nth_error batch 0
  | _ => match index_of t mode with Some k => nth_error batch k | None => None end
  end.

(* ---------- collate ---------- *)
Record result := {
  imgs : list img_desc;                 (* what happened to x, per sample *)
  labs : option (list lab_desc);        (* what happened to y, per sample (None: no "class" item) *)
  ctx_apply : list bool;
  ctx_cutmix : list bool;               (* a single flag in lamb_mode batch *)
  ctx_lambda : list Q;                  (* one element in lamb_mode batch *)
  bbox_lams : list Q                    (* the lambdas get_random_bbox was called with ([] = not called) *)
}.

Definition qnth (i : nat) (l : list Q) : Q := nth i l 0%Q.
(* torch.where(use_cutmix, cutmix_lamb, mixup_lamb); None = element of torch.empty(...) *)
Fixpoint where3 (c : list bool) (a b : list (option Q)) : list (option Q) :=
  match c, a, b with
  | ci :: c', ai :: a', bi :: b' => (if ci then ai else bi) :: where3 c' a' b'
  | _, _, _ => []
  end.
Fixpoint sequence {A} (l : list (option A)) : option (list A) :=
  match l with
  | [] => Some []
  | Some a :: r => option_map (cons a) (sequence r)
  | None :: _ => None
  end.

(* h, w = x.shape[2:] *)
Definition unpack_hw (c : cfg) : M unit := if Nat.eqb (x_rank c) 3 then ret tt else fail EUnpack.
(* x.mul_(x_lamb) / x[i].mul_(x_lamb): in place, so the image dtype has to hold a float result *)
Definition mul_inplace (c : cfg) : M unit := if x_float c then ret tt else fail ECast.

Definition collate (c : cfg) (halves : list (Z * Z)) : M result :=
  let n := bsz c in
  let h := img_h c in let w := img_w c in
  if negb (has_item (tokens c) TX) then fail ENoX else      (* batch_size = len(x) with x = None *)
  let has_y := has_item (tokens c) TClass in
  (* sample apply *)
  apply <- (match apply_mode c with
            | PerBatch => u <- next_unit ;; ret (repeat (Qltb u (total_p c)) n)
            | PerSample => us <- next_units n ;; ret (map (fun u => Qltb u (total_p c)) us)
            end) ;;
  match lamb_mode c with
  | PerBatch =>
      u <- next_unit ;;
      let use_cutmix := Qltb (u * total_p c) (cutmix_p c) in
      alpha <- lift EDraw (if use_cutmix then cutmix_alpha c else mixup_alpha c) ;;
      lamb <- next_beta alpha ;;
      (* apply x *)
      '(x2, permutation) <- shuffle (shuf c) (seq 0 n) None ;;
      '(xs, lamb, bl) <- (if use_cutmix then
                        _ <- unpack_hw c ;;
                        '(bbox, lamb') <- get_random_bbox h w 1 halves ;;
                        match bbox, lamb' with
                        | b0 :: _, l0 :: _ => ret (map (fun j => Cut j b0) x2, l0, [lamb])
                        | _, _ => fail EDraw
                        end
                      else
                        _ <- mul_inplace c ;;
                        ret (map (fun j => Mix j lamb) x2, lamb, [])) ;;
      (* apply y *)
      ys <- (if has_y then
               '(y2, _) <- shuffle (shuf c) (seq 0 n) permutation ;;
               ret (Some (map (fun j => (j, lamb)) y2))
             else ret None) ;;
      ret {| imgs := xs; labs := ys; ctx_apply := apply; ctx_cutmix := [use_cutmix]; ctx_lambda := [lamb];
             bbox_lams := bl |}
  | PerSample =>
      us <- next_units n ;;
      let use_cutmix := map (fun u => Qltb (u * total_p c) (cutmix_p c)) us in
      mixup_lamb <- (if Qltb 0 (mixup_p c) then
                       a <- lift EDraw (mixup_alpha c) ;; l <- next_betas a n ;; ret (map Some l)
                     else ret (repeat None n)) ;;
      '(bbox, cutmix_lamb, bl) <- (if Qltb 0 (cutmix_p c) then
                       a <- lift EDraw (cutmix_alpha c) ;; ls <- next_betas a n ;;
                       _ <- unpack_hw c ;;
                       '(bb, l) <- get_random_bbox h w n halves ;;
                       ret (bb, map Some l, ls)
                     else ret ([], repeat None n, [])) ;;
      lamb <- lift EDraw (sequence (where3 use_cutmix cutmix_lamb mixup_lamb)) ;;
      (* apply x *)
      '(x2_indices, permutation) <- shuffle (shuf c) (seq 0 n) None ;;
      (* for i in range(batch_size): ... else: x_lamb = lamb[i].view(1, ..., 1) with x.ndim - 1 ones; x[i].mul_(x_lamb)...
         every mixup sample raises the same way, so the loop raises iff some sample is not a cutmix sample *)
      _ <- (if forallb (fun b => b) use_cutmix then ret tt
            else if Nat.eqb (x_rank c) 0 then fail EView else mul_inplace c) ;;
      let xs := map (fun i =>
                       let j := nth i x2_indices 0%nat in
                       if nth i use_cutmix false
                       then Cut j (nth i bbox (0, 0, 0, 0))
                       else Mix j (qnth i lamb)) (seq 0 n) in
      ys <- (if has_y then
               '(y2, _) <- shuffle (shuf c) (seq 0 n) permutation ;;
               ret (Some (map (fun i => (nth i y2 0%nat, qnth i lamb)) (seq 0 n)))
             else ret None) ;;
      ret {| imgs := xs; labs := ys; ctx_apply := apply; ctx_cutmix := use_cutmix; ctx_lambda := lamb;
             bbox_lams := bl |}
  end.

(* ---------- the batch tuple and the context ---------- *)
Inductive item :=
| IX (l : list img_desc)
| IY (l : list lab_desc) (ndim : nat)    (* ndim: y.squeeze(1) is applied again for binary labels *)
| IOther (v : list Z).

(* y.ndim != 2: assert y.ndim == 1 and 0. <= y.min() and y.max() <= 1.  (Y: the collated label values, row-wise) *)
Definition in_unit (q : Q) : bool := Qle_bool 0 q && Qle_bool q 1.
Definition labels_accepted (ndim : nat) (Y : list (list Q)) : bool :=
  match ndim with
  | 2%nat => true
  | 1%nat => forallb (fun row => forallb in_unit row) Y
  | _ => false
  end.

(* the context dictionary handed to collate: entries recorded per sample by the dataset and collated before
   this collator (user keys, distinct from the collator's own three keys) -- collate only ADDS
   ctx["apply"], ctx["use_cutmix"], ctx["lambda"] *)
Inductive ckey := KApply | KCutmix | KLambda | KUser (k : nat).
Inductive cval := VBools (l : list bool) | VLams (l : list Q) | VRaw (v : list Z).
Definition ctx_t := list (ckey * cval).
Definition ckey_eqb (a b : ckey) : bool :=
  match a, b with
  | KApply, KApply | KCutmix, KCutmix | KLambda, KLambda => true
  | KUser i, KUser j => Nat.eqb i j
  | _, _ => false
  end.
(* ctx[k] = v *)
Fixpoint ctx_set (k : ckey) (v : cval) (ctx : ctx_t) : ctx_t :=
  match ctx with
  | [] => [(k, v)]
  | (k', v') :: r => if ckey_eqb k k' then (k, v) :: r else (k', v') :: ctx_set k v r
  end.
Fixpoint ctx_get (k : ckey) (ctx : ctx_t) : option cval :=
  match ctx with
  | [] => None
  | (k', v') :: r => if ckey_eqb k k' then Some v' else ctx_get k r
  end.

(* idx/x/y are read with get_item, the label format is asserted, then the draws; the book keeping writes the three
   context entries; idx/x/y are written back with set_item in the order index, x, class *)
Definition collate_batch (c : cfg) (halves : list (Z * Z)) (Y : list (list Q)) (batch : list item) (ctx : ctx_t)
  : M (list item * ctx_t * result) :=
  let mode := tokens c in
  idx <- lift EItem (if has_item mode TIndex then option_map Some (get_item mode TIndex batch) else Some None) ;;
  (* x = get_item(...); assert torch.is_tensor(x) -- before the label is looked at and before any draw *)
  _ <- (if has_item mode TX && negb (Nat.eqb (x_views c) 0) then fail EMultiView else ret tt) ;;
  _ <- (if has_item mode TClass && negb (labels_accepted (lab_ndim c) Y) then fail EAssertLabel else ret tt) ;;
  r <- collate c halves ;;
  let ctx' := ctx_set KLambda (VLams (ctx_lambda r))
                (ctx_set KCutmix (VBools (ctx_cutmix r)) (ctx_set KApply (VBools (ctx_apply r)) ctx)) in
  b1 <- lift EItem (match idx with Some v => set_item mode TIndex batch v | None => Some batch end) ;;
  b2 <- lift EItem (set_item mode TX b1 (IX (imgs r))) ;;
  b3 <- lift EItem (match labs r with Some l => set_item mode TClass b2 (IY l (lab_ndim c)) | None => Some b2 end) ;;
  ret (b3, ctx', r).
