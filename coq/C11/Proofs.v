(* C11 -- proofs *)
From Coq Require Import ZArith QArith Qabs List Bool Lia Lqa Arith.
Import ListNotations.
From KD Require Import C11.Model C11.Spec.
Open Scope Z_scope.

(* ====================================================================== *)
(* small facts                                                            *)
(* ====================================================================== *)
Lemma Qltb_true a b : Qltb a b = true <-> (a < b)%Q.
Proof.
  unfold Qltb. rewrite negb_true_iff. split; intro H.
  - apply Qnot_le_lt. intro Hle. apply Qle_bool_iff in Hle. congruence.
  - destruct (Qle_bool b a) eqn:E; [|reflexivity]. apply Qle_bool_iff in E. exfalso. apply (Qlt_not_le _ _ H E).
Qed.
Lemma Qltb_false a b : Qltb a b = false <-> (b <= a)%Q.
Proof.
  unfold Qltb. rewrite negb_false_iff. apply Qle_bool_iff.
Qed.

Lemma list_eqb_eq a b : list_eqb a b = true -> a = b.
Proof.
  revert b. induction a as [|x a IH]; destruct b as [|y b]; simpl; try congruence.
  intro H. apply andb_true_iff in H. destruct H as [H1 H2]. apply Nat.eqb_eq in H1. f_equal; auto.
Qed.

Lemma nth_set_nth {A} (l : list A) k v j d :
  nth j (set_nth k v l) d = if (j =? k)%nat && (k <? length l)%nat then v else nth j l d.
Proof.
  revert k j. induction l as [|x l IH]; intros k j; simpl.
  - destruct k; rewrite andb_false_r; reflexivity.
  - destruct k, j; simpl; try reflexivity.
    rewrite IH. reflexivity.
Qed.
Lemma length_set_nth {A} (l : list A) k v : length (set_nth k v l) = length l.
Proof. revert k. induction l; intros [|k]; simpl; auto. Qed.

(* ====================================================================== *)
(* labels                                                                 *)
(* ====================================================================== *)
Lemma one_hot_length y n : length (one_hot y n) = n.
Proof. unfold one_hot. rewrite map_length, seq_length. reflexivity. Qed.

Lemma one_hot_nth y n k : (k < n)%nat -> nth k (one_hot y n) 0%Q = if (k =? y)%nat then 1%Q else 0%Q.
Proof.
  intro H. unfold one_hot.
  set (f := fun k : nat => if (k =? y)%nat then 1%Q else 0%Q).
  rewrite (nth_indep _ 0%Q (f 0%nat)) by (rewrite map_length, seq_length; exact H).
  rewrite (map_nth f), seq_nth by exact H. reflexivity.
Qed.

Lemma one_hot_gen_nonneg y a n : Forall (fun x => (0 <= x)%Q) (map (fun k => if (k =? y)%nat then 1%Q else 0%Q) (seq a n)).
Proof.
  revert a. induction n; intro a; simpl; constructor; auto.
  destruct (a =? y)%nat; unfold Qle; simpl; lia.
Qed.

Lemma one_hot_gen_sum y a n :
  (qsum (map (fun k => if (k =? y)%nat then 1%Q else 0%Q) (seq a n)) == if (a <=? y)%nat && (y <? a + n)%nat then 1 else 0)%Q.
Proof.
  revert a. induction n; intro a; simpl.
  - destruct (a <=? y)%nat eqn:E1; destruct (y <? a + 0)%nat eqn:E2; simpl; try reflexivity.
    apply Nat.leb_le in E1. apply Nat.ltb_lt in E2. lia.
  - rewrite IHn.
    destruct (a =? y)%nat eqn:E.
    + apply Nat.eqb_eq in E. subst.
      replace (S y <=? y)%nat with false by (symmetry; apply Nat.leb_gt; lia).
      replace (y <=? y)%nat with true by (symmetry; apply Nat.leb_le; lia).
      replace (y <? y + S n)%nat with true by (symmetry; apply Nat.ltb_lt; lia).
      simpl. ring.
    + apply Nat.eqb_neq in E.
      replace (y <? a + S n)%nat with (y <? S a + n)%nat by (f_equal; lia).
      destruct (S a <=? y)%nat eqn:E1.
      * apply Nat.leb_le in E1. replace (a <=? y)%nat with true by (symmetry; apply Nat.leb_le; lia). ring.
      * apply Nat.leb_gt in E1. replace (a <=? y)%nat with false by (symmetry; apply Nat.leb_gt; lia). ring.
Qed.

Lemma one_hot_prob y n : (y < n)%nat -> prob_vector n (one_hot y n).
Proof.
  intro H. split; [apply one_hot_length|]. split; [apply one_hot_gen_nonneg|].
  unfold one_hot. rewrite one_hot_gen_sum. simpl.
  replace (y <? n)%nat with true by (symmetry; apply Nat.ltb_lt; lia). reflexivity.
Qed.

Lemma one_hot_is_one_hot y n : is_one_hot y n (one_hot y n).
Proof. split; [apply one_hot_length|]. intros k Hk. apply one_hot_nth; exact Hk. Qed.

Lemma to_one_hot_label_vector ds k v :
  to_one_hot_vector (ds_cls ds k) (ds_ncls ds) = Some v -> v = label_vector ds k.
Proof.
  unfold to_one_hot_vector, label_vector. destruct (ds_cls ds k) as [y|u].
  - destruct ((0 <=? y) && (y <? Z.of_nat (ds_ncls ds))); congruence.
  - congruence.
Qed.

Lemma label_vector_prob ds k : label_ok (ds_ncls ds) (ds_cls ds k) -> prob_vector (ds_ncls ds) (label_vector ds k).
Proof.
  unfold label_ok, label_vector. destruct (ds_cls ds k) as [y|u]; intro H; [|exact H].
  apply one_hot_prob. lia.
Qed.

Lemma mix_row_blend w a b : Forall2 Qeq (mix_row w a b) (blend w a b).
Proof.
  revert b. induction a as [|x a IH]; intros [|y b]; simpl; constructor; auto. ring.
Qed.

Lemma mix_row_length w a b : length a = length b -> length (mix_row w a b) = length a.
Proof. revert b. induction a as [|x a IH]; intros [|y b]; simpl; intro H; try discriminate; auto. Qed.

Lemma mix_row_nonneg w a b : (0 <= w)%Q -> (w <= 1)%Q ->
  Forall (fun x => (0 <= x)%Q) a -> Forall (fun x => (0 <= x)%Q) b -> Forall (fun x => (0 <= x)%Q) (mix_row w a b).
Proof.
  intros H0 H1 Ha. revert b. induction Ha as [|x a Hx Ha IH]; intros b Hb; simpl; [constructor|].
  destruct Hb as [|y b Hy Hb]; constructor; auto.
  assert (0 <= 1 - w)%Q by lra.
  assert (0 <= x * w)%Q by (apply Qmult_le_0_compat; assumption).
  assert (0 <= y * (1 - w))%Q by (apply Qmult_le_0_compat; assumption).
  lra.
Qed.

Lemma mix_row_sum w a b : length a = length b -> (qsum (mix_row w a b) == qsum a * w + qsum b * (1 - w))%Q.
Proof.
  revert b. induction a as [|x a IH]; intros [|y b]; simpl; intro H; try discriminate.
  - ring.
  - rewrite IH by lia. ring.
Qed.

Lemma mix_row_prob n w a b : (0 <= w)%Q -> (w <= 1)%Q ->
  prob_vector n a -> prob_vector n b -> prob_vector n (mix_row w a b).
Proof.
  intros H0 H1 (La & Na & Sa) (Lb & Nb & Sb). split; [|split].
  - rewrite mix_row_length; congruence.
  - apply mix_row_nonneg; assumption.
  - rewrite mix_row_sum by congruence. rewrite Sa, Sb. ring.
Qed.

(* ====================================================================== *)
(* pad or cut                                                             *)
(* ====================================================================== *)
(* the first i components of idx lie inside the first i dimensions of s *)
Fixpoint pre_inside (i : nat) (s idx : list nat) : bool :=
  match i, s, idx with
  | S i', n :: s', j :: idx' => (j <? n)%nat && pre_inside i' s' idx'
  | _, _, _ => true
  end.

Lemma pre_inside_all s idx : length idx = length s -> pre_inside (length s) s idx = inside s idx.
Proof.
  revert idx. induction s as [|n s IH]; intros [|j idx]; simpl; intro H; try discriminate; auto.
  rewrite IH by lia. reflexivity.
Qed.

Lemma inside_length s idx : inside s idx = true -> length idx = length s.
Proof.
  revert idx. induction s as [|n s IH]; intros [|j idx]; simpl; try discriminate; auto.
  intro H. apply andb_true_iff in H. destruct H. f_equal. auto.
Qed.

Lemma inside_app p idx s r : length p = length idx -> inside (p ++ s) (idx ++ r) = inside p idx && inside s r.
Proof.
  revert idx. induction p as [|n p IH]; intros [|j idx]; simpl; intro H; try discriminate; auto.
  rewrite IH by lia. rewrite andb_assoc. reflexivity.
Qed.

(* splitting an index at position i *)
Lemma split_index (idx : list nat) i : (i <= length idx)%nat ->
  exists a b, idx = a ++ b /\ length a = i.
Proof.
  intro H. exists (firstn i idx), (skipn i idx). split; [symmetry; apply firstn_skipn|].
  apply firstn_length_le. exact H.
Qed.

Lemma pre_inside_app p2 idxa s r : length p2 = length idxa ->
  pre_inside (length p2) (p2 ++ s) (idxa ++ r) = inside p2 idxa.
Proof.
  revert idxa. induction p2 as [|n p IH]; intros [|j a]; simpl; intro H; try discriminate.
  - reflexivity.
  - rewrite IH by lia. reflexivity.
Qed.

Lemma pre_inside_app_S p2 idxa b j s r : length p2 = length idxa ->
  pre_inside (S (length p2)) (p2 ++ b :: s) (idxa ++ j :: r) = inside p2 idxa && (j <? b)%nat.
Proof.
  revert idxa. induction p2 as [|n p IH]; intros [|k a]; simpl; intro H; try discriminate.
  - destruct s, r; simpl; rewrite ?andb_true_r; reflexivity.
  - rewrite <- andb_assoc. f_equal. apply IH. lia.
Qed.

(* nth of the padding list  [0] * m + [delta] *)
Lemma nth_pads m delta j : nth j (repeat 0%nat m ++ [delta]) 0%nat = if (j =? m)%nat then delta else 0%nat.
Proof.
  destruct (lt_eq_lt_dec j m) as [[H|H]|H].
  - rewrite app_nth1 by (rewrite repeat_length; exact H).
    replace (j =? m)%nat with false by (symmetry; apply Nat.eqb_neq; lia).
    destruct (nth_in_or_default j (repeat 0%nat m) 0%nat) as [Hin|Hd]; [|exact Hd].
    apply repeat_spec in Hin. exact Hin.
  - subst. rewrite app_nth2 by (rewrite repeat_length; lia). rewrite repeat_length, Nat.sub_diag, Nat.eqb_refl. reflexivity.
  - rewrite nth_overflow by (rewrite app_length, repeat_length; simpl; lia).
    replace (j =? m)%nat with false by (symmetry; apply Nat.eqb_neq; lia). reflexivity.
Qed.

Lemma dim_pads_end rank i delta : (i < rank)%nat ->
  dim_pads (repeat 0%nat ((rank - i) * 2 - 1) ++ [delta]) rank
  = map (fun d => (0%nat, if (d =? i)%nat then delta else 0%nat)) (seq 0 rank).
Proof.
  intro Hi. unfold dim_pads. apply map_ext_in. intros d Hd. apply in_seq in Hd.
  unfold pad_pair. rewrite !nth_pads.
  replace (2 * (rank - 1 - d) =? (rank - i) * 2 - 1)%nat with false by (symmetry; apply Nat.eqb_neq; lia).
  f_equal.
  destruct (d =? i)%nat eqn:E.
  - apply Nat.eqb_eq in E. subst. replace (2 * (rank - 1 - i) + 1 =? (rank - i) * 2 - 1)%nat with true; [reflexivity|].
    symmetry. apply Nat.eqb_eq. lia.
  - apply Nat.eqb_neq in E. replace (2 * (rank - 1 - d) + 1 =? (rank - i) * 2 - 1)%nat with false; [reflexivity|].
    symmetry. apply Nat.eqb_neq. lia.
Qed.

Lemma padded_shape_end delta i : forall (s : list nat) k,
  padded_shape (map (fun d => (0%nat, if (d =? i)%nat then delta else 0%nat)) (seq k (length s))) s
  = mapi_from (fun d n => if (d =? i)%nat then (n + delta)%nat else n) k s.
Proof.
  induction s as [|n s IH]; intro k; simpl; [reflexivity|].
  rewrite IH. f_equal. destruct (k =? i)%nat; lia.
Qed.

Lemma mapi_from_end delta p : forall k b s,
  mapi_from (fun d n => if (d =? k + length p)%nat then (n + delta)%nat else n) k (p ++ b :: s) = p ++ (b + delta)%nat :: s.
Proof.
  induction p as [|n p IH]; intros k b s; simpl.
  - rewrite Nat.add_0_r, Nat.eqb_refl. f_equal.
    assert (G : forall l m, (k < m)%nat -> mapi_from (fun d n => if (d =? k)%nat then (n + delta)%nat else n) m l = l).
    { induction l as [|x l IHl]; intros m Hm; simpl; [reflexivity|].
      replace (m =? k)%nat with false by (symmetry; apply Nat.eqb_neq; lia). f_equal. apply IHl. lia. }
    apply G. lia.
  - replace (k =? k + S (length p))%nat with false by (symmetry; apply Nat.eqb_neq; lia). f_equal.
    replace (k + S (length p))%nat with (S k + length p)%nat by lia. apply IH.
Qed.

Lemma unpad_zero_left : forall (lr : list (nat * nat)) s idx,
  length lr = length s -> Forall (fun p => fst p = 0%nat) lr ->
  unpad_index lr s idx = if inside s idx then Some idx else None.
Proof.
  induction lr as [|[l r] lr IH]; intros [|n s] idx Hlen Hz; simpl in *; try discriminate.
  - destruct idx; reflexivity.
  - destruct idx as [|j idx]; [reflexivity|].
    inversion Hz as [|? ? Hl Hz']; subst. simpl in Hl. subst l.
    rewrite Nat.sub_0_r. simpl.
    destruct (j <? n)%nat; simpl; [|reflexivity].
    rewrite IH by (auto; lia). destruct (inside s idx); reflexivity.
Qed.

(* F.pad with the code's padding list = zero padding at the end of dimension i *)
Lemma torch_pad_end (t : tensor) p b s delta :
  shape t = p ++ b :: s ->
  exists t', torch_pad (repeat 0%nat ((length (shape t) - length p) * 2 - 1) ++ [delta]) t = Some t'
    /\ shape t' = p ++ (b + delta)%nat :: s
    /\ forall idx, at_ t' idx = if inside (shape t) idx then at_ t idx else 0%Q.
Proof.
  intro Hs. unfold torch_pad.
  set (rank := length (shape t)).
  assert (Hr : rank = (length p + S (length s))%nat) by (unfold rank; rewrite Hs, app_length; reflexivity).
  assert (Hlen : length (repeat 0%nat ((rank - length p) * 2 - 1) ++ [delta]) = ((rank - length p) * 2)%nat).
  { rewrite app_length, repeat_length. simpl. lia. }
  rewrite Hlen.
  replace (Nat.even ((rank - length p) * 2)) with true
    by (symmetry; rewrite Nat.even_mul; simpl; apply orb_true_r).
  replace ((rank - length p) * 2 <=? 2 * rank)%nat with true by (symmetry; apply Nat.leb_le; lia).
  simpl. eexists. split; [reflexivity|]. simpl.
  rewrite dim_pads_end by lia.
  split.
  - unfold rank. rewrite padded_shape_end. rewrite Hs.
    apply (mapi_from_end delta p 0%nat b s).
  - intro idx. rewrite unpad_zero_left.
    + destruct (inside (shape t) idx); reflexivity.
    + rewrite map_length, seq_length. reflexivity.
    + apply Forall_forall. intros x Hx. apply in_map_iff in Hx. destruct Hx as (d & Hd & _). subst. reflexivity.
Qed.

Lemma set_nth_middle {A} (p : list A) b s v : set_nth (length p) v (p ++ b :: s) = p ++ v :: s.
Proof. induction p; simpl; [reflexivity|]. f_equal. assumption. Qed.

Lemma nth_middle' {A} (p : list A) a s d : nth (length p) (p ++ a :: s) d = a.
Proof. induction p; simpl; auto. Qed.

Lemma deltas_length a b : length a = length b -> length (deltas a b) = length a.
Proof. revert b. induction a; intros [|y b]; simpl; intro H; try discriminate; auto. Qed.

(* the loop invariant: dimensions < i already have the size of x, entries are x2's where the first i
   index components lie inside x2, zero elsewhere *)
Lemma unify_loop_spec (x2 : tensor) (n : nat) :
  forall (sxr s2r px p2 : list nat) (t : tensor),
    length sxr = length s2r -> length px = length p2 ->
    shape x2 = p2 ++ s2r ->
    n = (length px + length sxr)%nat ->
    shape t = px ++ s2r ->
    (forall idx, inside (shape t) idx = true ->
       at_ t idx = if pre_inside (length p2) (shape x2) idx then at_ x2 idx else 0%Q) ->
    exists t', unify_loop n (length px) (deltas sxr s2r) (px ++ sxr) t = Some t'
      /\ shape t' = px ++ sxr
      /\ forall idx, inside (shape t') idx = true ->
           at_ t' idx = if inside (shape x2) idx then at_ x2 idx else 0%Q.
Proof.
  induction sxr as [|a sxr IH]; intros [|b s2r] px p2 t Hl Hp Hx2 Hn Ht Hat; simpl in Hl; try discriminate.
  - simpl. exists t. split; [reflexivity|]. split; [exact Ht|].
    intros idx Hin. rewrite (Hat idx Hin).
    rewrite app_nil_r in Hx2. rewrite Hx2.
    rewrite pre_inside_all; [reflexivity|].
    apply inside_length in Hin. rewrite Ht, app_nil_r in Hin. lia.
  - simpl deltas. cbn [unify_loop].
    assert (Hpx : (px ++ a :: sxr) = ((px ++ [a]) ++ sxr)) by (rewrite <- app_assoc; reflexivity).
    assert (Hlen1 : length (px ++ [a]) = S (length px)) by (rewrite app_length; simpl; lia).
    (* common continuation *)
    assert (K : forall t1, shape t1 = (px ++ [a]) ++ s2r ->
              (forall idx, inside (shape t1) idx = true ->
                 at_ t1 idx = if pre_inside (length (p2 ++ [b])) (shape x2) idx then at_ x2 idx else 0%Q) ->
              exists t', unify_loop n (S (length px)) (deltas sxr s2r) (px ++ a :: sxr) t1 = Some t'
                /\ shape t' = px ++ a :: sxr
                /\ forall idx, inside (shape t') idx = true ->
                     at_ t' idx = if inside (shape x2) idx then at_ x2 idx else 0%Q).
    { intros t1 Hs1 Hat1. rewrite Hpx. rewrite <- Hlen1.
      apply (IH s2r (px ++ [a]) (p2 ++ [b]) t1).
      - lia.
      - rewrite !app_length. simpl. lia.
      - rewrite <- app_assoc. exact Hx2.
      - rewrite Hlen1. simpl in Hn. lia.
      - exact Hs1.
      - exact Hat1. }
    assert (Hp2len : length (p2 ++ [b]) = S (length p2)) by (rewrite app_length; simpl; lia).
    (* shape of an index inside  (px ++ [a]) ++ s2r *)
    assert (Hsplit : forall idx c, inside (px ++ c :: s2r) idx = true ->
              exists ia j ir, idx = ia ++ j :: ir /\ length ia = length px /\ inside px ia = true
                              /\ (j <? c)%nat = true /\ inside s2r ir = true).
    { intros idx c Hin. pose proof (inside_length _ _ Hin) as Hli. rewrite app_length in Hli. simpl in Hli.
      destruct (split_index idx (length px)) as (ia & ib & -> & Hia); [lia|].
      rewrite inside_app in Hin by lia. apply andb_true_iff in Hin. destruct Hin as [H1 H2].
      destruct ib as [|j ir]; [simpl in H2; discriminate|]. simpl in H2. apply andb_true_iff in H2. destruct H2 as [H2 H3].
      exists ia, j, ir. auto. }
    destruct (Z.of_nat a - Z.of_nat b =? 0) eqn:E0.
    + (* equal size: nothing to do *)
      apply Z.eqb_eq in E0. assert (a = b) by lia. subst b.
      apply K.
      * rewrite Ht, <- app_assoc. reflexivity.
      * intros idx Hin. rewrite Hp2len.
        assert (Hin' : inside (px ++ a :: s2r) idx = true) by (rewrite <- Ht; exact Hin).
        destruct (Hsplit idx a Hin') as (ia & j & ir & -> & Hia & H1 & H2 & H3).
        rewrite (Hat _ Hin). rewrite Hx2.
        rewrite pre_inside_app_S by lia.
        replace (p2 ++ a :: s2r) with (p2 ++ (a :: s2r)) by reflexivity.
        replace (ia ++ j :: ir) with (ia ++ (j :: ir)) by reflexivity.
        rewrite pre_inside_app by lia. rewrite H2, andb_true_r. reflexivity.
    + destruct (0 <? Z.of_nat a - Z.of_nat b) eqn:E1.
      * (* pad *)
        apply Z.ltb_lt in E1.
        assert (Hrank : length (shape t) = n) by (rewrite Ht, app_length; simpl; simpl in Hn; lia).
        destruct (torch_pad_end t px b s2r (Z.to_nat (Z.of_nat a - Z.of_nat b)) Ht) as (t1 & Hpad & Hs1 & Hat1).
        rewrite Hrank in Hpad. rewrite Hpad.
        replace (b + Z.to_nat (Z.of_nat a - Z.of_nat b))%nat with a in Hs1 by lia.
        apply K.
        -- rewrite Hs1, <- app_assoc. reflexivity.
        -- intros idx Hin. rewrite Hp2len. rewrite Hat1.
           assert (Hin' : inside (px ++ a :: s2r) idx = true) by (rewrite <- Hs1; exact Hin).
           destruct (Hsplit idx a Hin') as (ia & j & ir & -> & Hia & H1 & H2 & H3).
           rewrite Hx2. rewrite pre_inside_app_S by lia.
           rewrite Ht.
           replace (px ++ b :: s2r) with (px ++ (b :: s2r)) by reflexivity.
           replace (ia ++ j :: ir) with (ia ++ (j :: ir)) by reflexivity.
           rewrite inside_app by lia. rewrite H1. simpl. rewrite H3, andb_true_r.
           destruct (j <? b)%nat eqn:Ej.
           ++ rewrite Hat.
              ** rewrite Hx2.
                 replace (p2 ++ b :: s2r) with (p2 ++ (b :: s2r)) by reflexivity.
                 rewrite pre_inside_app by lia. rewrite andb_true_r. reflexivity.
              ** rewrite Ht. replace (px ++ b :: s2r) with (px ++ (b :: s2r)) by reflexivity.
                 rewrite inside_app by lia. rewrite H1. simpl. rewrite Ej, H3. reflexivity.
           ++ rewrite andb_false_r. reflexivity.
      * (* cut *)
        apply Z.ltb_ge in E1. apply Z.eqb_neq in E0.
        rewrite nth_middle'.
        apply K.
        -- unfold index_select_arange. cbn [shape]. rewrite Ht, set_nth_middle, <- app_assoc. reflexivity.
        -- intros idx Hin. rewrite Hp2len.
           unfold index_select_arange in Hin |- *. cbn [shape at_] in Hin |- *.
           rewrite Ht, set_nth_middle in Hin.
           destruct (Hsplit idx a Hin) as (ia & j & ir & -> & Hia & H1 & H2 & H3).
           assert (Hjb : (j <? b)%nat = true) by (apply Nat.ltb_lt; apply Nat.ltb_lt in H2; lia).
           rewrite Hat.
           ++ rewrite Hx2. rewrite pre_inside_app_S by lia.
              replace (p2 ++ b :: s2r) with (p2 ++ (b :: s2r)) by reflexivity.
              replace (ia ++ j :: ir) with (ia ++ (j :: ir)) by reflexivity.
              rewrite pre_inside_app by lia. rewrite Hjb, andb_true_r. reflexivity.
           ++ rewrite Ht. replace (px ++ b :: s2r) with (px ++ (b :: s2r)) by reflexivity.
              replace (ia ++ j :: ir) with (ia ++ (j :: ir)) by reflexivity.
              rewrite inside_app by lia. rewrite H1. simpl. rewrite Hjb, H3. reflexivity.
Qed.

Lemma unify_shape_l (x x2 : tensor) :
  length (shape x) = length (shape x2) ->
  exists t, pad_or_cut_end x x2 = Some t /\ shape t = shape x /\
    forall idx, inside (shape x) idx = true -> at_ t idx = at_ (unified (shape x) x2) idx.
Proof.
  intro Hl. unfold pad_or_cut_end.
  rewrite deltas_length by exact Hl.
  assert (H : exists t', unify_loop (length (shape x)) (length (@nil nat)) (deltas (shape x) (shape x2)) ([] ++ shape x) x2 = Some t'
      /\ shape t' = [] ++ shape x
      /\ forall idx, inside (shape t') idx = true -> at_ t' idx = if inside (shape x2) idx then at_ x2 idx else 0%Q).
  { apply (unify_loop_spec x2 (length (shape x)) (shape x) (shape x2) [] [] x2); auto. }
  simpl in H. destruct H as (t & H1 & H2 & H3).
  exists t. split; [exact H1|]. split; [exact H2|].
  intros idx Hin. rewrite H3 by (rewrite H2; exact Hin). reflexivity.
Qed.

(* ====================================================================== *)
(* getitem_xclass                                                         *)
(* ====================================================================== *)
Definition unify_rel (c : cfg) (x x2 x2u : tensor) : Prop :=
  (unify c = UNone /\ shape x = shape x2 /\ x2u = x2) \/
  (unify c = UPadOrCutEnd /\ length (shape x) = length (shape x2) /\ pad_or_cut_end x x2 = Some x2u).

Lemma getitem_xclass_inv ds c idx dr s rest :
  getitem_xclass ds c idx dr = Ok (s, rest) ->
  (exists u, dr = DUnit u :: rest /\ Qltb (total_p c) u = true /\
     s_x s = ds_x ds idx /\ s_cls s = label_vector ds idx /\ s_mix s = None /\
     s_loads s = [LdX (Z.of_nat idx); LdClass (Z.of_nat idx)])
  \/
  (exists u idx2 a lamb x2u,
     dr = DUnit u :: DInt (Z.of_nat (ds_len ds)) idx2 :: DBeta a lamb :: rest /\
     Qltb (total_p c) u = false /\ Qltb u (cutmix_p c) = false /\
     s_x s = mix_tensor lamb (ds_x ds idx) x2u /\
     s_cls s = mix_row lamb (label_vector ds idx) (label_vector ds (Z.to_nat idx2)) /\
     s_mix s = Some (Z.to_nat idx2, lamb) /\
     s_loads s = [LdX (Z.of_nat idx); LdClass (Z.of_nat idx); LdX idx2; LdClass idx2] /\
     unify_rel c (ds_x ds idx) (ds_x ds (Z.to_nat idx2)) x2u).
Proof.
  unfold getitem_xclass.
  destruct dr as [|[u|? ?|? ?] dr1]; try discriminate.
  destruct (Qltb (total_p c) u) eqn:Eu.
  - destruct (to_one_hot_vector (ds_cls ds idx) (ds_ncls ds)) as [v|] eqn:Ev; [|discriminate].
    intro H. inversion H; subst. left. exists u. simpl.
    rewrite (to_one_hot_label_vector _ _ _ Ev). repeat split; try reflexivity; assumption.
  - destruct dr1 as [|[?|hi idx2|? ?] dr2]; try discriminate.
    destruct (hi =? Z.of_nat (ds_len ds)) eqn:Ehi; simpl; [|discriminate].
    apply Z.eqb_eq in Ehi. subst hi.
    destruct (to_one_hot_vector (ds_cls ds idx) (ds_ncls ds)) as [v|] eqn:Ev; [|discriminate].
    destruct (to_one_hot_vector (ds_cls ds (Z.to_nat idx2)) (ds_ncls ds)) as [v2|] eqn:Ev2; [|discriminate].
    destruct (Qltb u (cutmix_p c)) eqn:Ecut.
    + destruct (cutmix_alpha c); [|discriminate].
      destruct dr2 as [|[?|? ?|a lamb] dr3]; try discriminate.
      destruct (Qeq_bool a q); simpl; discriminate.
    + destruct (mixup_alpha c) as [alpha|]; [|discriminate].
      destruct dr2 as [|[?|? ?|a lamb] dr3]; try discriminate.
      destruct (Qeq_bool a alpha); simpl; [|discriminate].
      rewrite (to_one_hot_label_vector _ _ _ Ev), (to_one_hot_label_vector _ _ _ Ev2).
      destruct (unify c) eqn:Eun.
      * destruct (list_eqb (shape (ds_x ds idx)) (shape (ds_x ds (Z.to_nat idx2)))) eqn:Esh; [|discriminate].
        intro H. inversion H; subst. right. exists u, idx2, a, lamb, (ds_x ds (Z.to_nat idx2)). simpl.
        repeat split; try reflexivity; try assumption. left. split; [exact Eun|]. split; [apply list_eqb_eq; exact Esh|reflexivity].
      * destruct (length (shape (ds_x ds idx)) =? length (shape (ds_x ds (Z.to_nat idx2))))%nat eqn:Erk; simpl; [|discriminate].
        destruct (pad_or_cut_end (ds_x ds idx) (ds_x ds (Z.to_nat idx2))) as [t|] eqn:Epc; [|discriminate].
        intro H. inversion H; subst. right. exists u, idx2, a, lamb, t. simpl.
        repeat split; try reflexivity; try assumption. right. split; [exact Eun|]. split; [apply Nat.eqb_eq; exact Erk|exact Epc].
      * discriminate.
Qed.

Lemma unify_rel_view c x x2 x2u : unify_rel c x x2 x2u ->
  forall idx, inside (shape x) idx = true -> at_ x2u idx = at_ (unified (shape x) x2) idx.
Proof.
  intros [(_ & Hs & ->)|(_ & Hl & Hp)] idx Hin.
  - simpl. rewrite <- Hs, Hin. reflexivity.
  - destruct (unify_shape_l x x2 Hl) as (t & Ht & _ & Hat). rewrite Ht in Hp. inversion Hp; subst. apply Hat. exact Hin.
Qed.

(* data and label are mixed with the same partner and the same weight *)
Lemma same_partner_weight_l ds c idx dr s rest :
  draws_ok dr -> getitem_xclass ds c idx dr = Ok (s, rest) ->
  match s_mix s with
  | None => untouched ds idx (s_x s) (s_cls s) /\ exists u, dr = DUnit u :: rest /\ (total_p c < u)%Q
  | Some (p, w) =>
      convex_of ds idx p w (s_x s) (s_cls s) /\
      exists u a, dr = DUnit u :: DInt (Z.of_nat (ds_len ds)) (Z.of_nat p) :: DBeta a w :: rest /\ (u <= total_p c)%Q
  end.
Proof.
  intros Hd H. apply getitem_xclass_inv in H.
  destruct H as [(u & -> & Hu & Hx & Hc & Hm & _)|(u & idx2 & a & lamb & x2u & -> & Hu & _ & Hx & Hc & Hm & _ & Hun)].
  - rewrite Hm. split; [split; assumption|]. exists u. split; [reflexivity|]. apply Qltb_true. exact Hu.
  - rewrite Hm.
    inversion Hd as [|? ? _ Hd1]; subst. inversion Hd1 as [|? ? Hint Hd2]; subst. inversion Hd2 as [|? ? Hbeta _]; subst.
    simpl in Hint, Hbeta. destruct Hbeta as [Hb0 Hb1].
    split.
    + unfold convex_of. split; [lia|]. split; [exact Hb0|]. split; [exact Hb1|].
      rewrite Hx, Hc. split; [reflexivity|]. split.
      * intros i Hin. simpl. rewrite (unify_rel_view _ _ _ _ Hun i Hin). reflexivity.
      * apply mix_row_blend.
    + exists u, a. rewrite Z2Nat.id by lia. split; [reflexivity|]. apply Qltb_false. exact Hu.
Qed.

(* label vectors are non-negative and sum to one *)
Lemma label_convex_l ds c idx dr s rest :
  labels_ok ds -> draws_ok dr -> getitem_xclass ds c idx dr = Ok (s, rest) ->
  prob_vector (ds_ncls ds) (s_cls s).
Proof.
  intros Hl Hd H. apply getitem_xclass_inv in H.
  destruct H as [(u & -> & _ & _ & Hc & _)|(u & idx2 & a & lamb & x2u & -> & _ & _ & _ & Hc & _)]; rewrite Hc.
  - apply label_vector_prob. apply Hl.
  - inversion Hd as [|? ? _ Hd1]; subst. inversion Hd1 as [|? ? _ Hd2]; subst. inversion Hd2 as [|? ? Hbeta _]; subst.
    destruct Hbeta as [Hb0 Hb1].
    apply mix_row_prob; auto; apply label_vector_prob; apply Hl.
Qed.

(* a probability-one configuration mixes every sample: a draw in [0,1) is never > 1 *)
Lemma p_one_always_mixes_l ds c idx dr s rest :
  (1 <= total_p c)%Q -> draws_ok dr -> getitem_xclass ds c idx dr = Ok (s, rest) -> s_mix s <> None.
Proof.
  intros Hp Hd H. apply getitem_xclass_inv in H.
  destruct H as [(u & -> & Hu & _)|(u & idx2 & a & lamb & x2u & _ & _ & _ & _ & _ & Hm & _)].
  - inversion Hd as [|? ? Hu1 _]; subst. destruct Hu1 as [_ Hlt]. apply Qltb_true in Hu. lra.
  - rewrite Hm. discriminate.
Qed.

(* an untouched sample carries the plain one-hot label of its class *)
Lemma untouched_is_one_hot_l ds c idx dr s rest y :
  getitem_xclass ds c idx dr = Ok (s, rest) -> s_mix s = None ->
  ds_cls ds idx = LInt y -> 0 <= y < Z.of_nat (ds_ncls ds) ->
  s_x s = ds_x ds idx /\ is_one_hot (Z.to_nat y) (ds_ncls ds) (s_cls s).
Proof.
  intros H Hm Hy Hr. apply getitem_xclass_inv in H.
  destruct H as [(u & _ & _ & Hx & Hc & _)|(u & idx2 & a & lamb & x2u & _ & _ & _ & _ & _ & Hm' & _)]; [|congruence].
  split; [exact Hx|]. rewrite Hc. unfold label_vector. rewrite Hy. apply one_hot_is_one_hot.
Qed.

(* the partner is a sample of the same dataset *)
Lemma partner_in_range_l ds c idx dr s rest p w :
  draws_ok dr -> getitem_xclass ds c idx dr = Ok (s, rest) -> s_mix s = Some (p, w) -> (p < ds_len ds)%nat.
Proof.
  intros Hd H Hm. pose proof (same_partner_weight_l _ _ _ _ _ _ Hd H) as K. rewrite Hm in K.
  destruct K as [(Hp & _) _]. exact Hp.
Qed.

(* ====================================================================== *)
(* ModeWrapper: fuse plan and unpacking                                   *)
(* ====================================================================== *)
Lemma tok_eqb_eq a b : tok_eqb a b = true -> a = b.
Proof. destruct a, b; simpl; try discriminate; auto. intro H. apply Nat.eqb_eq in H. congruence. Qed.
Lemma tok_eqb_refl a : tok_eqb a a = true.
Proof. destruct a; simpl; auto. apply Nat.eqb_refl. Qed.

Definition writes (sl : slot) (j : nat) : Prop :=
  match sl with Single i => i = j | Fused ix ic => ix = j \/ ic = j end.
Definition slot_ok (toks : list token) (e : fitem * slot) : Prop :=
  match e with
  | (FI t, Single i) => nth_error toks i = Some t
  | (FIXClass, Fused ix ic) => nth_error toks ix = Some TX /\ nth_error toks ic = Some TClass
  | _ => False
  end.
Definition covered (p : list (fitem * slot)) (j : nat) : Prop := exists e, In e p /\ writes (snd e) j.
Definition temp_inv (toks : list token) (temp : list (option token)) : Prop :=
  length temp = length toks /\ forall j t, nth j temp None = Some t -> nth_error toks j = Some t.

Lemma nth_some_lt {A} (l : list (option A)) j t : nth j l None = Some t -> (j < length l)%nat.
Proof.
  intro H. destruct (lt_dec j (length l)); [assumption|].
  rewrite nth_overflow in H by lia. discriminate.
Qed.

Lemma has_tok_index t temp : has_tok t temp = true ->
  nth (index_of t temp) temp None = Some t /\ (index_of t temp < length temp)%nat.
Proof.
  induction temp as [|o r IH]; simpl; [discriminate|].
  destruct (otok_eqb t o) eqn:E.
  - intros _. split; [|lia]. destruct o as [t'|]; simpl in E; [|discriminate]. apply tok_eqb_eq in E. congruence.
  - simpl. intro H. destruct (IH H). split; [assumption|lia].
Qed.

Lemma nth_has_tok t temp j : nth j temp None = Some t -> has_tok t temp = true.
Proof.
  intro H. unfold has_tok. apply existsb_exists. exists (Some t). split.
  - rewrite <- H. apply nth_In. eapply nth_some_lt; eauto.
  - simpl. apply tok_eqb_refl.
Qed.

Lemma temp_inv_set_none toks temp k : temp_inv toks temp -> temp_inv toks (set_nth k None temp).
Proof.
  intros [Hl Hn]. split; [rewrite length_set_nth; exact Hl|].
  intros j t. rewrite nth_set_nth.
  destruct ((j =? k)%nat && (k <? length temp)%nat); [discriminate|apply Hn].
Qed.

Lemma temp_inv_init toks : temp_inv toks (map Some toks).
Proof.
  split; [apply map_length|].
  intros j t H. revert j H. induction toks as [|x l IH]; intros [|j]; simpl; try discriminate; auto.
Qed.

Lemma covered_cons e p j : covered p j -> covered (e :: p) j.
Proof. intros (e' & Hin & Hw). exists e'. split; [right; assumption|assumption]. Qed.

Lemma plan_loop_inv toks : NoDup toks ->
  forall todo i temp acc,
    (i + todo = length toks)%nat -> temp_inv toks temp ->
    (forall e, In e acc -> slot_ok toks e) ->
    (forall j, (j < length toks)%nat -> (j < i)%nat \/ nth j temp None = None -> covered acc j) ->
    (forall e, In e (plan_loop i todo temp acc) -> slot_ok toks e) /\
    (forall j, (j < length toks)%nat -> covered (plan_loop i todo temp acc) j).
Proof.
  intros ND. induction todo as [|todo IH]; intros i temp acc Hi Ht Hok Hcov; simpl.
  - split.
    + intros e He. apply Hok. apply in_rev. exact He.
    + intros j Hj. destruct (Hcov j Hj) as (e & He & Hw); [left; lia|].
      exists e. split; [apply in_rev in He; exact He|exact Hw].
  - destruct (nth i temp None) as [item|] eqn:Ei.
    + destruct (tok_eqb item TX && has_tok TClass temp) eqn:Ec.
      * apply andb_true_iff in Ec. destruct Ec as [Ex Ecl]. apply tok_eqb_eq in Ex. subst item.
        pose proof (nth_has_tok _ _ _ Ei) as HasX.
        destruct (has_tok_index _ _ HasX) as [Hix Hixl].
        set (ix := index_of TX temp) in *.
        destruct Ht as [Hlen Hnth].
        assert (Hixi : ix = i).
        { pose proof (Hnth _ _ Hix) as H1. pose proof (Hnth _ _ Ei) as H2.
          apply (proj1 (NoDup_nth_error toks) ND); [lia|congruence]. }
        set (temp1 := set_nth ix None temp).
        assert (Ht1 : temp_inv toks temp1) by (apply temp_inv_set_none; split; assumption).
        destruct (has_tok_index _ _ Ecl) as [Hic0 Hic0l].
        assert (HasC1 : has_tok TClass temp1 = true).
        { apply (nth_has_tok _ _ (index_of TClass temp)). unfold temp1. rewrite nth_set_nth.
          destruct (index_of TClass temp =? ix)%nat eqn:E; [|simpl; exact Hic0].
          apply Nat.eqb_eq in E. rewrite E in Hic0. congruence. }
        destruct (has_tok_index _ _ HasC1) as [Hic Hicl].
        set (ic := index_of TClass temp1) in *.
        apply IH.
        -- lia.
        -- apply temp_inv_set_none. exact Ht1.
        -- intros e [<-|He]; [|apply Hok; exact He]. simpl. split; [apply Hnth; exact Hix|].
           destruct Ht1 as [_ Hn1]. apply Hn1. exact Hic.
        -- intros j Hj Hc.
           destruct (Nat.eq_dec j ix) as [->|Nx]; [exists (FIXClass, Fused ix ic); split; [left; reflexivity|left; reflexivity]|].
           destruct (Nat.eq_dec j ic) as [->|Nc]; [exists (FIXClass, Fused ix ic); split; [left; reflexivity|right; reflexivity]|].
           apply covered_cons. apply Hcov; [exact Hj|].
           destruct Hc as [Hc|Hc]; [left; lia|]. right.
           rewrite nth_set_nth in Hc. replace (j =? ic)%nat with false in Hc by (symmetry; apply Nat.eqb_neq; exact Nc).
           simpl in Hc. unfold temp1 in Hc. rewrite nth_set_nth in Hc.
           replace (j =? ix)%nat with false in Hc by (symmetry; apply Nat.eqb_neq; exact Nx). exact Hc.
      * apply IH.
        -- lia.
        -- exact Ht.
        -- intros e [<-|He]; [|apply Hok; exact He]. simpl. destruct Ht as [_ Hn]. apply Hn. exact Ei.
        -- intros j Hj Hc. destruct (Nat.eq_dec j i) as [->|Ni].
           ++ exists (FI item, Single i). split; [left; reflexivity|reflexivity].
           ++ apply covered_cons. apply Hcov; [exact Hj|]. destruct Hc; [left; lia|right; assumption].
    + apply IH.
      * lia.
      * exact Ht.
      * exact Hok.
      * intros j Hj Hc. apply Hcov; [exact Hj|]. destruct Hc as [Hc|Hc]; [|right; exact Hc].
        destruct (Nat.eq_dec j i) as [->|Ni]; [right; exact Ei|left; lia].
Qed.

Lemma plan_ok toks : NoDup toks ->
  (forall e, In e (plan toks) -> slot_ok toks e) /\ (forall j, (j < length toks)%nat -> covered (plan toks) j).
Proof.
  intro ND. unfold plan. apply plan_loop_inv; auto.
  - apply temp_inv_init.
  - intros e [].
  - intros j Hj [Hc|Hc]; [lia|].
    destruct (temp_inv_init toks) as [Hl _].
    exfalso. rewrite (nth_indep _ None (Some TX)) in Hc by (rewrite map_length; exact Hj).
    rewrite map_nth in Hc. discriminate.
Qed.

(* what each getitem function returns when every request sees the same sample *)
Definition ret_of (smp : sample) (idx : nat) (f : fitem) : ret :=
  match f with
  | FI t => R1 (view smp idx t)
  | FIXClass => R2 (VX (s_x smp)) (VCls (s_cls smp))
  end.
Definition fitem_no_other (f : fitem) : Prop := match f with FI (TOther _) => False | _ => True end.

Lemma run_fns_det ds c G idx s0 smp rest :
  seed c = Some s0 -> seeded_deterministic G ->
  getitem_xclass ds c idx (G 0%nat (Some (s0 + Z.of_nat idx))) = Ok (smp, rest) ->
  forall fs k, Forall fitem_no_other fs ->
    exists calls, run_fns ds c G idx fs k = Ok (map (ret_of smp idx) fs, calls)
                  /\ Forall (fun cl => c_sample cl = smp) calls.
Proof.
  intros Hs Hdet Hget. induction fs as [|f fs IH]; intros k Hno; simpl.
  - exists []. split; [reflexivity|constructor].
  - inversion Hno as [|? ? Hf Hno']; subst.
    assert (Hrun : exists cs, run_fn ds c G idx f k = Ok (ret_of smp idx f, cs) /\ Forall (fun cl => c_sample cl = smp) cs).
    { unfold run_fn. rewrite Hs. simpl option_map. rewrite (Hdet k 0%nat). rewrite Hget.
      destruct f as [[| | |m]|]; simpl in Hf; try contradiction; eexists; (split; [reflexivity|repeat constructor]). }
    destruct Hrun as (cs & -> & Hcs).
    destruct (IH (k + length cs)%nat Hno') as (calls & -> & Hcalls).
    exists (cs ++ calls). split; [reflexivity|]. apply Forall_app. split; assumption.
Qed.

Lemma run_fns_err ds c G idx s0 e :
  seed c = Some s0 -> seeded_deterministic G ->
  getitem_xclass ds c idx (G 0%nat (Some (s0 + Z.of_nat idx))) = Err e ->
  forall fs k, Forall fitem_no_other fs -> (exists f, In f fs /\ f <> FI TIndex) ->
    run_fns ds c G idx fs k = Err e.
Proof.
  intros Hs Hdet Hget. induction fs as [|f fs IH]; intros k Hno (f0 & Hin & Hne); simpl; [destruct Hin|].
  inversion Hno as [|? ? Hf Hno']; subst.
  destruct f as [[| | |m]|]; simpl in Hf; try contradiction;
    try (unfold run_fn; rewrite Hs; simpl option_map; rewrite (Hdet k 0%nat), Hget; reflexivity).
  simpl. destruct Hin as [<-|Hin]; [congruence|].
  rewrite (IH (k + 0)%nat Hno'); [reflexivity|]. exists f0. split; assumption.
Qed.

Definition good (toks : list token) (smp : sample) (idx j : nat) (v : value) : Prop :=
  exists t, nth_error toks j = Some t /\ v = view smp idx t.

Lemma nth_error_lt {A} (l : list A) j t : nth_error l j = Some t -> (j < length l)%nat.
Proof. intro H. apply nth_error_Some. congruence. Qed.

Lemma unpack_inv toks smp idx : forall p un,
  (forall e, In e p -> slot_ok toks e) -> length un = length toks ->
  let un' := unpack (map snd p) (map (ret_of smp idx) (map fst p)) un in
  length un' = length toks /\
  (forall j, good toks smp idx j (nth j un VNone) -> good toks smp idx j (nth j un' VNone)) /\
  (forall j, covered p j -> good toks smp idx j (nth j un' VNone)).
Proof.
  induction p as [|[f sl] p IH]; intros un Hok Hlen; simpl.
  - split; [exact Hlen|]. split; [auto|]. intros j (e & [] & _).
  - assert (Hok' : forall e, In e p -> slot_ok toks e) by (intros e He; apply Hok; right; exact He).
    pose proof (Hok (f, sl) (or_introl eq_refl)) as Hs. simpl in Hs.
    destruct f as [t|], sl as [i|ix ic]; try contradiction; simpl.
    + (* Single *)
      set (un1 := set_nth i (view smp idx t) un).
      assert (Hl1 : length un1 = length toks) by (unfold un1; rewrite length_set_nth; exact Hlen).
      destruct (IH un1 Hok' Hl1) as (L & P & Cv).
      assert (Pres : forall j, good toks smp idx j (nth j un VNone) -> good toks smp idx j (nth j un1 VNone)).
      { intros j Hg. unfold un1. rewrite nth_set_nth.
        destruct (j =? i)%nat eqn:E; simpl; [|exact Hg].
        apply Nat.eqb_eq in E. subst j.
        destruct (i <? length un)%nat; [|exact Hg]. exists t. split; [exact Hs|reflexivity]. }
      split; [exact L|]. split.
      * intros j Hg. apply P. apply Pres. exact Hg.
      * intros j (e & [<-|He] & Hw).
        -- simpl in Hw. subst j. apply P. unfold un1. rewrite nth_set_nth, Nat.eqb_refl.
           pose proof (nth_error_lt _ _ _ Hs) as Hlt.
           replace (i <? length un)%nat with true by (symmetry; apply Nat.ltb_lt; lia).
           exists t. split; [exact Hs|reflexivity].
        -- apply Cv. exists e. split; assumption.
    + (* Fused *)
      destruct Hs as [Hx Hc].
      set (un1 := set_nth ic (VCls (s_cls smp)) (set_nth ix (VX (s_x smp)) un)).
      assert (Hl1 : length un1 = length toks) by (unfold un1; rewrite !length_set_nth; exact Hlen).
      destruct (IH un1 Hok' Hl1) as (L & P & Cv).
      pose proof (nth_error_lt _ _ _ Hx) as Hxl. pose proof (nth_error_lt _ _ _ Hc) as Hcl.
      assert (Nxc : ix <> ic) by (intro; subst; congruence).
      assert (Hnth1 : forall j, nth j un1 VNone =
                 if (j =? ic)%nat then VCls (s_cls smp) else if (j =? ix)%nat then VX (s_x smp) else nth j un VNone).
      { intro j. unfold un1. rewrite !nth_set_nth, !length_set_nth.
        replace (ic <? length un)%nat with true by (symmetry; apply Nat.ltb_lt; lia).
        replace (ix <? length un)%nat with true by (symmetry; apply Nat.ltb_lt; lia).
        rewrite !andb_true_r. reflexivity. }
      assert (Gc : good toks smp idx ic (VCls (s_cls smp))) by (exists TClass; split; [exact Hc|reflexivity]).
      assert (Gx : good toks smp idx ix (VX (s_x smp))) by (exists TX; split; [exact Hx|reflexivity]).
      assert (Pres : forall j, good toks smp idx j (nth j un VNone) -> good toks smp idx j (nth j un1 VNone)).
      { intros j Hg. rewrite Hnth1.
        destruct (j =? ic)%nat eqn:E1; [apply Nat.eqb_eq in E1; subst; exact Gc|].
        destruct (j =? ix)%nat eqn:E2; [apply Nat.eqb_eq in E2; subst; exact Gx|exact Hg]. }
      split; [exact L|]. split.
      * intros j Hg. apply P. apply Pres. exact Hg.
      * intros j (e & [<-|He] & Hw).
        -- simpl in Hw. apply P. rewrite Hnth1. destruct Hw as [<-|<-].
           ++ replace (ix =? ic)%nat with false by (symmetry; apply Nat.eqb_neq; exact Nxc).
              rewrite Nat.eqb_refl. exact Gx.
           ++ rewrite Nat.eqb_refl. exact Gc.
        -- apply Cv. exists e. split; assumption.
Qed.

Lemma no_other_has_other toks : no_other toks -> has_other toks = false.
Proof.
  intro H. unfold has_other. destruct (existsb _ toks) eqn:E; [|reflexivity].
  apply existsb_exists in E. destruct E as ([| | |k] & Hin & Hb); try discriminate. exfalso. apply (H k Hin).
Qed.

Lemma plan_no_other toks : NoDup toks -> no_other toks -> Forall fitem_no_other (map fst (plan toks)).
Proof.
  intros ND Hn. apply Forall_forall. intros f Hf. apply in_map_iff in Hf. destruct Hf as ([f' sl] & <- & Hin).
  destruct (plan_ok toks ND) as [Hok _]. specialize (Hok _ Hin). simpl.
  destruct f' as [[| | |k]|]; simpl; auto.
  destruct sl; simpl in Hok; [|contradiction]. apply nth_error_In in Hok. apply (Hn k Hok).
Qed.

(* with a seed set, every request -- image only, label only, joint, in any order, with or without
   the index -- returns projections of ONE sample, the one determined by seed + idx *)
Lemma fused_views_agree_l ds c G toks idx s0 smp rest :
  NoDup toks -> no_other toks -> seed c = Some s0 -> seeded_deterministic G ->
  getitem_xclass ds c idx (G 0%nat (Some (s0 + Z.of_nat idx))) = Ok (smp, rest) ->
  exists calls, mw_getitem ds c G toks idx = Ok (map (view smp idx) toks, calls)
                /\ Forall (fun cl => c_sample cl = smp) calls.
Proof.
  intros ND Hn Hs Hdet Hget. unfold mw_getitem. rewrite (no_other_has_other _ Hn).
  destruct (run_fns_det ds c G idx s0 smp rest Hs Hdet Hget (map fst (plan toks)) 0%nat (plan_no_other _ ND Hn))
    as (calls & -> & Hcalls).
  exists calls. split; [|exact Hcalls]. f_equal. f_equal.
  destruct (plan_ok toks ND) as [Hok Hcov].
  destruct (unpack_inv toks smp idx (plan toks) (repeat VNone (length toks)) Hok (repeat_length _ _)) as (L & _ & Cv).
  apply (nth_ext _ _ VNone VNone).
  - rewrite map_length. exact L.
  - intros j Hj. rewrite L in Hj. destruct (Cv j (Hcov j Hj)) as (t & Ht & ->).
    symmetry. apply nth_error_nth. apply map_nth_error. exact Ht.
Qed.

Lemma fused_views_err_l ds c G toks idx s0 e :
  NoDup toks -> no_other toks -> seed c = Some s0 -> seeded_deterministic G ->
  getitem_xclass ds c idx (G 0%nat (Some (s0 + Z.of_nat idx))) = Err e ->
  wants_sample toks = true ->
  mw_getitem ds c G toks idx = Err e.
Proof.
  intros ND Hn Hs Hdet Hget Hw. unfold mw_getitem. rewrite (no_other_has_other _ Hn).
  rewrite (run_fns_err ds c G idx s0 e Hs Hdet Hget); [reflexivity|apply plan_no_other; assumption|].
  unfold wants_sample in Hw. apply existsb_exists in Hw. destruct Hw as (t & Hin & Ht).
  apply In_nth_error in Hin. destruct Hin as (j & Hj).
  destruct (plan_ok toks ND) as [Hok Hcov].
  destruct (Hcov j (nth_error_lt _ _ _ Hj)) as ([f sl] & He & Hwr).
  exists f. split; [apply in_map_iff; exists (f, sl); split; [reflexivity|exact He]|].
  specialize (Hok _ He). simpl in Hok, Hwr.
  destruct f as [t'|], sl as [i|ix ic]; try contradiction; [|discriminate].
  unfold writes in Hwr. subst i. intro Heq. inversion Heq; subst. rewrite Hj in Hok. inversion Hok; subst. simpl in Ht. discriminate.
Qed.

(* ====================================================================== *)
(* a joint request takes image and label from ONE getitem_xclass call     *)
(* (no assumption on the generator: holds without a seed)                 *)
(* ====================================================================== *)
Definition post_ok (jx jc : nat) (e : fitem * slot) : Prop :=
  exists t i, e = (FI t, Single i) /\ i <> jx /\ i <> jc.
Definition split_plan (jx jc : nat) (p : list (fitem * slot)) : Prop :=
  exists pre post, p = pre ++ (FIXClass, Fused jx jc) :: post /\ Forall (post_ok jx jc) post.

Lemma split_plan_snoc jx jc p e : split_plan jx jc p -> post_ok jx jc e -> split_plan jx jc (p ++ [e]).
Proof.
  intros (pre & post & -> & Hp) He. exists pre, (post ++ [e]). split.
  - rewrite <- app_assoc. reflexivity.
  - apply Forall_app. split; [exact Hp|repeat constructor; exact He].
Qed.

Lemma has_tok_false_nth t temp j : has_tok t temp = false -> nth j temp None <> Some t.
Proof. intros H Hn. rewrite (nth_has_tok _ _ _ Hn) in H. discriminate. Qed.

Lemma plan_loop_split toks jx jc : NoDup toks ->
  nth_error toks jx = Some TX -> nth_error toks jc = Some TClass ->
  forall todo i temp acc,
    (i + todo = length toks)%nat -> temp_inv toks temp ->
    ((nth jx temp None = Some TX /\ nth jc temp None = Some TClass /\ (i <= jx)%nat)
     \/ (split_plan jx jc (rev acc) /\ nth jx temp None = None /\ nth jc temp None = None /\ has_tok TX temp = false)) ->
    split_plan jx jc (plan_loop i todo temp acc).
Proof.
  intros ND Hjx Hjc. pose proof (nth_error_lt _ _ _ Hjx) as Hjxl.
  induction todo as [|todo IH]; intros i temp acc Hi Ht Hst; simpl.
  - destruct Hst as [(_ & _ & Hle)|(Hsp & _)]; [lia|exact Hsp].
  - destruct (nth i temp None) as [item|] eqn:Ei.
    + destruct (tok_eqb item TX && has_tok TClass temp) eqn:Ec.
      * apply andb_true_iff in Ec. destruct Ec as [Ex Ecl]. apply tok_eqb_eq in Ex. subst item.
        destruct Hst as [(Hx & Hc & Hle)|(_ & _ & _ & Hno)]; [|rewrite (nth_has_tok _ _ _ Ei) in Hno; discriminate].
        pose proof (nth_has_tok _ _ _ Ei) as HasX.
        destruct (has_tok_index _ _ HasX) as [Hix Hixl].
        set (ix := index_of TX temp) in *.
        destruct Ht as [Hlen Hnth].
        assert (Hixj : ix = jx).
        { pose proof (Hnth _ _ Hix) as H1. apply (proj1 (NoDup_nth_error toks) ND); [lia|congruence]. }
        set (temp1 := set_nth ix None temp).
        assert (Ht1 : temp_inv toks temp1) by (apply temp_inv_set_none; split; assumption).
        destruct (has_tok_index _ _ Ecl) as [Hic0 Hic0l].
        assert (HasC1 : has_tok TClass temp1 = true).
        { apply (nth_has_tok _ _ (index_of TClass temp)). unfold temp1. rewrite nth_set_nth.
          destruct (index_of TClass temp =? ix)%nat eqn:E; [|simpl; exact Hic0].
          apply Nat.eqb_eq in E. rewrite E in Hic0. congruence. }
        destruct (has_tok_index _ _ HasC1) as [Hic Hicl].
        set (ic := index_of TClass temp1) in *.
        assert (Hicj : ic = jc).
        { destruct Ht1 as [Hl1 Hn1]. pose proof (Hn1 _ _ Hic) as H1.
          apply (proj1 (NoDup_nth_error toks) ND); [lia|congruence]. }
        clearbody ic. subst ic. unfold temp1 in *. clearbody ix. subst ix.
        assert (Hjcl : (jc < length temp)%nat) by (rewrite length_set_nth in Hicl; exact Hicl).
        assert (Hn2 : forall j, nth j (set_nth jc None (set_nth jx None temp)) None
                                = if (j =? jc)%nat || (j =? jx)%nat then None else nth j temp None).
        { intro j. rewrite !nth_set_nth, length_set_nth.
          replace (jc <? length temp)%nat with true by (symmetry; apply Nat.ltb_lt; lia).
          replace (jx <? length temp)%nat with true by (symmetry; apply Nat.ltb_lt; lia).
          rewrite !andb_true_r. destruct (j =? jc)%nat, (j =? jx)%nat; reflexivity. }
        apply IH.
        -- lia.
        -- apply temp_inv_set_none. exact Ht1.
        -- right. split; [|split; [|split]].
           ++ simpl. exists (rev acc), []. split; [reflexivity|constructor].
           ++ rewrite Hn2, Nat.eqb_refl, orb_true_r. reflexivity.
           ++ rewrite Hn2, Nat.eqb_refl. reflexivity.
           ++ destruct (has_tok TX (set_nth jc None (set_nth jx None temp))) eqn:Eh; [|reflexivity].
              destruct (has_tok_index _ _ Eh) as [Hk _]. rewrite Hn2 in Hk.
              destruct (index_of TX (set_nth jc None (set_nth jx None temp)) =? jc)%nat; [discriminate|].
              destruct (index_of TX (set_nth jc None (set_nth jx None temp)) =? jx)%nat eqn:E2; [discriminate|].
              simpl in Hk. pose proof (Hnth _ _ Hk) as H1. apply Nat.eqb_neq in E2.
              exfalso. apply E2. apply (proj1 (NoDup_nth_error toks) ND); [apply (nth_error_lt _ _ _ H1)|congruence].
      * apply IH.
        -- lia.
        -- exact Ht.
        -- destruct Hst as [(Hx & Hc & Hle)|(Hsp & Hx & Hc & Hno)].
           ++ left. split; [exact Hx|]. split; [exact Hc|].
              assert (i <> jx); [|lia]. intro; subst i. rewrite Hx in Ei. inversion Ei; subst item.
              rewrite (nth_has_tok _ _ _ Hc) in Ec. simpl in Ec. discriminate.
           ++ right. split; [|auto]. simpl. apply split_plan_snoc; [exact Hsp|].
              exists item, i. split; [reflexivity|]. split; intro; subst i; congruence.
    + apply IH.
      * lia.
      * exact Ht.
      * destruct Hst as [(Hx & Hc & Hle)|H]; [|right; exact H].
        left. split; [exact Hx|]. split; [exact Hc|]. assert (i <> jx) by (intro; subst; congruence). lia.
Qed.

Lemma plan_split toks jx jc : NoDup toks ->
  nth_error toks jx = Some TX -> nth_error toks jc = Some TClass -> split_plan jx jc (plan toks).
Proof.
  intros ND Hx Hc. unfold plan. apply (plan_loop_split toks jx jc ND Hx Hc).
  - reflexivity.
  - apply temp_inv_init.
  - left. split; [|split; [|lia]].
    + apply nth_error_nth. apply map_nth_error. exact Hx.
    + apply nth_error_nth. apply map_nth_error. exact Hc.
Qed.

(* what run_fns returns per getitem function *)
Definition ret_rel (calls : list call) (f : fitem) (r : ret) : Prop :=
  match f with
  | FI _ => exists v, r = R1 v
  | FIXClass => exists cl, In cl calls /\ r = R2 (VX (s_x (c_sample cl))) (VCls (s_cls (c_sample cl)))
  end.

Lemma ret_rel_mono calls calls' f r : (forall cl, In cl calls -> In cl calls') -> ret_rel calls f r -> ret_rel calls' f r.
Proof. intros H. destruct f; simpl; auto. intros (cl & Hin & ->). exists cl. auto. Qed.

Lemma Forall2_weaken {A B} (R R' : A -> B -> Prop) l l' :
  (forall a b, R a b -> R' a b) -> Forall2 R l l' -> Forall2 R' l l'.
Proof. intros H F. induction F; constructor; auto. Qed.

Lemma run_fns_rel ds c G idx : forall fs k items calls,
  run_fns ds c G idx fs k = Ok (items, calls) -> Forall2 (ret_rel calls) fs items.
Proof.
  induction fs as [|f fs IH]; intros k items calls; simpl.
  - intro H. inversion H; subst. constructor.
  - destruct (run_fn ds c G idx f k) as [[r cs]|] eqn:Er; [|discriminate].
    destruct (run_fns ds c G idx fs (k + length cs)) as [[rs cs']|] eqn:Ers; [|discriminate].
    intro H. inversion H; subst. constructor.
    + unfold run_fn in Er.
      destruct f as [[| | |m]|]; try discriminate;
        try (destruct (getitem_xclass ds c idx _) as [[s rest]|]; [|discriminate]);
        inversion Er; subst; simpl; try (eexists; reflexivity).
      eexists. split; [left; reflexivity|reflexivity].
    + eapply Forall2_weaken; [|apply (IH _ _ _ Ers)].
      intros f' r'. apply ret_rel_mono. intros cl Hcl. apply in_or_app. right. exact Hcl.
Qed.

Lemma length_unpack : forall sl it un, length (unpack sl it un) = length un.
Proof.
  induction sl as [|[i|ix ic] sl IH]; intros [|[v|vx vc] it] un; simpl; auto; rewrite IH, ?length_set_nth; reflexivity.
Qed.

Definition aligned (e : fitem * slot) (r : ret) : Prop :=
  match snd e, r with Single _, R1 _ => True | Fused _ _, R2 _ _ => True | _, _ => False end.

Lemma unpack_app : forall p1 it1 sl2 it2 un,
  Forall2 aligned p1 it1 ->
  unpack (map snd p1 ++ sl2) (it1 ++ it2) un = unpack sl2 it2 (unpack (map snd p1) it1 un).
Proof.
  induction p1 as [|[f sl] p1 IH]; intros it1 sl2 it2 un H; inversion H as [|? r ? it1' Ha H']; subst; simpl; [reflexivity|].
  unfold aligned in Ha. simpl in Ha. destruct sl, r; try contradiction; apply IH; exact H'.
Qed.

Lemma unpack_post jx jc : forall post it un,
  Forall (post_ok jx jc) post ->
  nth jx (unpack (map snd post) it un) VNone = nth jx un VNone /\
  nth jc (unpack (map snd post) it un) VNone = nth jc un VNone.
Proof.
  induction post as [|e post IH]; intros it un H; simpl; [auto|].
  inversion H as [|? ? (t & i & -> & N1 & N2) H']; subst. simpl.
  destruct it as [|[v|vx vc] it]; auto.
  destruct (IH it (set_nth i v un) H') as [E1 E2]. rewrite E1, E2, !nth_set_nth.
  replace (jx =? i)%nat with false by (symmetry; apply Nat.eqb_neq; auto).
  replace (jc =? i)%nat with false by (symmetry; apply Nat.eqb_neq; auto). auto.
Qed.

Lemma slot_rel_aligned toks calls e r : slot_ok toks e -> ret_rel calls (fst e) r -> aligned e r.
Proof.
  destruct e as [[t|] [i|ix ic]]; simpl; try contradiction; unfold aligned; simpl.
  - intros _ (v & ->). exact I.
  - intros _ (cl & _ & ->). exact I.
Qed.

Lemma joint_single_draw_l ds c G toks idx vals calls jx jc :
  NoDup toks -> no_other toks ->
  mw_getitem ds c G toks idx = Ok (vals, calls) ->
  nth_error toks jx = Some TX -> nth_error toks jc = Some TClass ->
  exists cl, In cl calls /\
    nth_error vals jx = Some (VX (s_x (c_sample cl))) /\
    nth_error vals jc = Some (VCls (s_cls (c_sample cl))).
Proof.
  intros ND Hn Hmw Hx Hc. unfold mw_getitem in Hmw. rewrite (no_other_has_other _ Hn) in Hmw.
  destruct (run_fns ds c G idx (map fst (plan toks)) 0) as [[items calls']|] eqn:Er; [|discriminate].
  inversion Hmw; subst calls' vals. clear Hmw.
  pose proof (run_fns_rel _ _ _ _ _ _ _ _ Er) as Hrel.
  destruct (plan_ok toks ND) as [Hok _].
  destruct (plan_split toks jx jc ND Hx Hc) as (pre & post & Hp & Hpost).
  rewrite Hp in Hrel, Hok |- *. rewrite map_app in Hrel. simpl in Hrel.
  apply Forall2_app_inv_l in Hrel. destruct Hrel as (it1 & it2 & Hr1 & Hr2 & ->).
  inversion Hr2 as [|? r ? it3 Hrf Hr3]; subst. simpl in Hrf. destruct Hrf as (cl & Hcl & ->).
  exists cl. split; [exact Hcl|].
  rewrite map_app. simpl map.
  assert (Hal : Forall2 aligned pre it1).
  { clear - Hr1 Hok. revert it1 Hr1. induction pre as [|e pre IH]; intros it1 H; inversion H; subst; constructor.
    - eapply slot_rel_aligned; [apply Hok; left; reflexivity|eassumption].
    - apply IH; [intros e' He'; apply Hok; right; exact He'|assumption]. }
  rewrite unpack_app by exact Hal. simpl unpack.
  set (un1 := unpack (map snd pre) it1 (repeat VNone (length toks))).
  assert (Hl1 : length un1 = length toks) by (unfold un1; rewrite length_unpack, repeat_length; reflexivity).
  destruct (unpack_post jx jc post it3 (set_nth jc (VCls (s_cls (c_sample cl))) (set_nth jx (VX (s_x (c_sample cl))) un1)) Hpost) as [E1 E2].
  pose proof (nth_error_lt _ _ _ Hx) as Hxl. pose proof (nth_error_lt _ _ _ Hc) as Hcl'.
  assert (Nxc : jx <> jc) by (intro; subst; congruence).
  set (res := unpack (map snd post) it3 _) in *.
  assert (Hlr : length res = length toks) by (unfold res; rewrite length_unpack, !length_set_nth; exact Hl1).
  split.
  - rewrite (nth_error_nth' res VNone) by lia. f_equal. rewrite E1, !nth_set_nth, !length_set_nth.
    replace (jx =? jc)%nat with false by (symmetry; apply Nat.eqb_neq; exact Nxc). simpl.
    rewrite Nat.eqb_refl. replace (jx <? length un1)%nat with true by (symmetry; apply Nat.ltb_lt; lia). reflexivity.
  - rewrite (nth_error_nth' res VNone) by lia. f_equal. rewrite E2, !nth_set_nth, !length_set_nth.
    rewrite Nat.eqb_refl. replace (jc <? length un1)%nat with true by (symmetry; apply Nat.ltb_lt; lia). reflexivity.
Qed.

(* ====================================================================== *)
(* the context of a request                                               *)
(* ====================================================================== *)
Lemma getitem_xclass_ctx ds c idx dr s rest :
  getitem_xclass ds c idx dr = Ok (s, rest) ->
  s_ctx s = if with_ctx c then [LdX (Z.of_nat idx); LdClass (Z.of_nat idx)] else [].
Proof.
  unfold getitem_xclass.
  destruct dr as [|[u|? ?|? ?] dr1]; try discriminate.
  destruct (Qltb (total_p c) u).
  - destruct (to_one_hot_vector (ds_cls ds idx) (ds_ncls ds)); [|discriminate].
    intro H. inversion H; subst. reflexivity.
  - destruct dr1 as [|[?|hi idx2|? ?] dr2]; try discriminate.
    destruct (negb (hi =? Z.of_nat (ds_len ds))); [discriminate|].
    destruct (to_one_hot_vector (ds_cls ds idx) (ds_ncls ds)); [|discriminate].
    destruct (to_one_hot_vector (ds_cls ds (Z.to_nat idx2)) (ds_ncls ds)); [|discriminate].
    destruct (if Qltb u (cutmix_p c) then cutmix_alpha c else mixup_alpha c); [|discriminate].
    destruct dr2 as [|[?|? ?|a lamb] dr3]; try discriminate.
    destruct (negb (Qeq_bool a q)); [discriminate|].
    destruct (Qltb u (cutmix_p c)); [discriminate|].
    destruct (match unify c with
              | UNone => _ | UPadOrCutEnd => _ | UOther => _ end) as [x2u|e]; [|discriminate].
    intro H. inversion H; subst. reflexivity.
Qed.

(* whatever was drawn: the only loads that can record into the request's context are loads of sample idx itself;
   the partner is loaded with a context of its own *)
Lemma ctx_describes_l ds c idx dr s rest :
  getitem_xclass ds c idx dr = Ok (s, rest) -> ctx_describes idx s.
Proof.
  intro H. unfold ctx_describes. rewrite (getitem_xclass_ctx _ _ _ _ _ _ H).
  destruct (with_ctx c); repeat constructor.
Qed.

Lemma run_fn_ctx ds c G idx f k r cs :
  run_fn ds c G idx f k = Ok (r, cs) -> Forall (fun cl => ctx_describes idx (c_sample cl)) cs.
Proof.
  unfold run_fn. destruct f as [[| | |m]|]; try discriminate;
    try (destruct (getitem_xclass ds c idx _) as [[s rest]|] eqn:E; [|discriminate]);
    intro H; inversion H; subst; repeat constructor; simpl; eapply ctx_describes_l; eauto.
Qed.

Lemma run_fns_ctx ds c G idx : forall fs k items calls,
  run_fns ds c G idx fs k = Ok (items, calls) -> Forall (fun cl => ctx_describes idx (c_sample cl)) calls.
Proof.
  induction fs as [|f fs IH]; intros k items calls; simpl.
  - intro H. inversion H; subst. constructor.
  - destruct (run_fn ds c G idx f k) as [[r cs]|] eqn:Er; [|discriminate].
    destruct (run_fns ds c G idx fs (k + length cs)) as [[rs cs']|] eqn:Ers; [|discriminate].
    intro H. inversion H; subst. apply Forall_app. split.
    + eapply run_fn_ctx; eauto.
    + eapply IH; eauto.
Qed.

Lemma request_ctx_describes_l ds c G toks idx vals calls :
  mw_getitem ds c G toks idx = Ok (vals, calls) -> Forall (fun cl => ctx_describes idx (c_sample cl)) calls.
Proof.
  unfold mw_getitem. destruct (has_other toks); [discriminate|].
  destruct (run_fns ds c G idx (map fst (plan toks)) 0) as [[items calls']|] eqn:Er; [|discriminate].
  intro H. inversion H; subst. eapply run_fns_ctx; eauto.
Qed.

(* ====================================================================== *)
(* the partner may be the sample itself: then the sample is returned      *)
(* ====================================================================== *)
Lemma blend_self w v : Forall2 Qeq (blend w v v) v.
Proof. induction v as [|x v IH]; simpl; constructor; [ring|exact IH]. Qed.

Lemma Forall2_Qeq_trans a b c : Forall2 Qeq a b -> Forall2 Qeq b c -> Forall2 Qeq a c.
Proof.
  intros H. revert c. induction H; intros c0 H2; inversion H2; subst; constructor.
  - etransitivity; eauto.
  - auto.
Qed.

Lemma self_partner_l ds c idx dr s rest w :
  draws_ok dr -> getitem_xclass ds c idx dr = Ok (s, rest) -> s_mix s = Some (idx, w) ->
  same_tensor (s_x s) (ds_x ds idx) /\ Forall2 Qeq (s_cls s) (label_vector ds idx).
Proof.
  intros Hd H Hm. pose proof (same_partner_weight_l _ _ _ _ _ _ Hd H) as Hs. rewrite Hm in Hs.
  destruct Hs as [(Hp & Hw0 & Hw1 & Hsh & Hat & Hcls) _]. split.
  - split; [exact Hsh|]. intros i Hin. rewrite Hsh in Hin. rewrite (Hat i Hin). simpl. rewrite Hin. ring.
  - eapply Forall2_Qeq_trans; [exact Hcls|]. apply blend_self.
Qed.
