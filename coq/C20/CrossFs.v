(* C20 - why the model's atomic Rename is an assumption about SIBLINGS of one directory.

   rename(2) is atomic only inside one file system.  Across file systems os.rename fails with EXDEV and shutil.move
   falls back to copytree + rmtree: the destination directory is created FIRST, its content arrives afterwards.
   cross_device_move is that sequence for the start-marker folder; after its first operation the destination exists
   WITHOUT the start marker - exactly the state the code classifies as "manually copied dataset".
   Two names in one directory are always on one file system, so create_folder_with_file's rename between the
   sibling names <dst>.autocopy_tmp and <dst> is the atomic one; the harness rejects every other rename. *)
From Coq Require Import List String Bool Arith ZArith.
Import ListNotations.
From KD Require Import C20.Model C20.Proofs.

(* what shutil.move(tmp, d) does when tmp and d are on different file systems (tmp holds only the start marker) *)
Definition cross_device_move (tmp d : path) : list op :=
  [Mkdir d; Create (d ++ [sname]); Write (d ++ [sname]) start_text; Remove (tmp ++ [sname]); Rmdir tmp].

Lemma app_one_neq : forall (d : path) (x : name), d <> d ++ [x].
Proof.
  intros d x H. assert (L : List.length d = List.length (d ++ [x])) by (rewrite <- H; reflexivity).
  rewrite app_length in L. simpl in L. rewrite Nat.add_1_r in L. exact (n_Sn _ L).
Qed.

Lemma cross_device_move_not_atomic_l : forall s tmp d,
    lookup s d = None -> lookup s (d ++ [sname]) = None -> parent_is_dir s d = true ->
    exists s1 evs, run (firstn 1 (cross_device_move tmp d)) s = Some (s1, evs) /\
                   lookup s1 d = Some Dir /\ lookup s1 (d ++ [sname]) = None.
Proof.
  intros s tmp d Hd Hm Hp. exists (ins d Dir s), [EMkdir d]. split.
  - simpl. rewrite Hd, Hp. reflexivity.
  - split.
    + apply lookup_ins_eq.
    + rewrite lookup_ins_neq by apply app_one_neq. exact Hm.
Qed.
