"""C10 — KDMixCollator: image and label of sample i are mixed with the same partner and the same weight.

Batches are id-encoded: pixel (ch, r, c) of sample k is  k (r+c even) / k*k (r+c odd)  + 100*ch, the
one-hot label of sample k is k (or a random class / a soft row / a scalar in [0,1] for the binary path), so partner,
weight and pasted box can be decoded from what the real collator returns.  The samples come from a real KDDataset
(optionally below a real LabelSmoothingWrapper) through a real ModeWrapper; the collator runs directly, inside a
KDComposeCollator / KDSingleCollatorWrapper, as the shipped MAEFinetuneMixCollator, and optionally through a real
torch DataLoader (num_workers 0, or 2 with the dataset's worker_init_fn re-seeding the collator).  All draws of the
collator's generator are recorded by a spy injected through the public set_rng (in a worker: wrapped around the
generator worker_init_fn installed) and fed to the Coq model.
"""
import random
from fractions import Fraction
from math import isqrt

from .common import C, Nat, Opt, Raw, Rec, coq

ID = "C10"
COQ_FILES = ["C10/Model.v", "C10/Spec.v", "C10/Check.v", "C10/Proofs.v", "C10/Property.v"]
COQ_PRELUDE = ("From Coq Require Import ZArith QArith List Bool.\nImport ListNotations.\n"
               "From KD Require Import C10.Model C10.Spec C10.Check.\nOpen Scope Z_scope.\n")
COQ_CHECK = "check"
COQ_CASE_TYPE = "case_t"
SHARD = 120
ALLOWED_AXIOMS = []
TRUSTED = [
    "hand-written model coq/C10/Model.v of KDMixCollator.collate/shuffle/get_random_bbox and of "
    "ModeWrapper.get_item/set_item (repaired tree); tied to KD_REPO by this run's correspondence evaluation "
    "(decoded images / labels, the three ctx entries, every draw, the exception class of every rejection)",
    "pixel/label float32 arithmetic is not modelled: the model emits descriptors (partner, weight | box); the harness "
    "decodes id-encoded outputs (exact equality for pasted pixels, tolerance 2e-3 on mixed pixel values <= 64, "
    "1e-5 on label entries and lambdas)",
    "half box sizes: the model takes the integers the implementation's float expression produced (obtained by calling "
    "its get_random_bbox with zero centres on the lambda tensor it was called with); Spec.half_spec states the exact "
    "value floor(0.5*sqrt(1-lambda)*h) by integer square root (theorems half_spec_correct / half_ok_unique), the Coq "
    "check and the Python oracle compare every shipped half size with it on the lambda the implementation held "
    "(float32 rounding of the draw in lamb_mode batch, the draw itself in lamb_mode sample), granting +-1 only where "
    "the exact value is within 1e-6 (float64) / 1e-4 (float32) of an integer; the other theorems quantify over all "
    "non-negative half sizes",
    "generator contract: random() in [0,1), beta in [0,1], integers(h) in [0,h), permutation(n) is a permutation",
    "torch.default_collate, DataLoader, Tensor.roll/flip/fancy indexing/slice assignment behave as documented",
    "harness/c10.py: spy generator, scripted generator (edge draws), id-encoding and decoding, the recorder wrapped "
    "around the collator pipeline (it only observes: ctx dict, arguments of get_random_bbox)",
]
ASSUMPTIONS = [
    "mixup_p + cutmix_p == 1.0 (the constructor raises NotImplementedError otherwise), so `apply` is always true",
    "domain of the claim (Proofs.in_domain): the batch has an image item x of shape (B, C, H, W) with a float dtype, "
    "B >= 1; labels are rows (ANY 2-d matrix: one-hot / soft / smoothed, and rows that do not sum to one -- multi-hot, "
    "unnormalised, all-zero, negative entries, rows of -1 for unlabeled samples; the label formula is checked entry by "
    "entry for all of them, the sum-to-one clause only where the input rows sum to one) or 1-d values in [0,1]; flip "
    "shuffling only for even B "
    "(or B = 1).  Everything else is rejected explicitly and modelled as an error value (theorem errors_explained): "
    "AssertionError (odd B under flip; labels that are class indices > 1, outside [0,1] or of rank 3), ValueError "
    "(`h, w = x.shape[2:]` for images that are not (C,H,W) when a box is needed), RuntimeError (in-place mixup of an "
    "integer image), TypeError (0-d samples in lamb_mode sample; no x item), AssertionError (a multi-view image item, "
    "i.e. a list of view tensors per sample -- also in the single-item mode 'x', where get_item used to read the list "
    "of views as a batch of several items and only view 0 was mixed: repaired, fixes/C10_multiview_single_mode.patch; "
    "rejected before any draw).  Where the rejected operation is not "
    "needed (pure mixup of (H,W) / (D,) / (C,T,H,W) inputs, pure cutmix of uint8 images) the collator works and the "
    "property is checked",
    "1-d integer labels in {0,1} are binary labels for the collator whatever the dataset meant (inherent ambiguity)",
    "context entries recorded by the dataset use keys other than the collator's own 'apply', 'use_cutmix', 'lambda'",
    "samples handed to the collator are not aliased (default_collate stacks copies)",
]
RULE = ("B in 1..9, 1-3 channels, H,W in 4..17 independently (some up to 40), all apply/lamb/shuffle mode combinations, "
        "probability splits summing to exactly 1.0 incl. pure mixup / pure cutmix, alphas 0.1..5; pipelines: collator "
        "called directly / in KDComposeCollator / in KDSingleCollatorWrapper / the shipped MAEFinetuneMixCollator(), "
        "return_ctx on and off, in-process or through a torch DataLoader over a real KDDataset+ModeWrapper (trailing "
        "batches incl. B = 1; thorough: 2 workers re-seeded by the dataset's worker_init_fn; half of the loader cases "
        "check a batch of the 2nd / 3rd epoch served by the same collator object, 60% of those after epochs with another "
        "batch size, i.e. other full and trailing batch sizes); item orders with index / "
        "aux items of dtypes int64, float64, float16, uint8, bool, Python scalars and the single-item mode 'x'; ctx "
        "entries recorded per sample by the dataset (int, float, bool, int16 / float32 tensors); label kinds one-hot id "
        "/ random / long, soft rows, real LabelSmoothingWrapper (multi-class incl. unlabeled -1 samples, and binary), "
        "rows that do not sum to one (multi-hot with 0..C ones incl. all-zero rows, unnormalised non-negative rows, rows "
        "with negative entries, one-hot rows mixed with rows of -1), binary float / int, and the "
        "rejected kinds (class indices, out of range, rank 3); image dtypes float32/float64/uint8/int64 and ranks "
        "(C,H,W) / (H,W) / (D,) / () / (C,T,H,W); 4% multi-view samples (x = list of 2-3 view tensors, 40% of them in the "
        "single-item mode 'x'); 15% of the float (C,H,W) batches carry 0-3 non-finite pixels (+inf, -inf, NaN) per image "
        "anywhere in the image: these are handed to the oracle pixel for pixel (tokens for NaN / inf) and judged bit-exactly "
        "(cutmix: outside the prescribed box x_i's pixel, inside it the partner's pixel, NaN stays that NaN and inf that inf; "
        "mixup: NaN / inf exactly where lambda*a + (1-lambda)*b gives it), they are kept out of the Coq comparison; "
        "draws from numpy default_rng(seed) or a scripted generator injecting "
        "edge draws (lambda 0/1, centres at the border, identity permutation); non-trivial = B >= 2 and outcome ok; "
        "distinct by (B,H,W,modes,probabilities,tokens,label kind,pipeline,dtype,rank,per-sample cut flags)")

PROBS = [(1.0, 0.0), (0.0, 1.0), (0.5, 0.5), (0.25, 0.75), (0.75, 0.25), (0.125, 0.875), (0.9, 0.1), (0.2, 0.8)]
ALPHAS = [0.1, 0.3, 0.8, 1.0, 1, 2.0, 5.0]
XRANK = {"chw": 3, "hw": 2, "d": 1, "b": 0, "cthw": 4}
MAE_CFG = {"mixup_alpha": 0.8, "cutmix_alpha": 1.0, "mixup_p": 0.5, "cutmix_p": 0.5, "apply_mode": "batch",
           "lamb_mode": "batch", "shuffle_mode": "flip"}
OUTCOME = {"ok": 0, "AssertionError:flip": 1, "AssertionError:label": 2, "ValueError:unpack": 3, "RuntimeError:cast": 4,
           "TypeError:view": 5, "TypeError:nox": 6, "AssertionError:multiview": 7}


# ---------------------------------------------------------------------------
# generators handed to the collator
# ---------------------------------------------------------------------------
class ScriptRng:
    """stands in for numpy's Generator: same methods/return types, values from random.Random with edge
    values injected (all inside the generator's contract)"""

    def __init__(self, seed, edges):
        self.r = random.Random(seed)
        self.edges = edges

    def _unit(self):
        r = self.r
        if r.random() < 0.3:
            return r.choice(self.edges)
        return r.random()

    def _beta(self):
        r = self.r
        if r.random() < 0.35:
            return r.choice([0.0, 1.0, 0.5, 0.75, 0.25, 1e-9, 1.0 - 1e-9, 0.9999999, 0.36])
        return r.random()

    def random(self, size=None):
        import numpy as np
        if size is None:
            return self._unit()
        return np.array([self._unit() for _ in range(size)], dtype=np.float64)

    def beta(self, a, b, size=None):
        import numpy as np
        if size is None:
            return self._beta()
        return np.array([self._beta() for _ in range(size)], dtype=np.float64)

    def integers(self, low, high=None, size=None):
        import numpy as np
        assert high is None
        (n,) = size
        r = self.r
        return np.array([r.choice([0, low - 1, r.randrange(low), r.randrange(low)]) for _ in range(n)], dtype=np.int64)

    def permutation(self, n):
        import numpy as np
        r = self.r
        p = list(range(n))
        k = r.random()
        if k < 0.15:
            pass
        elif k < 0.3:
            i, j = r.randrange(n), r.randrange(n)
            p[i], p[j] = p[j], p[i]
        else:
            r.shuffle(p)
        return np.array(p, dtype=np.int64)


class Spy:
    """records every draw; injected through set_rng"""

    def __init__(self, inner):
        self.inner = inner
        self.trace = []

    def random(self, size=None):
        v = self.inner.random(size) if size is not None else self.inner.random()
        if size is None:
            self.trace.append(["unit", float(v)])
        else:
            self.trace.append(["units", [float(a) for a in v]])
        return v

    def beta(self, a, b, size=None):
        assert a == b
        v = self.inner.beta(a, b, size=size) if size is not None else self.inner.beta(a, b)
        if size is None:
            self.trace.append(["beta", float(a), float(v)])
        else:
            self.trace.append(["betas", float(a), [float(x) for x in v]])
        return v

    def integers(self, low, high=None, size=None):
        assert high is None and size is not None
        v = self.inner.integers(low, size=size)
        self.trace.append(["ints", int(low), [int(x) for x in v]])
        return v

    def permutation(self, n):
        v = self.inner.permutation(n)
        self.trace.append(["perm", [int(x) for x in v]])
        return v

    def __getattr__(self, name):  # any other generator method = protocol change the model does not know
        raise AttributeError(f"SpyGenerator: unmodelled generator method {name}")


class ZeroCentres:
    def integers(self, low, high=None, size=None):
        import numpy as np
        return np.zeros(size, dtype=np.int64)


class NotReseeded:
    """the generator a collator holds before the DataLoader workers start: every draw is an error, so a worker_init_fn
    that does not reach the collator is noticed"""

    def __getattr__(self, name):
        raise RuntimeError("the collator's generator was not re-seeded by the dataset's worker_init_fn")


def make_rng(case):
    import math
    import numpy as np
    kind, seed = case["rng"]
    if kind == "numpy":
        return Spy(np.random.default_rng(seed))
    cp = case["cutmix_p"] or 0.0
    edges = [0.0, 0.5, cp, math.nextafter(cp, 0.0) if cp > 0 else 0.0, math.nextafter(1.0, 0.0)]
    edges = [e for e in edges if 0.0 <= e < 1.0]
    return Spy(ScriptRng(seed, edges))


# ---------------------------------------------------------------------------
# id-encoded batches
# ---------------------------------------------------------------------------
def eff_dims(case):
    """(C, H, W) of the canonical view of one sample used for decoding"""
    r = case.get("xrank", "chw")
    if r in ("chw", "cthw"):
        return case["C"], case["H"], case["W"]
    if r == "hw":
        return 1, case["H"], case["W"]
    if r == "d":
        return 1, 1, case["W"]
    return 1, 1, 1


def pattern(k, ch, h, w):
    import torch
    r = torch.arange(h).view(h, 1)
    c = torch.arange(w).view(1, w)
    even = ((r + c) % 2 == 0)
    base = torch.where(even, torch.tensor(float(k)), torch.tensor(float(k * k)))
    return base.unsqueeze(0).repeat(ch, 1, 1) + 100.0 * torch.arange(ch).view(ch, 1, 1).float()


def x_sample(case, k):
    """sample k (position in the batch) in the configured rank and dtype"""
    import torch
    ch, h, w = eff_dims(case)
    p = pattern(k, ch, h, w)
    r = case.get("xrank", "chw")
    if r == "hw":
        p = p[0]
    elif r == "d":
        p = p[0, 0]
    elif r == "b":
        p = p[0, 0, 0]
    elif r == "cthw":
        p = torch.stack([p, p], dim=1)
    p = p.to(getattr(torch, case.get("xdtype", "float32")))
    for mk, mc, mr, mcol, kind in case.get("nonfinite") or []:
        # invalid-measurement markers / padding: a few +-inf / NaN pixels per image (float images of rank (C,H,W) only)
        if mk == k:
            p[mc, mr, mcol] = NONFINITE[kind]
    return p


NONFINITE = {"inf": float("inf"), "-inf": float("-inf"), "nan": float("nan")}


def pix_tokens(t):
    """one image -> flat list (C,H,W order) of JSON-able entries: a float for a finite pixel, "nan" / "inf" / "-inf" """
    out = []
    for v in t.double().flatten().tolist():
        out.append("nan" if v != v else ("inf" if v == float("inf") else ("-inf" if v == float("-inf") else v)))
    return out


def pix_values(tokens):
    return [NONFINITE[v] if isinstance(v, str) else float(v) for v in tokens]


def same_pixel(a, b):
    """bit-identical as far as the property goes: the same number, or both NaN"""
    return (a != a and b != b) or a == b


def fmt_pixel(v):
    return "NaN" if v != v else repr(v)


def judge_pixels(case, obs, i, p, lam, cut, want):
    """pixel-exact judgement of output image i of a batch whose images contain non-finite pixels (obs["pix"]):
    cutmix: there is a prescribed box such that every pixel outside of it is x_i's pixel and every pixel inside of it is
    x_p's pixel, bit for bit (a NaN of the source stays NaN, an inf stays that inf, nothing non-finite appears elsewhere);
    mixup: every pixel is lam*a + (1-lam)*b of the two source pixels: NaN / +-inf exactly where that arithmetic gives
    it, within 2e-3 elsewhere.  -> None | description"""
    ch, h, w = eff_dims(case)
    out = pix_values(obs["pix"][i])
    xi = pix_values(pix_tokens(x_sample(case, i)))
    xp = pix_values(pix_tokens(x_sample(case, p)))
    if len(out) != ch * h * w:
        return f"image has {len(out)} pixels, expected {ch * h * w}"
    pos = [(c, r, col) for c in range(ch) for r in range(h) for col in range(w)]
    if cut:
        first_bad = None
        for box in sorted(want):
            top, left, bot, right = box
            bad = None
            for n, (c, r, col) in enumerate(pos):
                inside = top <= r < bot and left <= col < right
                src = xp[n] if inside else xi[n]
                if not same_pixel(out[n], src):
                    bad = (f"pixel (channel {c}, row {r}, col {col}) is {fmt_pixel(out[n])}; it lies "
                           f"{'inside' if inside else 'outside'} the box {list(box)} and must be bit-identical to "
                           f"{'the partner x_%d' % p if inside else 'x_%d' % i}'s pixel {fmt_pixel(src)} "
                           f"(x_{i} has {fmt_pixel(xi[n])}, x_{p} has {fmt_pixel(xp[n])} there)")
                    break
            if bad is None:
                area = (bot - top) * (right - left)
                if p != i and abs(1.0 - area / (h * w) - lam) > 1e-5:
                    bad = (f"image keeps {1.0 - area / (h * w):.4f} of sample {i} (box {list(box)} from sample {p}), "
                           f"ctx lambda says {lam:.4f}")
                else:
                    return None
            first_bad = first_bad or bad
        return ("no box floor(0.5*sqrt(1-lambda)*(h,w)) around the drawn centre reproduces the image pixel for pixel "
                f"(candidates {sorted(want)}): " + str(first_bad))
    for n, (c, r, col) in enumerate(pos):
        e = lam * xi[n] + (1.0 - lam) * xp[n]
        o = out[n]
        if e != e or e in (float("inf"), float("-inf")):
            ok = same_pixel(o, e)
        else:
            ok = o == o and abs(o - e) <= 2e-3
        if not ok:
            return (f"pixel (channel {c}, row {r}, col {col}) is {fmt_pixel(o)}, {lam:.6f}*x_{i} + {1 - lam:.6f}*x_{p} "
                    f"= {lam:.6f}*{fmt_pixel(xi[n])} + {1 - lam:.6f}*{fmt_pixel(xp[n])} = {fmt_pixel(e)}")
    return None


def canonical(case, t):
    """one returned sample -> (C, H, W) double tensor, or None if the two frames of a (C,T,H,W) sample differ"""
    import torch
    ch, h, w = eff_dims(case)
    r = case.get("xrank", "chw")
    t = t.double()
    if r == "cthw":
        if not torch.equal(t[:, 0], t[:, 1]):
            return None
        t = t[:, 0]
    return t.reshape(ch, h, w)


def f32(v):
    import numpy as np
    return float(np.float32(v))


def label_matrix(case):
    """input label rows as Fractions (what the collator sees after .type(float32))"""
    lab = case["labels"]
    kind, vals = lab[0], lab[1][:case["B"]]     # rows of the checked batch (a loader's full batches have more)
    n = case["ncls"]
    if kind in ("onehot_id", "onehot_rand", "onehot_long"):
        return [[Fraction(1 if j == v else 0) for j in range(n)] for v in vals]
    if kind in ROW16_KINDS:
        return [[Fraction(a, 16) for a in v] for v in vals]
    if kind == "smooth":
        s = lab[2]
        off = s / n
        on = 1. - s + off
        # -1: an unlabeled sample, LabelSmoothingWrapper hands out a row of -1
        return [[Fraction(-1) if v == -1 else Fraction(f32(on if j == v else off)) for j in range(n)] for v in vals]
    if kind == "binary_smooth":
        s = lab[2]
        off = s / 2
        return [[Fraction(f32(v - off if v > 0.5 else v + off))] for v in vals]
    if kind in ("binary", "binary_out"):
        return [[Fraction(v, 16)] for v in vals]
    if kind == "rank3":
        return [[Fraction(v), Fraction(0), Fraction(0), Fraction(1 - v)] for v in vals]
    return [[Fraction(v)] for v in vals]          # binary_int, index


def label_ndim(case):
    kind = case["labels"][0]
    if kind in ("onehot_id", "onehot_rand", "onehot_long", "smooth") or kind in ROW16_KINDS:
        return 2
    return 3 if kind == "rank3" else 1


def labels_valid(case):
    if label_ndim(case) == 2:
        return True
    if label_ndim(case) == 3:
        return False
    return all(0 <= r[0] <= 1 for r in label_matrix(case))


def label_value(case, k):
    """what the root dataset's getitem_class returns for batch position k"""
    import torch
    lab = case["labels"]
    kind, vals = lab[0], lab[1]
    if kind in ("onehot_id", "onehot_rand"):
        return torch.nn.functional.one_hot(torch.tensor(vals[k]), case["ncls"]).float()
    if kind == "onehot_long":
        return torch.nn.functional.one_hot(torch.tensor(vals[k]), case["ncls"])
    if kind in ROW16_KINDS:
        return torch.tensor([a / 16.0 for a in vals[k]], dtype=torch.float32)
    if kind in ("binary", "binary_out"):
        return vals[k] / 16.0
    if kind == "rank3":
        return torch.tensor([[float(vals[k]), 0.0], [0.0, 1.0 - vals[k]]])
    return int(vals[k])                          # smooth, binary_smooth (smoothed by the wrapper), binary_int, index


CTX_KINDS = ["int", "float", "bool", "i16", "f32"]
# 2-d label rows given entry-wise in sixteenths: probability rows ("soft") and rows that do NOT sum to one -- multi-hot
# targets with 0..n ones (multi-label), unnormalised non-negative soft targets, rows with negative entries, and
# one-hot rows mixed with all -1 rows (the marker OneHotWrapper / LabelSmoothingWrapper emit for unlabeled samples).
# The collator accepts every 2-d label matrix (only 1-d labels are range-checked).
ROW16_KINDS = ("soft", "multihot", "soft_unnorm", "signed", "unlabeled")


def ctx_value(kind, idx):
    import torch
    if kind == "int":
        return idx * 3 + 1
    if kind == "float":
        return idx / 8.0 + 0.1
    if kind == "bool":
        return idx % 2 == 0
    if kind == "i16":
        return torch.tensor([idx, -idx], dtype=torch.int16)
    return torch.tensor(idx * 0.5 + 0.25)


def ctx_expected(kind, idxs):
    import torch
    if kind == "int":
        return torch.tensor([i * 3 + 1 for i in idxs], dtype=torch.int64)
    if kind == "float":
        return torch.tensor([i / 8.0 + 0.1 for i in idxs], dtype=torch.float64)
    if kind == "bool":
        return torch.tensor([i % 2 == 0 for i in idxs], dtype=torch.bool)
    if kind == "i16":
        return torch.tensor([[i, -i] for i in idxs], dtype=torch.int16)
    return torch.tensor([i * 0.5 + 0.25 for i in idxs], dtype=torch.float32)


AUX_KINDS = ["int64", "float64", "f16", "u8", "bool", "pyint", "pyfloat"]


def aux_value(kind, j, idx):
    import torch
    if kind == "int64":
        return torch.tensor([idx * 3 + j, -idx])
    if kind == "float64":
        return torch.tensor([idx / 3.0, float(j)], dtype=torch.float64)
    if kind == "f16":
        return torch.tensor([[idx * 0.5, j]], dtype=torch.float16)
    if kind == "u8":
        return torch.tensor([idx % 256, 255 - j], dtype=torch.uint8)
    if kind == "bool":
        return torch.tensor([idx % 2 == 0, idx % 3 == 0])
    if kind == "pyint":
        return idx * 7 + j
    return idx / 7.0 + j


def aux_expected(kind, j, idxs):
    import torch
    if kind == "int64":
        return torch.tensor([[i * 3 + j, -i] for i in idxs], dtype=torch.int64)
    if kind == "float64":
        return torch.tensor([[i / 3.0, float(j)] for i in idxs], dtype=torch.float64)
    if kind == "f16":
        return torch.tensor([[[i * 0.5, j]] for i in idxs], dtype=torch.float16)
    if kind == "u8":
        return torch.tensor([[i % 256, 255 - j] for i in idxs], dtype=torch.uint8)
    if kind == "bool":
        return torch.tensor([[i % 2 == 0, i % 3 == 0] for i in idxs], dtype=torch.bool)
    if kind == "pyint":
        return torch.tensor([i * 7 + j for i in idxs], dtype=torch.int64)
    return torch.tensor([i / 7.0 + j for i in idxs], dtype=torch.float64)


def raw_ints(t):
    """bit pattern of a tensor as a list of ints (so that 'unchanged' means bit for bit)"""
    import torch
    if not isinstance(t, torch.Tensor):
        return None
    t = t.contiguous()
    if t.dtype == torch.float64:
        t = t.view(torch.int64)
    elif t.dtype == torch.float32:
        t = t.view(torch.int32)
    elif t.dtype == torch.float16:
        t = t.view(torch.int16)
    elif t.dtype == torch.bool:
        t = t.to(torch.uint8)
    return [int(v) for v in t.flatten()]


def same_tensor(a, b):
    import torch
    return (isinstance(a, torch.Tensor) and a.dtype == b.dtype and a.shape == b.shape
            and raw_ints(a) == raw_ints(b))


def aux_kind(case, t):
    return (case.get("auxdt") or {}).get(t, "int64")


def layout(case):
    """(Bfull, k, workers): the checked batch is batch k of a loader with batch size Bfull over k*Bfull + B samples"""
    ld = case.get("loader")
    if not ld:
        return case["B"], 0, None
    return ld["full"], ld["k"], ld["workers"]


def batch_indices(case):
    full, k, _ = layout(case)
    return [k * full + i for i in range(case["B"])]


def build_dataset(case, collators):
    import torch
    from kappadata.datasets.kd_dataset import KDDataset
    full, k, _ = layout(case)
    n_total = k * full + case["B"]
    ctxitems = case.get("ctxitems") or []

    class IdDataset(KDDataset):
        def __init__(self):
            super().__init__(collators=collators)

        def __len__(self):
            return n_total

        def getitem_x(self, idx, ctx=None):
            if ctx is not None:
                for j, kind in enumerate(ctxitems):
                    ctx[f"u{j}"] = ctx_value(kind, idx)
            x = x_sample(case, idx % full)
            if case.get("views"):
                return [x + 1000 * v for v in range(case["views"])]      # a multi-view sample: a list of view tensors
            return x

        def getitem_class(self, idx, ctx=None):
            return label_value(case, idx % full)

        def getshape_class(self):
            return (1,) if case["labels"][0] == "binary_smooth" else (case["ncls"],)

    for t in case["tokens"]:
        if t.startswith("aux"):
            j = int(t[3:])
            kind = aux_kind(case, t)
            setattr(IdDataset, "getitem_" + t, (lambda self, idx, ctx=None, _j=j, _k=kind: aux_value(_k, _j, idx)))
    return IdDataset()


def build_pipeline(case, mode, rc):
    """-> (callable handed the list of samples, the KDMixCollator inside it)"""
    from kappadata.collators import KDComposeCollator, KDMixCollator, KDSingleCollatorWrapper
    pipe = case.get("pipe", "direct")
    if pipe == "mae":
        from kappadata.common.collators.mae_finetune_mix_collator import MAEFinetuneMixCollator
        top = MAEFinetuneMixCollator()
        return top, top.collators[0]
    kw = dict(mixup_alpha=case["mixup_alpha"], cutmix_alpha=case["cutmix_alpha"], mixup_p=case["mixup_p"],
              cutmix_p=case["cutmix_p"], apply_mode=case["apply_mode"], lamb_mode=case["lamb_mode"],
              shuffle_mode=case["shuffle_mode"])
    if pipe == "direct":
        mix = KDMixCollator(dataset_mode=mode, return_ctx=rc, **kw)
        return mix, mix
    mix = KDMixCollator(**kw)
    if pipe == "compose":
        return KDComposeCollator(collators=[mix], dataset_mode=mode, return_ctx=rc), mix
    return KDSingleCollatorWrapper(collator=mix, dataset_mode=mode, return_ctx=rc), mix


def classify(e):
    s = str(e)
    n = type(e).__name__
    if isinstance(e, AssertionError) and "multi-view" in s:
        return "AssertionError:multiview"
    if isinstance(e, AssertionError):
        return "AssertionError:label" if "one-hot" in s else "AssertionError:flip" if s.strip() == "" or "len(item)" in s \
            else "AssertionError: " + s[:120]
    if isinstance(e, ValueError) and "to unpack" in s:
        return "ValueError:unpack"
    if isinstance(e, RuntimeError) and "can't be cast" in s:
        return "RuntimeError:cast"
    if isinstance(e, TypeError) and "view()" in s:
        return "TypeError:view"
    if isinstance(e, TypeError) and "NoneType" in s and "len()" in s:
        return "TypeError:nox"
    if isinstance(e, NotImplementedError):
        return "NotImplementedError"
    return n + ": " + s[:200]


class Recorder:
    """the collate_fn handed to the DataLoader: calls the real pipeline and reports, next to its result, what the
    KDMixCollator inside was given and drew (observation only)"""

    def __init__(self, top, mix, in_worker):
        self.top, self.mix, self.in_worker = top, mix, in_worker
        self.bbox_calls = []
        self.ctxs = []
        orig_bbox = mix.get_random_bbox
        orig_collate = mix.collate
        self.orig_bbox = orig_bbox

        def recording_bbox(h, w, lamb):
            self.bbox_calls.append((h, w, lamb.clone()))
            return orig_bbox(h=h, w=w, lamb=lamb)

        def recording_collate(batch, dataset_mode, ctx=None):
            self.ctxs.append(ctx)
            return orig_collate(batch, dataset_mode, ctx)

        mix.get_random_bbox = recording_bbox
        mix.collate = recording_collate

    def __call__(self, batch):
        import torch
        mix = self.mix
        rep = {"result": "ok", "n": len(batch)}
        if self.in_worker:
            info = torch.utils.data.get_worker_info()
            rep["worker"] = None if info is None else info.id
            if not isinstance(mix.rng, (Spy, NotReseeded)):
                mix.set_rng(Spy(mix.rng))          # transparent: wraps the generator worker_init_fn installed
        spy = mix.rng
        if isinstance(spy, Spy):
            spy.trace = []
        del self.bbox_calls[:]
        del self.ctxs[:]
        out = None
        try:
            out = self.top(batch)
        except Exception as e:
            rep["result"] = classify(e)
        rep["trace"] = list(spy.trace) if isinstance(spy, Spy) else None
        halves, held = [], []
        keep = mix.rng
        mix.rng = ZeroCentres()
        try:
            for (h, w, lamb) in self.bbox_calls:
                # zero centres: bot = half height, right = half width
                bb, _ = self.orig_bbox(h=h, w=w, lamb=lamb)
                halves += [[int(r[2]), int(r[3])] for r in bb]
                held += [float(v) for v in lamb]
        finally:
            mix.rng = keep
        rep["halves"], rep["held"] = halves, held
        rep["out"] = out
        rep["ctx"] = self.ctxs[-1] if self.ctxs else None
        rep["n_collate_calls"] = len(self.ctxs)
        return rep


def summarise_image(out, i, case):
    """-> ["U", v1, v2] | ["P", q, [top,left,bot,right]] | ["O", why]"""
    import torch
    ch, h, w = eff_dims(case)
    off = 100.0 * torch.arange(ch).view(ch, 1, 1).double()
    o = canonical(case, out)
    if o is None:
        return ["O", "the frames of the sample differ"]
    o = o - off
    own = pattern(i, ch, h, w).double() - off
    own_mask = (o == own)
    r = torch.arange(h).view(h, 1)
    c = torch.arange(w).view(1, w)
    even = ((r + c) % 2 == 0).unsqueeze(0).expand(ch, h, w)
    if not bool(own_mask.all()):
        foreign = ~own_mask
        for q in range(case["B"]):
            if q == i:
                continue
            pq = pattern(q, ch, h, w).double() - off
            if bool((o[foreign] == pq[foreign]).all()):
                if bool(foreign.all()):
                    break  # the whole image is sample q's: reported as uniform
                m0 = foreign[0]
                if not all(bool((foreign[k] == m0).all()) for k in range(ch)):
                    return ["O", "pasted region differs between channels"]
                rows = m0.any(dim=1).nonzero().flatten()
                cols = m0.any(dim=0).nonzero().flatten()
                top, bot = int(rows[0]), int(rows[-1]) + 1
                left, right = int(cols[0]), int(cols[-1]) + 1
                rect = torch.zeros_like(m0)
                rect[top:bot, left:right] = True
                if not bool((rect == m0).all()):
                    return ["O", "pasted region is not a rectangle"]
                return ["P", q, [top, left, bot, right]]
    ev, od = o[even], o[~even]
    v1 = float(ev[0])
    v2 = float(od[0]) if od.numel() else float(i * i) + (v1 - float(i))   # a single pixel has no odd position
    if float((ev - v1).abs().max()) > 5e-4 or (od.numel() and float((od - v2).abs().max()) > 5e-4):
        return ["O", "neither a rectangle of another sample nor uniform per parity"]
    if not od.numel():
        v2 = None
    return ["U", v1, v2]


def run_impl(case):
    import gc
    import numpy as np
    import torch
    from torch.utils.data import DataLoader
    from kappadata.wrappers.mode_wrapper import ModeWrapper
    from kappadata.wrappers.sample_wrappers.label_smoothing_wrapper import LabelSmoothingWrapper
    toks = case["tokens"]
    mode = " ".join(toks)
    b = case["B"]
    pipe = case.get("pipe", "direct")
    rc = False if pipe == "mae" else case.get("rc", True)
    full, k, workers = layout(case)
    np.random.seed(case["rng"][1] % (2 ** 31))
    torch.manual_seed(case["rng"][1])
    top, mix = build_pipeline(case, mode, rc)
    obs = {"result": "ok"}
    obs["cfg"] = {a: getattr(mix, a) for a in ("mixup_alpha", "cutmix_alpha", "mixup_p", "cutmix_p", "apply_mode",
                                                "lamb_mode", "shuffle_mode")}
    root = build_dataset(case, [top])
    ds = root
    if case["labels"][0] in ("smooth", "binary_smooth"):
        ds = LabelSmoothingWrapper(dataset=ds, smoothing=case["labels"][2])
    mw = ModeWrapper(dataset=ds, mode=mode, return_ctx=rc)
    in_worker = bool(workers)
    recorder = Recorder(top, mix, in_worker)
    if in_worker:
        top.set_rng(NotReseeded())
    else:
        top.set_rng(make_rng(case))
    if case.get("loader"):
        # earlier epochs over the same dataset with the SAME collator object (optionally with another batch size, so the
        # collator sees batches of other sizes -- incl. other trailing sizes -- before the checked one)
        epochs = case["loader"].get("epochs", 1)
        prev = []
        for ep in range(epochs):
            bs = full if ep == epochs - 1 else (case["loader"].get("prev_full") or full)
            loader = DataLoader(mw, batch_size=bs, shuffle=False, drop_last=False, num_workers=workers,
                                collate_fn=recorder, worker_init_fn=mw.worker_init_fn if workers else None)
            reps = []
            for rep in loader:
                reps.append(rep)
            del loader
            if workers:
                gc.collect()     # no stale worker-iterator objects may survive into the next fork
            if ep < epochs - 1:
                prev.append([[r["n"], r["result"][:40]] for r in reps])
        if prev:
            obs["prev_epochs"] = prev
        obs["n_batches"] = len(reps)
        obs["batch_sizes"] = [r["n"] for r in reps]
        if workers:
            obs["workers_seen"] = sorted({r.get("worker") for r in reps})
            firsts = {}
            for r in reps:
                if r["trace"]:
                    firsts.setdefault(r.get("worker"), r["trace"])
            if len(firsts) > 1:
                obs["worker_first_traces_differ"] = len({str(t) for t in firsts.values()}) == len(firsts)
        if len(reps) != k + 1:
            obs["result"] = f"loader produced {len(reps)} batches, expected {k + 1}"
            return obs
        rep = reps[k]
    else:
        rep = recorder([mw[i] for i in range(b)])
    obs["result"] = rep["result"]
    obs["trace"] = rep["trace"]
    obs["halves"] = rep["halves"]
    obs["held"] = rep["held"]
    if obs["trace"] is None:
        obs["result"] = "no generator installed: " + obs["result"]
    if obs["result"] != "ok":
        return obs
    out = rep["out"]
    ctx = rep["ctx"]
    if rc:
        if not (isinstance(out, tuple) and len(out) == 2 and isinstance(out[1], dict)):
            obs["layout"] = "return_ctx: got " + type(out).__name__
            return obs
        out, ctx_ret = out
        obs["ctx_returned_is_ctx_used"] = ctx_ret is ctx or (set(ctx_ret) == set(ctx or {}))
        ctx = ctx_ret
    if rep["n_collate_calls"] != 1 or ctx is None:
        obs["layout"] = f"KDMixCollator.collate was called {rep['n_collate_calls']} times"
        return obs
    if case.get("views") and "x" in toks:
        xi = out if len(toks) == 1 else (out[toks.index("x")] if isinstance(out, (list, tuple)) and len(out) == len(toks) else None)
        if isinstance(xi, (list, tuple)) and all(isinstance(v, torch.Tensor) for v in xi):
            ref = [torch.stack([x_sample(case, (k * full + i) % full) + 1000 * v for i in range(b)]) for v in range(case["views"])]
            obs["views_changed"] = [v for v, (a, r_) in enumerate(zip(xi, ref))
                                    if a.shape != r_.shape or not torch.equal(a.double(), r_.double())]
    if len(toks) == 1:
        obs["layout"] = "tensor" if isinstance(out, torch.Tensor) else f"{type(out).__name__}[{len(out)}]"
        out_items = [out]
    else:
        obs["layout"] = "tuple" if isinstance(out, tuple) and len(out) == len(toks) else f"{type(out).__name__}[{len(out)}]"
        out_items = list(out)
    if obs["layout"] not in ("tensor", "tuple"):
        return obs
    idxs = batch_indices(case)
    others, others_in, others_ok = [], [], True
    xs0 = x_sample(case, 0)
    for t, it in zip(toks, out_items):
        if t == "x":
            if not (isinstance(it, torch.Tensor) and tuple(it.shape) == (b,) + tuple(xs0.shape) and it.dtype == xs0.dtype):
                obs["layout"] = "x has shape/dtype " + str(getattr(it, "shape", None)) + str(getattr(it, "dtype", None))
                return obs
            if case.get("nonfinite"):
                # non-finite pixels: the images are handed to the oracle pixel for pixel (tokens for NaN / inf)
                obs["pix"] = [pix_tokens(canonical(case, it[i])) for i in range(b)]
                obs["img"] = [["N"] for i in range(b)]
            else:
                obs["img"] = [summarise_image(it[i], i, case) for i in range(b)]
            others.append("X")
            others_in.append("X")
        elif t == "class":
            if not isinstance(it, torch.Tensor) or it.ndim not in (1, 2) or it.dtype != torch.float32:
                obs["layout"] = "class item is " + str(getattr(it, "shape", type(it).__name__)) + str(getattr(it, "dtype", ""))
                return obs
            if not bool(torch.isfinite(it).all()):
                obs["lab_nonfinite"] = True          # NaN / inf entries are reported as 1e30 (JSON- and Q-representable)
            fin = torch.where(torch.isfinite(it), it, torch.full_like(it, 1e30)).double()
            if it.ndim == 1:
                obs["lab"] = [[float(v)] for v in fin]
            else:
                obs["lab"] = [[float(v) for v in row] for row in fin]
            obs["lab_ndim"] = it.ndim
            others.append("Y")
            others_in.append("Y")
        else:
            exp = torch.tensor(idxs, dtype=torch.int64) if t == "index" else aux_expected(aux_kind(case, t), int(t[3:]), idxs)
            others_ok = others_ok and same_tensor(it, exp)
            others.append(raw_ints(it) if isinstance(it, torch.Tensor) else ["?"])
            others_in.append(raw_ints(exp))
    obs["others"] = others
    obs["others_in"] = others_in
    obs["others_ok"] = others_ok
    # the context: user entries bit for bit, then the collator's own three
    ctxitems = (case.get("ctxitems") or []) if rc else []
    ctx_in, ctx_out, ctx_ok = [], [], True
    for j, kind in enumerate(ctxitems):
        ctx_in.append([j, raw_ints(ctx_expected(kind, idxs))])
    for key, val in ctx.items():
        if key.startswith("u") and key[1:].isdigit():
            j = int(key[1:])
            ctx_out.append(["u", j, raw_ints(val) if isinstance(val, torch.Tensor) else ["?"]])
            ok = j < len(ctxitems) and same_tensor(val, ctx_expected(ctxitems[j], idxs))
            ctx_ok = ctx_ok and ok
        elif key in ("apply", "use_cutmix", "lambda"):
            ctx_out.append([key])
        else:
            ctx_out.append(["?", key])
            ctx_ok = False
    ctx_ok = ctx_ok and [e[1] for e in ctx_out if e[0] == "u"] == list(range(len(ctxitems)))
    obs["ctx_in"], obs["ctx_out"], obs["ctx_user_ok"] = ctx_in, ctx_out, ctx_ok
    obs["ctx_keys"] = list(ctx.keys())
    if not all(key in ctx for key in ("apply", "use_cutmix", "lambda")):
        obs["layout"] = "ctx lacks apply/use_cutmix/lambda: " + str(list(ctx.keys()))
        return obs
    obs["apply"] = [bool(v) for v in ctx["apply"]]
    uc = ctx["use_cutmix"]
    obs["cutmix"] = [bool(v) for v in uc] if isinstance(uc, torch.Tensor) else [bool(uc)]
    obs["lambda"] = [float(v) for v in ctx["lambda"]]
    return obs


# ---------------------------------------------------------------------------
# independent Python statement of the property
# ---------------------------------------------------------------------------
def modes_of(case, obs):
    """the shipped MAE collator is taken as configured; otherwise the case says how the collator was built"""
    if case.get("pipe") == "mae" and "cfg" in obs:
        return obs["cfg"]
    return case


def expected_partner(case, obs, i):
    b = case["B"]
    if b == 1:
        return 0
    m = modes_of(case, obs)["shuffle_mode"]
    if m == "roll":
        return (i - 1) % b
    if m == "flip":
        return b - 1 - i
    perms = [d[1] for d in obs["trace"] if d[0] == "perm"]
    if len(perms) != 1:
        return None
    return perms[0][i]


def half_exact(lam, h):
    """floor(0.5*sqrt(1-lam)*h) for a rational lam in [0,1], by integer square root"""
    t = (1 - Fraction(lam)) * h * h / 4
    return isqrt(t.numerator // t.denominator)


def halves_allowed(lam, h, tol):
    """the exact half size, plus a neighbour only where v = 0.5*sqrt(1-lam)*h is within tol of the jump"""
    lam = Fraction(lam)
    e = half_exact(lam, h)
    t = (1 - lam) * h * h                       # = 4 v^2
    out = {e}
    x = Fraction(e + 1) - tol                   # v >= e + 1 - tol ?
    if x <= 0 or 4 * x * x <= t:
        out.add(e + 1)
    x = Fraction(e) + tol                       # v <= e + tol ?
    if e >= 1 and t <= 4 * x * x:
        out.add(e - 1)
    return out


def cut_draws(case, obs):
    """-> per-box (lambda as held by the implementation, centre row, centre col) reconstructed from the recorded draws
    alone (independent of what get_random_bbox was called with)"""
    m = modes_of(case, obs)
    tr = obs["trace"]
    ints = [d for d in tr if d[0] == "ints"]
    if len(ints) != 2:
        return None
    if m["lamb_mode"] == "batch":
        betas = [d for d in tr if d[0] == "beta"]
        if len(betas) != 1:
            return None
        lams = [f32(betas[0][2])]               # torch.tensor([rng.beta(..)]) is a float32 tensor
    else:
        betas = [d for d in tr if d[0] == "betas"]
        if not betas:
            return None
        lams = list(betas[-1][2])               # the cutmix betas are drawn after the mixup betas; float64
    if not (len(lams) == len(ints[0][2]) == len(ints[1][2])):
        return None
    return list(zip(lams, ints[0][2], ints[1][2]))


def expected_error(case, obs):
    r = obs["result"]
    m = modes_of(case, obs)
    b = case["B"]
    has_cls = "class" in case["tokens"]
    if r == "AssertionError:flip":
        return m["shuffle_mode"] == "flip" and b % 2 == 1 and b > 1
    if r == "AssertionError:label":
        return has_cls and not labels_valid(case)
    if r == "ValueError:unpack":
        return case.get("xrank", "chw") != "chw" and (m["cutmix_p"] or 0.0) > 0
    if r == "RuntimeError:cast":
        return not case.get("xdtype", "float32").startswith("float") and (m["mixup_p"] or 0.0) > 0
    if r == "TypeError:view":
        return case.get("xrank", "chw") == "b" and m["lamb_mode"] == "sample" and (m["mixup_p"] or 0.0) > 0
    if r == "TypeError:nox":
        return "x" not in case["tokens"]
    if r == "AssertionError:multiview":
        return bool(case.get("views")) and "x" in case["tokens"]
    return False


def oracle(case, obs):
    if "harness_exception" in obs:
        return "harness exception: " + obs["harness_exception"] + obs.get("tb", "")
    b = case["B"]
    _, h, w = eff_dims(case)
    m = modes_of(case, obs)
    if obs["result"] != "ok":
        if expected_error(case, obs):
            return None
        return "collator raised " + obs["result"]
    if case.get("views") and "x" in case["tokens"]:
        return (f"a multi-view image item ({case['views']} views per sample) was accepted in mode {case['tokens']}: returned "
                f"{obs.get('layout')}" + (f", views changed by the collator: {obs['views_changed']} of {case['views']}"
                                          if "views_changed" in obs else ""))
    if obs["layout"] not in ("tensor", "tuple"):
        return f"batch layout changed: mode {case['tokens']} returned {obs['layout']}"
    if case.get("loader") and obs["batch_sizes"][-1] != b:
        return f"loader batch sizes {obs['batch_sizes']}, the checked batch should have {b} samples"
    if "class" in case["tokens"] and not labels_valid(case):
        return "labels that are neither rows nor scalars in [0,1] were accepted"
    if not obs["others_ok"]:
        return "an item other than x/class was changed by the collator"
    if not obs["ctx_user_ok"]:
        return ("a context entry recorded by the dataset was changed, dropped or added by the collator: "
                f"keys {obs['ctx_keys']}")
    lam_all, cut_all = obs["lambda"], obs["cutmix"]
    n_l = 1 if m["lamb_mode"] == "batch" else b
    if len(lam_all) != n_l or len(cut_all) != n_l:
        return f"ctx lambda/use_cutmix have lengths {len(lam_all)}/{len(cut_all)}, expected {n_l}"
    if not all(obs["apply"]) or len(obs["apply"]) != b:
        return "ctx['apply'] is not all-true although mixup_p + cutmix_p == 1"
    Y = [[float(v) for v in row] for row in label_matrix(case)]
    rows_prob = all(min(r) >= 0 and sum(Fraction(v) for v in r) == 1 for r in label_matrix(case))
    boxes = cut_draws(case, obs) if any(cut_all) else None
    tol = Fraction(1, 10000) if m["lamb_mode"] == "batch" else Fraction(1, 1000000)
    for i in range(b):
        lam = lam_all[0] if n_l == 1 else lam_all[i]
        cut = cut_all[0] if n_l == 1 else cut_all[i]
        if not (0.0 <= lam <= 1.0):
            return f"sample {i}: reported lambda {lam} outside [0,1]"
        p = expected_partner(case, obs, i)
        if p is None:
            return "random shuffling drew %d permutations, expected exactly one shared by image and label" % \
                   len([d for d in obs["trace"] if d[0] == "perm"])
        s = obs["img"][i]
        own, oth = (float(i), float(i * i)), (float(p), float(p * p))
        why = None
        if s[0] == "N":
            want = None
            if cut:
                if boxes is None:
                    why = "cutmix flagged but the draws are not [beta(s), integers(h), integers(w)]"
                else:
                    lam_d, chh, cww = boxes[0] if n_l == 1 else boxes[i]
                    want = set()
                    for hh in halves_allowed(lam_d, h, tol):
                        for wh in halves_allowed(lam_d, w, tol):
                            want.add((max(chh - hh, 0), max(cww - wh, 0), min(chh + hh, h), min(cww + wh, w)))
            if not why:
                why = judge_pixels(case, obs, i, p, lam, cut, want)
        elif s[0] == "O":
            why = "image is " + s[1]
        elif cut:
            # the box the formula prescribes for the recorded lambda and centre (independent of the implementation)
            want = None
            if boxes is None:
                why = "cutmix flagged but the draws are not [beta(s), integers(h), integers(w)]"
            else:
                lam_d, chh, cww = boxes[0] if n_l == 1 else boxes[i]
                want = set()
                for hh in halves_allowed(lam_d, h, tol):
                    for wh in halves_allowed(lam_d, w, tol):
                        want.add((max(chh - hh, 0), max(cww - wh, 0), min(chh + hh, h), min(cww + wh, w)))
            if why:
                pass
            elif s[0] == "P":
                top, left, bot, right = s[2]
                if s[1] != p:
                    why = f"box pasted from sample {s[1]}, shuffle mode prescribes {p}"
                elif not (0 <= top < bot <= h and 0 <= left < right <= w):
                    why = f"box {s[2]} out of bounds"
                elif abs(1.0 - (bot - top) * (right - left) / (h * w) - lam) > 1e-5:
                    why = (f"image keeps {1.0 - (bot - top) * (right - left) / (h * w):.4f} of sample {i} "
                           f"(box {s[2]} from sample {s[1]}), ctx lambda says {lam:.4f}")
                elif tuple(s[2]) not in want:
                    why = (f"pasted box {s[2]} is not the box floor(0.5*sqrt(1-lambda)*(h,w)) around the drawn centre "
                           f"({chh},{cww}) for the drawn lambda {float(lam_d):.6f}: expected {sorted(want)} "
                           f"(area fraction before clipping should be ~ 1-lambda = {1 - float(lam_d):.4f})")
            else:
                v = (s[1], s[2] if s[2] is not None else own[1])
                areas = {(bo - t) * (r - l) for (t, l, bo, r) in want}
                if v == own and (p == i or abs(lam - 1.0) <= 1e-5):
                    if p != i and 0 not in areas:
                        why = (f"nothing was pasted, the formula prescribes a box of area {sorted(areas)} for the "
                               f"drawn lambda {float(lam_d):.6f}")
                elif v == oth and abs(lam) <= 1e-5:
                    if h * w not in areas:
                        why = f"the whole image was replaced, the formula prescribes box areas {sorted(areas)}"
                else:
                    why = f"cutmix flagged, image is uniform {v}, lambda {lam:.4f}, partner {p}"
        else:
            if s[0] == "P":
                why = f"mixup flagged (use_cutmix false) but a box {s[2]} of sample {s[1]} was pasted; ctx lambda {lam:.4f}"
            else:
                e1, e2 = lam * own[0] + (1 - lam) * oth[0], lam * own[1] + (1 - lam) * oth[1]
                if abs(s[1] - e1) > 2e-3 or (s[2] is not None and abs(s[2] - e2) > 2e-3):
                    why = (f"image pixels ({s[1]:.4f}, {s[2]}) are not {lam:.4f}*x_{i} + {1 - lam:.4f}*x_{p} "
                           f"= ({e1:.4f}, {e2:.4f})")
        if why:
            return f"sample {i} (partner {p}, ctx lambda {lam:.4f}, use_cutmix {cut}): {why}"
        if "class" in case["tokens"]:
            row = obs["lab"][i]
            exp = [lam * a + (1 - lam) * c for a, c in zip(Y[i], Y[p])]
            if len(row) != len(exp) or not all(abs(a - e) <= 1e-5 for a, e in zip(row, exp)):
                return (f"sample {i}: label {row} is not {lam:.4f}*y_{i} + {1 - lam:.4f}*y_{p} = {exp} "
                        f"(input rows y_{i} = {Y[i]}, y_{p} = {Y[p]}; image uses partner {p} and weight {lam:.4f}"
                        + ("; 1e30 stands for a NaN/inf entry" if obs.get("lab_nonfinite") else "") + ")")
            if rows_prob and (abs(sum(row) - 1.0) > 1e-5 or min(row) < 0.0):
                return f"sample {i}: label row {row} is not a probability vector"
            if obs["lab_ndim"] != label_ndim(case):
                return "label tensor changed its number of dimensions"
    return None


# ---------------------------------------------------------------------------
# rendering for Coq
# ---------------------------------------------------------------------------
def q(x):
    f = Fraction(x)
    n, d = f.numerator, f.denominator
    return Raw(f"(({n}) # {d})" if n < 0 else f"({n} # {d})")


def tok(t):
    return {"x": Raw("TX"), "class": Raw("TClass"), "index": Raw("TIndex")}.get(t) or C("TOther", Nat(int(t[3:])))


def draw(d):
    k = d[0]
    if k == "unit":
        return C("DUnit", q(d[1]))
    if k == "units":
        return C("DUnits", [q(v) for v in d[1]])
    if k == "beta":
        return C("DBeta", q(d[1]), q(d[2]))
    if k == "betas":
        return C("DBetas", q(d[1]), [q(v) for v in d[2]])
    if k == "ints":
        return C("DInts", d[1], list(d[2]))
    return C("DPerm", [Nat(v) for v in d[1]])


def coq_applicable(case, obs):
    if "harness_exception" in obs or obs.get("trace") is None:
        return False
    if case.get("nonfinite"):
        return False       # images with NaN / inf pixels are judged pixel for pixel by the Python oracle only
    if obs["result"] == "ok":
        return obs["layout"] in ("tensor", "tuple")
    return obs["result"] in OUTCOME


def coq_case(case, obs):
    mode = {"batch": Raw("PerBatch"), "sample": Raw("PerSample")}
    m = modes_of(case, obs)
    _, h, w = eff_dims(case)
    mp, cp = m["mixup_p"] or 0.0, m["cutmix_p"] or 0.0
    cfg = Rec(
        bsz=Nat(case["B"]), img_h=h, img_w=w,
        mixup_p=q(mp), cutmix_p=q(cp), total_p=q(mp + cp),
        mixup_alpha=Opt(None if m["mixup_alpha"] is None else q(float(m["mixup_alpha"]))),
        cutmix_alpha=Opt(None if m["cutmix_alpha"] is None else q(float(m["cutmix_alpha"]))),
        apply_mode=mode[m["apply_mode"]], lamb_mode=mode[m["lamb_mode"]],
        shuf=Raw({"roll": "Roll", "flip": "Flip", "random": "Random"}[m["shuffle_mode"]]),
        tokens=[tok(t) for t in case["tokens"]],
        x_rank=Nat(XRANK[case.get("xrank", "chw")]),
        x_float=case.get("xdtype", "float32").startswith("float"),
        lab_ndim=Nat(label_ndim(case)),
        x_views=Nat(case.get("views") or 0),
    )
    halves = [(a, b) for a, b in obs["halves"]]
    tr = [draw(d) for d in obs["trace"]]
    Y = [[q(v) for v in row] for row in label_matrix(case)]
    ok = obs["result"] == "ok"
    if ok:
        batch_in = [C("IOther", [] if o in ("X", "Y") else list(o)) for o in obs["others_in"]]
        ctx_in = [(C("KUser", Nat(j)), C("VRaw", list(v))) for j, v in obs["ctx_in"]]
        imgs = []
        for i, s in enumerate(obs["img"]):
            if s[0] == "U":
                if s[2] is None:       # a single pixel has no odd position: nothing to compare there
                    p = expected_partner(case, obs, i) or 0
                    lam = obs["lambda"][0] if len(obs["lambda"]) == 1 else obs["lambda"][i]
                    s = [s[0], s[1], lam * i * i + (1 - lam) * p * p]
                imgs.append(C("OUniform", q(s[1]), q(s[2])))
            elif s[0] == "P":
                imgs.append(C("OPatch", Nat(s[1]), tuple(s[2])))
            else:
                imgs.append(Raw("OOther"))
        labs = Opt([[q(v) for v in row] for row in obs["lab"]]) if "lab" in obs else Raw("None")
        octx = []
        for e in obs["ctx_out"]:
            if e[0] == "u":
                octx.append((C("KUser", Nat(e[1])), C("VRaw", [v if isinstance(v, int) else -1 for v in e[2]])))
            elif e[0] == "apply":
                octx.append((Raw("KApply"), C("VBools", list(obs["apply"]))))
            elif e[0] == "use_cutmix":
                octx.append((Raw("KCutmix"), C("VBools", list(obs["cutmix"]))))
            elif e[0] == "lambda":
                octx.append((Raw("KLambda"), C("VLams", [q(v) for v in obs["lambda"]])))
            else:
                octx.append((C("KUser", Nat(999)), C("VRaw", [])))
        o = Rec(o_imgs=imgs, o_labs=labs, o_lab_ndim=Nat(obs.get("lab_ndim", 0)), o_apply=obs["apply"],
                o_cutmix=obs["cutmix"], o_lambda=[q(v) for v in obs["lambda"]],
                o_batch=[Raw("BX") if x == "X" else Raw("BY") if x == "Y" else C("BRaw", list(x)) for x in obs["others"]],
                o_ctx=octx, o_held=[q(v) for v in obs["held"]])
    else:
        batch_in = [C("IOther", []) for _ in case["tokens"]]
        ctx_in = []
        o = Rec(o_imgs=[], o_labs=Raw("None"), o_lab_ndim=Nat(0), o_apply=[], o_cutmix=[], o_lambda=[], o_batch=[],
                o_ctx=[], o_held=[])
    return coq((cfg, halves, tr, Y, batch_in, ctx_in, Nat(OUTCOME[obs["result"]]), o))


# ---------------------------------------------------------------------------
# cases
# ---------------------------------------------------------------------------
def gen_labels(rng, case, kinds):
    b = max(case["B"], (case.get("loader") or {}).get("full", 0))
    kind = rng.choice(kinds)
    case["ncls"] = 0
    if kind == "onehot_id":
        case["ncls"] = max(2, b + rng.choice([0, 0, 1, 3]))
        lab = [kind, list(range(b))]
    elif kind in ("onehot_rand", "onehot_long"):
        case["ncls"] = rng.randint(2, 6)
        lab = [kind, [rng.randrange(case["ncls"]) for _ in range(b)]]
    elif kind == "soft":
        n = case["ncls"] = rng.randint(2, 5)
        vals = []
        for _ in range(b):
            cuts = sorted(rng.randint(0, 16) for _ in range(n - 1))
            vals.append([y - x for x, y in zip([0] + cuts, cuts + [16])])
        lab = [kind, vals]
    elif kind == "multihot":
        n = case["ncls"] = rng.randint(2, 6)
        vals = []
        for _ in range(b):
            k = rng.choice([0, 0, 1, 2, 2, 3, n, rng.randint(0, n)])
            on = set(rng.sample(range(n), min(k, n)))
            vals.append([16 if j in on else 0 for j in range(n)])
        lab = [kind, vals]
    elif kind == "soft_unnorm":
        n = case["ncls"] = rng.randint(2, 5)
        lab = [kind, [[rng.choice([0, 0, rng.randint(0, 16), rng.randint(0, 48)]) for _ in range(n)] for _ in range(b)]]
    elif kind == "signed":
        n = case["ncls"] = rng.randint(2, 5)
        lab = [kind, [[rng.choice([0, 16, -16, rng.randint(-32, 32)]) for _ in range(n)] for _ in range(b)]]
    elif kind == "unlabeled":
        n = case["ncls"] = rng.randint(2, 6)
        vals = []
        for _ in range(b):
            if rng.random() < 0.5:
                vals.append([-16] * n)
            else:
                v = rng.randrange(n)
                vals.append([16 if j == v else 0 for j in range(n)])
        lab = [kind, vals]
    elif kind == "smooth":
        case["ncls"] = rng.choice([2, 3, 4, 5, 8, max(2, b)])
        vals = [rng.randrange(case["ncls"]) for _ in range(b)]
        if rng.random() < 0.35:          # semi-supervised: some samples are unlabeled (-1)
            vals = [-1 if rng.random() < 0.4 else v for v in vals]
        lab = [kind, vals, rng.choice([0.1, 0.125, 0.25, 0.5, 1.0, 0.3])]
    elif kind == "binary_smooth":
        lab = [kind, [rng.randint(0, 1) for _ in range(b)], rng.choice([0.1, 0.125, 0.25, 0.5, 1.0])]
    elif kind == "binary":
        lab = [kind, [rng.randint(0, 16) for _ in range(b)]]
    elif kind == "binary_out":
        vals = [rng.randint(0, 16) for _ in range(b)]
        vals[rng.randrange(case["B"])] = rng.choice([17, -1, 32, 18])
        lab = [kind, vals]
    elif kind == "index":
        case["ncls"] = rng.randint(2, 6)
        lab = [kind, [rng.randrange(case["ncls"]) for _ in range(b)]]
    elif kind == "rank3":
        lab = [kind, [rng.randint(0, 1) for _ in range(b)]]
    else:
        lab = ["binary_int", [rng.randint(0, 1) for _ in range(b)]]
    case["labels"] = lab


LABEL_KINDS = (["onehot_id"] * 7 + ["onehot_rand", "onehot_rand", "onehot_long", "soft", "soft", "smooth", "smooth",
               "binary", "binary", "binary_int", "binary_smooth", "index", "binary_out", "rank3",
               "multihot", "multihot", "multihot", "soft_unnorm", "soft_unnorm", "signed", "unlabeled", "unlabeled"])


def gen_case(rng, big=False, tier="quick"):
    shuffle_mode = rng.choice(["roll", "flip", "random"])
    b = rng.randint(1, 9)
    if shuffle_mode == "flip" and b % 2 == 1 and rng.random() < 0.85:
        b += 1
    hi = 17 if big else 9
    mp, cp = rng.choice(PROBS)
    assert mp + cp == 1.0
    case = {
        "B": b, "C": rng.randint(1, 3), "H": rng.randint(4, hi), "W": rng.randint(4, hi),
        "mixup_p": mp if (mp > 0 or rng.random() < 0.5) else None,
        "cutmix_p": cp if (cp > 0 or rng.random() < 0.5) else None,
        "mixup_alpha": rng.choice(ALPHAS) if mp > 0 else None,
        "cutmix_alpha": rng.choice(ALPHAS) if cp > 0 else None,
        "apply_mode": rng.choice(["batch", "sample"]),
        "lamb_mode": rng.choice(["batch", "sample", "sample"]),
        "shuffle_mode": shuffle_mode,
        "rng": [rng.choice(["numpy", "numpy", "script"]), rng.randrange(10 ** 6)],
    }
    if big and rng.random() < 0.15:
        case["H"], case["W"] = rng.randint(18, 40), rng.randint(18, 40)
        case["C"] = 1
    toks = ["x"]
    if rng.random() < 0.9:
        toks.append("class")
    if rng.random() < 0.4:
        toks.append("index")
    for k in range(rng.choice([0, 0, 0, 1, 2, 3])):
        toks.append(f"aux{k}")
    rng.shuffle(toks)
    case["tokens"] = toks
    aux = [t for t in toks if t.startswith("aux")]
    if aux and rng.random() < 0.7:
        case["auxdt"] = {t: rng.choice(AUX_KINDS) for t in aux}
    # pipeline
    r = rng.random()
    if r < 0.4:
        case["pipe"] = "direct"
    elif r < 0.65:
        case["pipe"] = "compose"
    elif r < 0.85:
        case["pipe"] = "single_wrapper"
    else:
        # the shipped configuration: x class, no ctx returned, batch / batch / flip, 0.5 / 0.5, alphas 0.8 / 1.0
        case["pipe"] = "mae"
        case.update(MAE_CFG)
        if b % 2 == 1 and b > 1 and rng.random() < 0.85:
            case["B"] = b = b + 1
        case["tokens"] = ["x", "class"]
        case.pop("auxdt", None)
    if case["pipe"] != "mae":
        case["rc"] = rng.random() < 0.8
        if case["rc"] and rng.random() < 0.6:
            case["ctxitems"] = [rng.choice(CTX_KINDS) for _ in range(rng.randint(1, 3))]
    # through a DataLoader
    r = rng.random()
    if r < 0.25:
        full = max(b, rng.randint(1, 9))
        if case["shuffle_mode"] == "flip" and full % 2 == 1:
            full += 1
        k = rng.choice([0, 1, 1, 2]) if full > b else rng.choice([0, 0, 1])
        workers = 2 if (tier == "thorough" and rng.random() < 0.25) else 0
        case["loader"] = {"full": full, "k": k, "workers": workers}
        if rng.random() < 0.5:
            # the collator object has already served 1-2 epochs, possibly with another batch size
            case["loader"]["epochs"] = rng.randint(2, 3)
            if rng.random() < 0.6:
                case["loader"]["prev_full"] = rng.randint(1, 9)
        if workers:
            case["rng"][0] = "worker"
    gen_labels(rng, case, LABEL_KINDS)
    # image dtype / rank outside the usual
    r = rng.random()
    if r < 0.08:
        case["xdtype"] = "float64"
    elif r < 0.14:
        case["xdtype"] = rng.choice(["uint8", "int64"])
        if case["xdtype"] == "uint8":
            case["C"] = min(case["C"], 2)
    r = rng.random()
    if r < 0.10:
        case["xrank"] = rng.choice(["hw", "hw", "d", "b", "cthw"])
    if rng.random() < 0.04:
        case["views"] = rng.choice([2, 2, 3])       # multi-view samples: x is a list of view tensors
        if rng.random() < 0.4 and case.get("pipe") != "mae":
            case["tokens"] = ["x"]
            case.pop("auxdt", None)
    if rng.random() < 0.02:
        case["tokens"] = [t for t in case["tokens"] if t != "x"] or ["class"]
        if case.get("pipe") == "mae":
            case["pipe"] = "compose"
    if (case.get("xdtype", "float32").startswith("float") and case.get("xrank", "chw") == "chw" and not case.get("views")
            and "x" in case["tokens"] and case["H"] <= 17 and case["W"] <= 17 and rng.random() < 0.15):
        # float images with a few non-finite pixels each (invalid-measurement markers, -inf padding): 0-3 per image, anywhere
        full = layout(case)[0]
        marks = []
        for k in range(full):
            for _ in range(rng.choice([0, 1, 2, 2, 3])):
                marks.append([k, rng.randrange(case["C"]), rng.randrange(case["H"]), rng.randrange(case["W"]),
                              rng.choice(["inf", "inf", "-inf", "nan"])])
        if marks:
            case["nonfinite"] = marks
    return case


def gen_cases(rng, tier):
    n = 900 if tier == "quick" else 7000
    out = [gen_case(rng, tier=tier) for _ in range(n)]
    out += [gen_case(rng, big=True, tier=tier) for _ in range(100 if tier == "quick" else 1500)]
    return out


def search_cases(rng, tier):
    for _ in range(30000):
        yield gen_case(rng, big=rng.random() < 0.3)


def shrink(case):
    marks = case.get("nonfinite")
    if not marks:
        yield from _shrink0(case)
        return
    for c in _shrink0(case):
        if not c.get("xdtype", "float32").startswith("float") or c.get("xrank", "chw") != "chw":
            continue
        full = layout(c)[0]
        ms = [m for m in marks if m[0] < full and m[1] < c["C"] and m[2] < c["H"] and m[3] < c["W"]]
        c = dict(c)
        c.pop("nonfinite", None)
        if ms:
            c["nonfinite"] = ms
        yield c
    for j in range(len(marks)):
        yield dict(case, nonfinite=marks[:j] + marks[j + 1:])


def _shrink0(case):
    b = case["B"]
    lab = case["labels"]
    kind, vals = lab[0], lab[1]
    if case.get("loader") and case["loader"].get("epochs", 1) > 1:
        ld = {a: b_ for a, b_ in case["loader"].items() if a not in ("epochs", "prev_full")}
        yield dict(case, loader=ld)
        if case["loader"].get("prev_full"):
            yield dict(case, loader={a: b_ for a, b_ in case["loader"].items() if a != "prev_full"})
    for key in ("loader", "ctxitems", "auxdt", "xdtype", "xrank", "views"):
        if case.get(key):
            c = dict(case)
            c.pop(key)
            if key == "loader" and c["rng"][0] == "worker":
                c["rng"] = ["numpy", c["rng"][1]]
            yield c
    if case.get("pipe", "direct") not in ("direct", "mae"):
        yield dict(case, pipe="direct")
    step = 2 if case["shuffle_mode"] == "flip" else 1
    if b - step >= 1 and not case.get("loader"):
        c = dict(case, B=b - step, labels=[kind, vals[:b - step]] + lab[2:])
        yield c
    for k in ("H", "W"):
        if case[k] > 4:
            yield dict(case, **{k: case[k] - 1})
            yield dict(case, **{k: 4})
    if case["C"] > 1:
        yield dict(case, C=1)
    if case.get("pipe") != "mae":
        for t in case["tokens"]:
            if t not in ("x", "class"):
                yield dict(case, tokens=[u for u in case["tokens"] if u != t])
        if case["apply_mode"] != "batch":
            yield dict(case, apply_mode="batch")
    if case["rng"][1] > 20 and case["rng"][0] != "worker":
        for s in range(5):
            yield dict(case, rng=[case["rng"][0], s])


def features(case, obs):
    yield "B=%d" % case["B"]
    yield "shuffle=" + case["shuffle_mode"]
    yield "lamb_mode=" + case["lamb_mode"]
    yield "apply_mode=" + case["apply_mode"]
    yield "p=%s/%s" % (case["mixup_p"], case["cutmix_p"])
    yield "labels=" + case["labels"][0]
    yield "rng=" + case["rng"][0]
    yield "pipe=" + case.get("pipe", "direct")
    yield "return_ctx=%s" % (False if case.get("pipe") == "mae" else case.get("rc", True))
    if case.get("loader"):
        yield "loader workers=%d%s" % (case["loader"]["workers"], " trailing batch" if case["loader"]["full"] > case["B"] else "")
        if obs.get("prev_epochs"):
            sizes = sorted({n for ep in obs["prev_epochs"] for n, _ in ep})
            yield "loader: collator reused after %d epoch(s)%s" % (
                len(obs["prev_epochs"]), ", earlier batch sizes differ from the checked one" if sizes != [case["B"]] else "")
        if obs.get("worker_first_traces_differ") is not None:
            yield "worker streams differ=%s" % obs["worker_first_traces_differ"]
    yield "xdtype=" + case.get("xdtype", "float32")
    yield "xrank=" + case.get("xrank", "chw")
    if case.get("views"):
        yield "multi-view x (%d views)%s" % (case["views"], ", single-item mode" if case["tokens"] == ["x"] else "")
    for kind in case.get("ctxitems") or []:
        yield "ctx entry " + kind
    for t, kind in (case.get("auxdt") or {}).items():
        yield "aux item " + kind
    yield "tokens=%d%s" % (len(case["tokens"]), "" if "class" in case["tokens"] else " (no class)")
    yield "result=" + obs.get("result", "harness_exception")[:30]
    for s in obs.get("img", []):
        yield "img=" + s[0]
    if case.get("nonfinite"):
        yield "non-finite pixels: " + ",".join(sorted({m[4] for m in case["nonfinite"]}))
        if obs.get("cutmix") is not None and obs.get("result") == "ok":
            yield "non-finite pixels under " + "+".join(sorted({"cutmix" if c else "mixup" for c in obs["cutmix"]})) \
                  + " lamb_mode=" + modes_of(case, obs)["lamb_mode"]
    if obs.get("cutmix") and len(set(obs["cutmix"])) == 2:
        yield "mixed mixup+cutmix in one batch"
    for d in obs.get("trace") or []:
        if d[0] in ("beta", "betas"):
            vals = [d[2]] if d[0] == "beta" else d[2]
            if any(v in (0.0, 1.0) for v in vals):
                yield "lambda draw exactly 0 or 1"
    if obs.get("held") and obs.get("result") == "ok":
        _, h, w = eff_dims(case)
        tol = Fraction(1, 10000) if modes_of(case, obs)["lamb_mode"] == "batch" else Fraction(1, 1000000)
        for lam, (hh, wh) in zip(obs["held"], obs["halves"]):
            if 0 <= lam <= 1:
                if len(halves_allowed(lam, h, tol)) > 1 or len(halves_allowed(lam, w, tol)) > 1:
                    yield "half size within tolerance of a floor jump"
                if hh != half_exact(lam, h) or wh != half_exact(lam, w):
                    yield "float half size differs from the exact one (inside the band)"


def nontrivial_key(case, obs):
    if obs.get("result") != "ok" or case["B"] < 2:
        return None
    return (case["B"], case["H"], case["W"], case["apply_mode"], case["lamb_mode"], case["shuffle_mode"],
            case["mixup_p"], case["cutmix_p"], tuple(case["tokens"]), case["labels"][0], case.get("pipe", "direct"),
            case.get("xdtype", "float32"), case.get("xrank", "chw"), tuple(obs.get("cutmix", [])))
