(* C10 -- proofs *)
From Coq Require Import ZArith QArith Qabs Qround List Bool Lia Lqa Permutation Arith.
Import ListNotations.
From KD Require Import C10.Model C10.Spec.
Open Scope Z_scope.

(* ====================================================================== *)
(* counting pixels                                                        *)
(* ====================================================================== *)
Lemma count_range (a b : Z) (n : nat) : 0 <= a ->
  Z.of_nat (length (filter (fun r => (a <=? r) && (r <? b)) (map Z.of_nat (seq 0 n))))
  = Z.max 0 (Z.min b (Z.of_nat n) - a).
Proof.
  intros Ha. induction n.
  - simpl. lia.
  - rewrite seq_S, map_app, filter_app, app_length, Nat2Z.inj_add, IHn.
    simpl (0 + n)%nat. simpl map. simpl filter.
    destruct (a <=? Z.of_nat n) eqn:E1; destruct (Z.of_nat n <? b) eqn:E2; simpl length; lia.
Qed.

Lemma filter_pair_length {A B} (f : A -> bool) (g : B -> bool) (a : A) (lb : list B) :
  length (filter (fun p => f (fst p) && g (snd p)) (map (pair a) lb))
  = if f a then length (filter g lb) else 0%nat.
Proof.
  induction lb as [|y lb IH]; simpl.
  - destruct (f a); reflexivity.
  - destruct (f a) eqn:Ef; simpl in *.
    + destruct (g y); simpl; rewrite IH; reflexivity.
    + exact IH.
Qed.

Lemma filter_prod_length {A B} (f : A -> bool) (g : B -> bool) (la : list A) (lb : list B) :
  length (filter (fun p => f (fst p) && g (snd p)) (list_prod la lb))
  = (length (filter f la) * length (filter g lb))%nat.
Proof.
  induction la as [|x la IH]; simpl; [reflexivity|].
  rewrite filter_app, app_length, filter_pair_length, IH.
  destruct (f x); simpl; lia.
Qed.

Lemma filter_box_length t l bo r (la lb : list Z) :
  length (filter (in_box (t, l, bo, r)) (list_prod la lb))
  = Nat.mul (length (filter (fun x => (t <=? x) && (x <? bo)) la)) (length (filter (fun y => (l <=? y) && (y <? r)) lb)).
Proof.
  rewrite <- filter_prod_length. f_equal. apply filter_ext. intros [row col]. simpl. rewrite !andb_assoc. reflexivity.
Qed.

Lemma length_zrange n : 0 <= n -> Z.of_nat (length (zrange n)) = n.
Proof. intros. unfold zrange. rewrite map_length, seq_length. lia. Qed.

Lemma total_pixels_eq h w : 0 <= h -> 0 <= w -> total_pixels h w = h * w.
Proof.
  intros. unfold total_pixels, pixels. rewrite prod_length, Nat2Z.inj_mul, !length_zrange by lia. reflexivity.
Qed.

Lemma pasted_pixels_eq h w b : 0 <= h -> 0 <= w -> box_in_bounds h w b -> pasted_pixels h w b = box_area b.
Proof.
  intros Hh Hw. destruct b as [[[t l] bo] r]. simpl. intros (Ht & Hbo & Hl & Hr).
  unfold pasted_pixels, pixels.
  rewrite (filter_box_length t l bo r), Nat2Z.inj_mul. unfold zrange.
  rewrite !count_range by lia. rewrite !Z2Nat.id by lia.
  replace (Z.min bo h) with bo by lia. replace (Z.min r w) with r by lia. rewrite !Z.max_r by lia. reflexivity.
Qed.

(* lamb_adjusted (the code's expression) is the fraction of pixels that keep sample i's value *)
Lemma lambda_adjusted_is_area_fraction_l h w p b :
  0 < h -> 0 < w -> box_in_bounds h w b ->
  (lamb_adjusted h w b == retained_fraction h w (Cut p b))%Q.
Proof.
  intros Hh Hw Hb. unfold lamb_adjusted, retained_fraction.
  rewrite total_pixels_eq, pasted_pixels_eq by (auto; lia).
  assert (Hne : ~ (inject_Z (h * w) == 0)%Q).
  { unfold Qeq, inject_Z; simpl. nia. }
  unfold Zminus. rewrite inject_Z_plus, inject_Z_opp. field. exact Hne.
Qed.

Lemma lamb_adjusted_range h w b : 0 < h -> 0 < w -> box_in_bounds h w b ->
  (0 <= lamb_adjusted h w b)%Q /\ (lamb_adjusted h w b <= 1)%Q.
Proof.
  intros Hh Hw Hb. destruct b as [[[t l] bo] r]. simpl in Hb. destruct Hb as (Ht & Hbo & Hl & Hr).
  unfold lamb_adjusted, box_area.
  assert (Ha : 0 <= (bo - t) * (r - l) <= h * w) by nia.
  assert (Hp : 0 < h * w) by nia.
  set (a := (bo - t) * (r - l)) in *. set (m := h * w) in *.
  assert (Hm : (inject_Z 0 < inject_Z m)%Q) by (rewrite <- Zlt_Qlt; exact Hp).
  change (inject_Z 0) with 0%Q in Hm.
  assert (H0 : (0 <= inject_Z a / inject_Z m)%Q).
  { apply Qle_shift_div_l; [exact Hm|]. rewrite Qmult_0_l. change 0%Q with (inject_Z 0). rewrite <- Zle_Qle. lia. }
  assert (H1 : (inject_Z a / inject_Z m <= 1)%Q).
  { apply Qle_shift_div_r; [exact Hm|]. rewrite Qmult_1_l. rewrite <- Zle_Qle. lia. }
  split; lra.
Qed.

(* ====================================================================== *)
(* clamping                                                               *)
(* ====================================================================== *)
Lemma clamp_in_bounds h w ch cw hf :
  0 <= ch < h -> 0 <= cw < w -> 0 <= fst hf -> 0 <= snd hf -> box_in_bounds h w (clamp_box h w ch cw hf).
Proof. destruct hf as [hh wh]. simpl. intros. lia. Qed.

(* ====================================================================== *)
(* shuffle                                                                *)
(* ====================================================================== *)
Lemma bind_inv {A B} (m : M A) (f : A -> M B) tr b tr' :
  bind m f tr = Ok (b, tr') -> exists a tr1, m tr = Ok (a, tr1) /\ f a tr1 = Ok (b, tr').
Proof. unfold bind. destruct (m tr) as [[a tr1]|]; [|discriminate]. intros. eauto. Qed.

Lemma shuffle_twice m it tr r1 pm tr1 tr2 r2 pm2 tr3 :
  shuffle m it None tr = Ok ((r1, pm), tr1) ->
  shuffle m it pm tr2 = Ok ((r2, pm2), tr3) -> r2 = r1 /\ tr3 = tr2.
Proof.
  unfold shuffle. destruct (Nat.eqb (length it) 1).
  - unfold ret. intros H1 H2. inversion H1; subst. inversion H2; subst. auto.
  - destruct m.
    + unfold ret. intros H1 H2. inversion H1; subst. inversion H2; subst. auto.
    + destruct (Nat.even (length it)); unfold ret, fail; intros H1 H2; [|discriminate].
      inversion H1; subst. inversion H2; subst. auto.
    + intros H1. apply bind_inv in H1. destruct H1 as (p & t & Hp & H1). unfold ret in H1. inversion H1; subst.
      intros H2. inversion H2; subst. auto.
Qed.

(* the suffix relation on traces: draws consumed in order *)
Definition suffix (a b : trace) : Prop := exists pre, b = pre ++ a.
Lemma suffix_refl a : suffix a a. Proof. exists []. reflexivity. Qed.
Lemma suffix_trans a b c : suffix a b -> suffix b c -> suffix a c.
Proof. intros [p ->] [q ->]. exists (q ++ p). rewrite app_assoc. reflexivity. Qed.
Lemma suffix_cons d a : suffix a (d :: a). Proof. exists [d]. reflexivity. Qed.
Lemma suffix_ok a b : suffix a b -> trace_ok b -> trace_ok a.
Proof. intros [p ->] H. apply Forall_app in H. tauto. Qed.
Lemma suffix_in a b d : suffix a b -> In d a -> In d b.
Proof. intros [p ->] H. apply in_or_app. auto. Qed.

Lemma next_unit_inv tr u tr' : next_unit tr = Ok (u, tr') -> tr = DUnit u :: tr'.
Proof. destruct tr as [|[] ?]; simpl; try discriminate. intros H; inversion H; subst; auto. Qed.
Lemma next_units_inv n tr u tr' : next_units n tr = Ok (u, tr') -> tr = DUnits u :: tr' /\ length u = n.
Proof. destruct tr as [|[] ?]; simpl; try discriminate. destruct (Nat.eqb (length us) n) eqn:E; [|discriminate].
  intros H; inversion H; subst. apply Nat.eqb_eq in E. auto. Qed.
Lemma next_beta_inv a tr u tr' : next_beta a tr = Ok (u, tr') -> exists a', tr = DBeta a' u :: tr'.
Proof. destruct tr as [|[] ?]; simpl; try discriminate. destruct (Qeqb a a0); [|discriminate].
  intros H; inversion H; subst. eauto. Qed.
Lemma next_betas_inv a n tr u tr' : next_betas a n tr = Ok (u, tr') -> exists a', tr = DBetas a' u :: tr' /\ length u = n.
Proof. destruct tr as [|[] ?]; simpl; try discriminate. destruct (Qeqb a a0 && Nat.eqb (length xs) n) eqn:E; [|discriminate].
  intros H; inversion H; subst. apply andb_true_iff in E. destruct E as [_ E]. apply Nat.eqb_eq in E. eauto. Qed.
Lemma next_ints_inv hi n tr u tr' : next_ints hi n tr = Ok (u, tr') -> tr = DInts hi u :: tr' /\ length u = n.
Proof. destruct tr as [|[] ?]; simpl; try discriminate. destruct ((hi =? hi0) && Nat.eqb (length xs) n) eqn:E; [|discriminate].
  intros H; inversion H; subst. apply andb_true_iff in E. destruct E as [E1 E]. apply Nat.eqb_eq in E. apply Z.eqb_eq in E1. subst. auto. Qed.
Lemma next_perm_inv n tr u tr' : next_perm n tr = Ok (u, tr') -> tr = DPerm u :: tr' /\ length u = n.
Proof. destruct tr as [|[] ?]; simpl; try discriminate. destruct (Nat.eqb (length p) n) eqn:E; [|discriminate].
  intros H; inversion H; subst. apply Nat.eqb_eq in E. auto. Qed.

Lemma shuffle_suffix m it pm tr r pm' tr' : shuffle m it pm tr = Ok ((r, pm'), tr') -> suffix tr' tr.
Proof.
  unfold shuffle. destruct (Nat.eqb (length it) 1).
  - unfold ret. intros H; inversion H; subst. apply suffix_refl.
  - destruct m; unfold ret.
    + intros H; inversion H; subst. apply suffix_refl.
    + destruct (Nat.even (length it)); [|discriminate]. intros H; inversion H; subst. apply suffix_refl.
    + destruct pm.
      * intros H; inversion H; subst. apply suffix_refl.
      * intros H. apply bind_inv in H. destruct H as (p & t & Hp & H). inversion H; subst.
        apply next_perm_inv in Hp. destruct Hp as [-> _]. apply suffix_cons.
Qed.

(* ---- the partner list the shuffle produces on arange(n) ---- *)
Lemma nth_rev_seq n i : (i < n)%nat -> nth i (rev (seq 0 n)) 0%nat = (n - 1 - i)%nat.
Proof.
  intros Hi. rewrite rev_nth by (rewrite seq_length; lia). rewrite seq_length.
  rewrite seq_nth by lia. lia.
Qed.

Lemma roll1_seq n i : (i < n)%nat -> nth i (roll1 (seq 0 n)) 0%nat = ((i + n - 1) mod n)%nat.
Proof.
  intros Hi. destruct n as [|n]; [lia|].
  assert (E : roll1 (seq 0 (S n)) = n :: seq 0 n).
  { unfold roll1. rewrite seq_S, rev_app_distr. simpl. rewrite rev_involutive. reflexivity. }
  rewrite E. clear E.
  destruct i as [|i].
  - simpl nth. replace (0 + S n - 1)%nat with n by lia. rewrite Nat.mod_small by lia. reflexivity.
  - simpl nth. rewrite seq_nth by lia.
    replace (S i + S n - 1)%nat with (i + 1 * S n)%nat by lia.
    rewrite Nat.mod_add by lia. rewrite Nat.mod_small by lia. reflexivity.
Qed.

Lemma perm_lt p n k : Permutation p (seq 0 n) -> In k p -> (k < n)%nat.
Proof. intros HP Hk. apply (Permutation_in _ HP) in Hk. apply in_seq in Hk. lia. Qed.

Lemma index_by_seq n p i : Permutation p (seq 0 n) -> (i < length p)%nat ->
  nth i (index_by (seq 0 n) p) 0%nat = nth i p 0%nat.
Proof.
  intros HP Hi. unfold index_by.
  rewrite (nth_indep _ 0%nat (nth 0%nat (seq 0 n) 0%nat)) by (rewrite map_length; exact Hi).
  rewrite (map_nth (fun k => nth k (seq 0 n) 0%nat) p 0%nat i).
  assert (nth i p 0 < n)%nat by (eapply perm_lt; eauto; apply nth_In; exact Hi).
  rewrite seq_nth by lia. reflexivity.
Qed.

(* partner list of a successful first shuffle of arange(n) *)
Lemma shuffle_partners m n tr r pm tr' :
  shuffle m (seq 0 n) None tr = Ok ((r, pm), tr') -> trace_ok tr ->
  exists perm, (m = Random -> n <> 1%nat -> In (DPerm perm) tr /\ Permutation perm (seq 0 n)) /\
    length r = n /\ forall i, (i < n)%nat -> nth i r 0%nat = mode_partner m n perm i.
Proof.
  unfold shuffle, mode_partner. rewrite seq_length. destruct (Nat.eqb n 1) eqn:En.
  - unfold ret. intros H _; inversion H; subst. apply Nat.eqb_eq in En. subst n. exists []. split; [congruence|].
    split; [reflexivity|]. intros i Hi. assert (i = 0)%nat by lia. subst. reflexivity.
  - apply Nat.eqb_neq in En. destruct m; unfold ret.
    + intros H _; inversion H; subst. exists []. split; [congruence|]. split.
      * unfold roll1. destruct (rev (seq 0 n)) eqn:E.
        -- apply (f_equal (@length nat)) in E. rewrite rev_length, seq_length in E. simpl in *. lia.
        -- simpl. rewrite rev_length. apply (f_equal (@length nat)) in E. rewrite rev_length, seq_length in E. simpl in E. lia.
      * intros. apply roll1_seq; auto.
    + destruct (Nat.even n); [|discriminate]. intros H _; inversion H; subst. exists []. split; [congruence|].
      split; [rewrite rev_length, seq_length; reflexivity|]. intros. apply nth_rev_seq; auto.
    + intros H Hok. apply bind_inv in H. destruct H as (p & t & Hp & H). inversion H; subst.
      apply next_perm_inv in Hp. destruct Hp as [-> Hl]. exists p.
      assert (HP : Permutation p (seq 0 n)).
      { inversion Hok as [|? ? Hd Hrest]. simpl in Hd. rewrite Hl in Hd. exact Hd. }
      split; [intros; split; [left; reflexivity| exact HP]|].
      split; [unfold index_by; rewrite map_length; exact Hl|].
      intros. apply index_by_seq; auto. lia.
Qed.

Lemma roll1_length l : length (roll1 l) = length l.
Proof.
  unfold roll1. destruct (rev l) eqn:E; apply (f_equal (@length nat)) in E; rewrite rev_length in E; simpl in *.
  - lia.
  - rewrite rev_length. lia.
Qed.

Lemma shuffle_len m n tr r pm tr' :
  shuffle m (seq 0 n) None tr = Ok ((r, pm), tr') -> length r = n.
Proof.
  unfold shuffle. rewrite seq_length. destruct (Nat.eqb n 1).
  - unfold ret. intros H; inversion H; subst. apply seq_length.
  - destruct m; unfold ret.
    + intros H; inversion H; subst. rewrite roll1_length. apply seq_length.
    + destruct (Nat.even n); [|discriminate]. intros H; inversion H; subst. rewrite rev_length. apply seq_length.
    + intros H. apply bind_inv in H. destruct H as (p & t & Hp & H). inversion H; subst.
      apply next_perm_inv in Hp. destruct Hp as [_ Hl]. unfold index_by. rewrite map_length. exact Hl.
Qed.

(* ====================================================================== *)
(* list helpers                                                           *)
(* ====================================================================== *)
Lemma nth_map_seq {A} (f : nat -> A) n i d : (i < n)%nat -> nth i (map f (seq 0 n)) d = f i.
Proof.
  intros Hi. rewrite (nth_indep _ d (f 0%nat)) by (rewrite map_length, seq_length; exact Hi).
  rewrite map_nth. rewrite seq_nth by exact Hi. reflexivity.
Qed.

Lemma nth_map_d {A B} (f : A -> B) l i d d' : (i < length l)%nat -> nth i (map f l) d' = f (nth i l d).
Proof.
  intros Hi. rewrite (nth_indep _ d' (f d)) by (rewrite map_length; exact Hi). apply map_nth.
Qed.

Lemma where3_length c a b n : length c = n -> length a = n -> length b = n -> length (where3 c a b) = n.
Proof.
  revert a b n. induction c as [|x c IH]; intros a b n Hc Ha Hb; simpl in *.
  - auto.
  - destruct a; [simpl in *; lia|]. destruct b; [simpl in *; lia|]. simpl in *.
    destruct n; [lia|]. f_equal. apply IH; lia.
Qed.

Lemma where3_nth c a b n i : length c = n -> length a = n -> length b = n -> (i < n)%nat ->
  nth i (where3 c a b) None = if nth i c false then nth i a None else nth i b None.
Proof.
  revert a b n i. induction c as [|x c IH]; intros a b n i Hc Ha Hb Hi; simpl in *.
  - lia.
  - destruct a; [simpl in *; lia|]. destruct b; [simpl in *; lia|]. simpl in *.
    destruct n; [lia|]. destruct i; [reflexivity|]. apply (IH a b n); lia.
Qed.

Lemma sequence_length {A} (l : list (option A)) l' : sequence l = Some l' -> length l' = length l.
Proof.
  revert l'. induction l as [|[x|] l IH]; simpl; intros l' H.
  - inversion H; reflexivity.
  - destruct (sequence l); [|discriminate]. simpl in H. inversion H; subst. simpl. f_equal. auto.
  - discriminate.
Qed.

Lemma sequence_nth {A} (l : list (option A)) l' i d : sequence l = Some l' -> (i < length l)%nat ->
  nth i l None = Some (nth i l' d).
Proof.
  revert l' i. induction l as [|[x|] l IH]; simpl; intros l' i H Hi.
  - lia.
  - destruct (sequence l) eqn:E; [|discriminate]. simpl in H. inversion H; subst.
    destruct i; [reflexivity|]. simpl. apply IH; auto. lia.
  - discriminate.
Qed.

Lemma nth_repeat_none {A} n i : nth i (repeat (@None A) n) None = None.
Proof. revert i. induction n; destruct i; simpl; auto. Qed.

(* ====================================================================== *)
(* get_random_bbox                                                        *)
(* ====================================================================== *)
Lemma zip3_boxes h w chs cws hv n :
  length chs = n -> length cws = n -> length hv = n ->
  length (zip3 chs cws hv) = n /\
  (Forall (fun x => 0 <= x < h) chs -> Forall (fun x => 0 <= x < w) cws -> halves_ok hv ->
   Forall (box_in_bounds h w) (map (fun '(ch, cw, hf) => clamp_box h w ch cw hf) (zip3 chs cws hv))).
Proof.
  revert cws hv n. induction chs as [|a chs IH]; intros cws hv n H1 H2 H3.
  - simpl. split; [auto|]. intros. constructor.
  - destruct cws as [|b cws]; [simpl in *; lia|]. destruct hv as [|hf hv]; [simpl in *; lia|].
    destruct n; [simpl in *; lia|]. simpl in *.
    destruct (IH cws hv n) as [L F]; try lia. split; [lia|].
    intros Fa Fb Fc. inversion Fa; subst. inversion Fb; subst. inversion Fc; subst.
    constructor; [|apply F; auto].
    destruct hf as [hh wh]. apply clamp_in_bounds; simpl; tauto.
Qed.

Lemma get_random_bbox_inv h w n hv tr bb ls tr' :
  get_random_bbox h w n hv tr = Ok ((bb, ls), tr') ->
  length bb = n /\ ls = map (lamb_adjusted h w) bb /\ suffix tr' tr /\
  (trace_ok tr -> halves_ok hv -> Forall (box_in_bounds h w) bb).
Proof.
  unfold get_random_bbox. intros H.
  apply bind_inv in H. destruct H as (chs & t1 & H1 & H).
  apply bind_inv in H. destruct H as (cws & t2 & H2 & H).
  apply next_ints_inv in H1. destruct H1 as [-> L1]. apply next_ints_inv in H2. destruct H2 as [-> L2].
  destruct (Nat.eqb (length hv) n) eqn:E; simpl in H; [|discriminate].
  apply Nat.eqb_eq in E. unfold ret in H. inversion H; subst bb ls tr'. clear H.
  destruct (zip3_boxes h w chs cws hv n L1 L2 E) as [L F].
  split; [rewrite map_length; exact L|]. split; [reflexivity|].
  split; [eapply suffix_trans; apply suffix_cons|].
  intros Hok Hh. inversion Hok as [|? ? Ha Hok']. inversion Hok' as [|? ? Hb _]. subst. apply F; auto.
Qed.

(* ====================================================================== *)
(* what a successful collate looks like, per sample                       *)
(* ====================================================================== *)
Definition view (c : cfg) (hv : list (Z * Z)) (tr : trace) (r : result)
           (partners : list nat) (cut : nat -> bool) (lam : nat -> Q) (bx : nat -> box) : Prop :=
  let n := bsz c in
  length partners = n /\
  (exists trA pm trB, shuffle (shuf c) (seq 0 n) None trA = Ok ((partners, pm), trB) /\ suffix trA tr) /\
  forall i, (i < n)%nat ->
    nth i (imgs r) Keep = (if cut i then Cut (nth i partners 0%nat) (bx i) else Mix (nth i partners 0%nat) (lam i)) /\
    lam_of r i = lam i /\
    (forall ls, labs r = Some ls -> nth i ls (0%nat, 0%Q) = (nth i partners 0%nat, lam i)) /\
    (cut i = true -> lam i = lamb_adjusted (img_h c) (img_w c) (bx i) /\
                     (trace_ok tr -> halves_ok hv -> box_in_bounds (img_h c) (img_w c) (bx i))) /\
    (cut i = false -> trace_ok tr -> beta_ok (lam i)).

Ltac bi H a t H1 := apply bind_inv in H; destruct H as (a & t & H1 & H).

Lemma apply_suffix c tr ap t0 :
  match apply_mode c with
  | PerBatch => u <- next_unit;; ret (repeat (Qltb u (total_p c)) (bsz c))
  | PerSample => us <- next_units (bsz c);; ret (map (fun u : Q => Qltb u (total_p c)) us)
  end tr = Ok (ap, t0) -> suffix t0 tr.
Proof.
  destruct (apply_mode c); intros H.
  - bi H u t Hu. inversion H; subst. apply next_unit_inv in Hu. subst. apply suffix_cons.
  - bi H u t Hu. inversion H; subst. apply next_units_inv in Hu. destruct Hu as [-> _]. apply suffix_cons.
Qed.

Lemma labs_inv m n pm t5 ys t6 (x2 : list nat) trA trB (g : list nat -> list lab_desc) (has_y : bool) :
  shuffle m (seq 0 n) None trA = Ok ((x2, pm), trB) ->
  (if has_y then ' (y2, _) <- shuffle m (seq 0 n) pm;; ret (Some (g y2)) else ret None) t5 = Ok (ys, t6) ->
  (ys = None \/ ys = Some (g x2)) /\ t6 = t5.
Proof.
  intros Hs. destruct has_y; intros H.
  - bi H yp t Hy. destruct yp as [y2 pm2]. inversion H; subst.
    destruct (shuffle_twice _ _ _ _ _ _ _ _ _ _ Hs Hy) as [-> ->]. auto.
  - inversion H; subst. auto.
Qed.

Lemma unpack_hw_inv c tr u tr' : unpack_hw c tr = Ok (u, tr') -> tr' = tr /\ x_rank c = 3%nat.
Proof. unfold unpack_hw. destruct (Nat.eqb (x_rank c) 3) eqn:E; [|discriminate]. intro H; inversion H; subst.
  apply Nat.eqb_eq in E. auto. Qed.
Lemma mul_inplace_inv c tr u tr' : mul_inplace c tr = Ok (u, tr') -> tr' = tr /\ x_float c = true.
Proof. unfold mul_inplace. destruct (x_float c); [|discriminate]. intro H; inversion H; subst. auto. Qed.

Lemma collate_inv c hv tr r tr' :
  collate c hv tr = Ok (r, tr') ->
  exists partners cut lam bx, view c hv tr r partners cut lam bx.
Proof.
  unfold collate. destruct (negb (has_item (tokens c) TX)); [discriminate|].
  intros H. bi H ap t0 Hap. apply apply_suffix in Hap.
  destruct (lamb_mode c).
  - (* lamb_mode batch *)
    bi H u t1 Hu. apply next_unit_inv in Hu. subst t0.
    set (uc := Qltb (u * total_p c) (cutmix_p c)) in *.
    bi H alpha t2 Hal.
    assert (t2 = t1).
    { destruct (if uc then cutmix_alpha c else mixup_alpha c); simpl in Hal; inversion Hal; auto. }
    subst t2. clear Hal.
    bi H lamb t3 Hl. apply next_beta_inv in Hl. destruct Hl as [a' ->].
    bi H xp t4 Hsh. destruct xp as [x2 pm].
    bi H xl t5 Hx. destruct xl as [[xs lamb'] bl].
    bi H ys t6 Hy. inversion H; subst r tr'. clear H.
    pose proof (shuffle_len _ _ _ _ _ _ Hsh) as Lx.
    pose proof (shuffle_suffix _ _ _ _ _ _ _ Hsh) as S34.
    assert (S3 : suffix t3 tr).
    { eapply suffix_trans; [|exact Hap]. eapply suffix_trans; [|apply suffix_cons]. apply suffix_cons. }
    eapply labs_inv in Hy; [|exact Hsh]. destruct Hy as [Hys _].
    destruct uc eqn:Euc.
    + (* cutmix for the whole batch *)
      bi Hx u0 tu Hun. apply unpack_hw_inv in Hun. destruct Hun as [-> _].
      bi Hx bl0 t Hb. destruct bl0 as [bbox ll].
      destruct bbox as [|b0 bbox]; [discriminate|]. destruct ll as [|l0 ll]; [discriminate|].
      inversion Hx; subst xs lamb' bl t. clear Hx.
      apply get_random_bbox_inv in Hb. destruct Hb as (Lb & Hll & S45 & Fb).
      simpl in Hll. inversion Hll; subst l0.
      exists x2, (fun _ => true), (fun _ => lamb_adjusted (img_h c) (img_w c) b0), (fun _ => b0).
      split; [exact Lx|]. split; [exists t3, pm, t4; auto|].
      intros i Hi. simpl. split; [rewrite (nth_map_d _ _ _ 0%nat) by lia; reflexivity|]. split; [reflexivity|].
      split.
      { intros ls Hls. destruct Hys as [E|E]; rewrite E in Hls; inversion Hls; subst.
        rewrite (nth_map_d _ _ _ 0%nat) by lia. reflexivity. }
      split; [|discriminate]. intros _. split; [reflexivity|].
      intros Hok Hh. assert (Hok4 : trace_ok t4) by (eapply suffix_ok; [|exact Hok]; eapply suffix_trans; eauto).
      specialize (Fb Hok4 Hh). inversion Fb; auto.
    + (* mixup for the whole batch *)
      bi Hx u0 tu Hmul. apply mul_inplace_inv in Hmul. destruct Hmul as [-> _].
      inversion Hx; subst xs lamb' bl t5. clear Hx.
      exists x2, (fun _ => false), (fun _ => lamb), (fun _ => (0, 0, 0, 0)).
      split; [exact Lx|]. split; [exists t3, pm, t4; auto|].
      intros i Hi. simpl. split; [rewrite (nth_map_d _ _ _ 0%nat) by lia; reflexivity|]. split; [reflexivity|].
      split.
      { intros ls Hls. destruct Hys as [E|E]; rewrite E in Hls; inversion Hls; subst.
        rewrite (nth_map_d _ _ _ 0%nat) by lia. reflexivity. }
      split; [discriminate|]. intros _ Hok.
      assert (Hok1 : trace_ok (DBeta a' lamb :: t3)).
      { eapply suffix_ok; [|exact Hok]. eapply suffix_trans; [|exact Hap]. apply suffix_cons. }
      inversion Hok1; subst. assumption.
  - (* lamb_mode sample *)
    bi H us t1 Hu. apply next_units_inv in Hu. destruct Hu as [-> Lus].
    set (uc := map (fun u => Qltb (u * total_p c) (cutmix_p c)) us) in *.
    assert (Luc : length uc = bsz c) by (unfold uc; rewrite map_length; exact Lus).
    bi H ml t2 Hml.
    assert (Hm : length ml = bsz c /\ suffix t2 t1 /\
                 forall i, (i < bsz c)%nat -> forall x, nth i ml None = Some x -> trace_ok t1 -> beta_ok x).
    { destruct (Qltb 0 (mixup_p c)).
      - bi Hml a t Ha. bi Hml l t' Hb. inversion Hml; subst ml t'. clear Hml.
        assert (t = t1) by (destruct (mixup_alpha c); simpl in Ha; inversion Ha; auto). subst t.
        apply next_betas_inv in Hb. destruct Hb as (a' & -> & Ll).
        split; [rewrite map_length; exact Ll|]. split; [apply suffix_cons|].
        intros i Hi x Hx Hok. rewrite (nth_map_d _ _ _ 0%Q) in Hx by lia. inversion Hx; subst.
        inversion Hok as [|? ? Hd _]. simpl in Hd. eapply Forall_forall in Hd; [exact Hd|]. apply nth_In. lia.
      - inversion Hml; subst. split; [apply repeat_length|]. split; [apply suffix_refl|].
        intros i Hi x Hx. rewrite nth_repeat_none in Hx. discriminate. }
    destruct Hm as (Lml & S21 & Hbeta). clear Hml.
    bi H bc t3 Hbc. destruct bc as [[bbox cl] bl].
    assert (Hc : length cl = bsz c /\ suffix t3 t2 /\
                 forall i, (i < bsz c)%nat -> forall x, nth i cl None = Some x ->
                   x = lamb_adjusted (img_h c) (img_w c) (nth i bbox (0, 0, 0, 0)) /\
                   (trace_ok t2 -> halves_ok hv -> box_in_bounds (img_h c) (img_w c) (nth i bbox (0, 0, 0, 0)))).
    { destruct (Qltb 0 (cutmix_p c)).
      - bi Hbc a t Ha. bi Hbc l t' Hb. bi Hbc u0 tu Hun. apply unpack_hw_inv in Hun. destruct Hun as [-> _].
        bi Hbc bl0 t'' Hg. destruct bl0 as [bb ll]. inversion Hbc; subst bbox cl bl t''. clear Hbc.
        assert (t = t2) by (destruct (cutmix_alpha c); simpl in Ha; inversion Ha; auto). subst t.
        apply next_betas_inv in Hb. destruct Hb as (a' & -> & Ll).
        apply get_random_bbox_inv in Hg. destruct Hg as (Lb & -> & S & Fb).
        split; [rewrite !map_length; exact Lb|].
        split; [eapply suffix_trans; [exact S| apply suffix_cons]|].
        intros i Hi x Hx. rewrite (nth_map_d _ _ _ 0%Q) in Hx by (rewrite map_length; lia). inversion Hx; subst.
        split; [apply nth_map_d; lia|].
        intros Hok Hh. assert (Hok' : trace_ok t') by (inversion Hok; auto).
        specialize (Fb Hok' Hh). eapply Forall_forall in Fb; [exact Fb|]. apply nth_In. lia.
      - inversion Hbc; subst. split; [apply repeat_length|]. split; [apply suffix_refl|].
        intros i Hi x Hx. rewrite nth_repeat_none in Hx. discriminate. }
    destruct Hc as (Lcl & S32 & Hcut). clear Hbc.
    bi H lamb t4 Hseq.
    destruct (sequence (where3 uc cl ml)) as [lamb0|] eqn:Eseq; simpl in Hseq; [|discriminate].
    inversion Hseq; subst lamb0 t4. clear Hseq.
    bi H xp t5 Hsh. destruct xp as [x2 pm].
    bi H u0 t5' Hchk.
    assert (t5' = t5).
    { destruct (forallb (fun b : bool => b) uc); [inversion Hchk; auto|].
      destruct (Nat.eqb (x_rank c) 0); [discriminate|]. apply mul_inplace_inv in Hchk. tauto. }
    subst t5'. clear Hchk.
    bi H ys t6 Hy. inversion H; subst r tr'. clear H.
    pose proof (shuffle_len _ _ _ _ _ _ Hsh) as Lx.
    eapply labs_inv in Hy; [|exact Hsh]. destruct Hy as [Hys _].
    pose proof (where3_length _ _ _ _ Luc Lcl Lml) as Lw.
    pose proof (sequence_length _ _ Eseq) as Ll. rewrite Lw in Ll.
    assert (S1 : suffix t1 tr) by (eapply suffix_trans; [apply suffix_cons|exact Hap]).
    exists x2, (fun i => nth i uc false), (fun i => qnth i lamb), (fun i => nth i bbox (0, 0, 0, 0)).
    split; [exact Lx|].
    split. { exists t3, pm, t5. split; [exact Hsh|]. eapply suffix_trans; [exact S32|]. eapply suffix_trans; [exact S21|exact S1]. }
    intros i Hi. simpl.
    split; [rewrite nth_map_seq by exact Hi; reflexivity|].
    split.
    { unfold lam_of. simpl. destruct lamb as [|l0 [|l1 lamb]]; try reflexivity.
      simpl in Ll. assert (i = 0)%nat by lia. subst. reflexivity. }
    split.
    { intros ls Hls. destruct Hys as [E|E]; rewrite E in Hls; inversion Hls; subst.
      rewrite nth_map_seq by exact Hi. reflexivity. }
    pose proof (sequence_nth _ _ i 0%Q Eseq) as Hn. rewrite Lw in Hn. specialize (Hn Hi).
    rewrite (where3_nth _ _ _ _ _ Luc Lcl Lml Hi) in Hn. fold (qnth i lamb) in Hn.
    split.
    + intros Ecut. rewrite Ecut in Hn. destruct (Hcut i Hi _ Hn) as [E B]. split; [exact E|].
      intros Hok Hh. apply B; auto. eapply suffix_ok; [|exact Hok]. eapply suffix_trans; [exact S21|exact S1].
    + intros Ecut Hok. rewrite Ecut in Hn. apply (Hbeta i Hi _ Hn). eapply suffix_ok; [exact S1|exact Hok].
Qed.

(* ====================================================================== *)
(* the theorems                                                           *)
(* ====================================================================== *)
Lemma partner_shared_l c hv tr r tr' :
  collate c hv tr = Ok (r, tr') ->
  forall ls, labs r = Some ls ->
  forall i, (i < bsz c)%nat -> partner_of (nth i (imgs r) Keep) = Some (fst (nth i ls (0%nat, 0%Q))).
Proof.
  intros H ls Hls i Hi. apply collate_inv in H. destruct H as (ps & cut & lam & bx & _ & _ & V).
  destruct (V i Hi) as (Himg & _ & Hlab & _). rewrite Himg, (Hlab ls Hls). destruct (cut i); reflexivity.
Qed.

Lemma weight_shared_l c hv tr r tr' :
  cfg_ok c -> trace_ok tr -> halves_ok hv -> collate c hv tr = Ok (r, tr') ->
  forall i, (i < bsz c)%nat ->
    (retained_fraction (img_h c) (img_w c) (nth i (imgs r) Keep) == lam_of r i)%Q /\
    (forall ls, labs r = Some ls -> (snd (nth i ls (0%nat, 0%Q)) == lam_of r i)%Q).
Proof.
  intros (_ & _ & _ & _ & Hh & Hw) Hok Hhv H i Hi. apply collate_inv in H.
  destruct H as (ps & cut & lam & bx & _ & _ & V).
  destruct (V i Hi) as (Himg & Hlam & Hlab & Hcut & _). rewrite Himg, Hlam. split.
  - destruct (cut i) eqn:E.
    + destruct (Hcut eq_refl) as [El Hb]. rewrite El. symmetry.
      apply lambda_adjusted_is_area_fraction_l; auto.
    + simpl. reflexivity.
  - intros ls Hls. rewrite (Hlab ls Hls). simpl. reflexivity.
Qed.

Lemma bbox_in_bounds_l c hv tr r tr' :
  trace_ok tr -> halves_ok hv -> collate c hv tr = Ok (r, tr') ->
  forall i p b, (i < bsz c)%nat -> nth i (imgs r) Keep = Cut p b -> box_in_bounds (img_h c) (img_w c) b.
Proof.
  intros Hok Hhv H i p b Hi E. apply collate_inv in H. destruct H as (ps & cut & lam & bx & _ & _ & V).
  destruct (V i Hi) as (Himg & _ & _ & Hcut & _). rewrite Himg in E. destruct (cut i); [|discriminate].
  inversion E; subst. destruct (Hcut eq_refl) as [_ Hb]. auto.
Qed.

Lemma lambda_in_unit_l c hv tr r tr' :
  cfg_ok c -> trace_ok tr -> halves_ok hv -> collate c hv tr = Ok (r, tr') ->
  forall i, (i < bsz c)%nat -> (0 <= lam_of r i)%Q /\ (lam_of r i <= 1)%Q.
Proof.
  intros (_ & _ & _ & _ & Hh & Hw) Hok Hhv H i Hi. apply collate_inv in H.
  destruct H as (ps & cut & lam & bx & _ & _ & V).
  destruct (V i Hi) as (_ & Hlam & _ & Hcut & Hmix). rewrite Hlam. destruct (cut i).
  - destruct (Hcut eq_refl) as [-> Hb]. apply lamb_adjusted_range; auto.
  - apply Hmix; auto.
Qed.

Lemma mode_partner_lt m n perm i :
  (i < n)%nat -> (m = Random -> n <> 1%nat -> Permutation perm (seq 0 n)) -> (mode_partner m n perm i < n)%nat.
Proof.
  intros Hi HP. unfold mode_partner. destruct (Nat.eqb n 1) eqn:E.
  - apply Nat.eqb_eq in E. lia.
  - apply Nat.eqb_neq in E. destruct m.
    + apply Nat.mod_upper_bound. lia.
    + lia.
    + specialize (HP eq_refl E). eapply perm_lt; [exact HP|]. apply nth_In.
      apply Permutation_length in HP. rewrite seq_length in HP. lia.
Qed.

Lemma p_follows_mode_l c hv tr r tr' :
  trace_ok tr -> collate c hv tr = Ok (r, tr') ->
  exists perm, (shuf c = Random -> bsz c <> 1%nat -> In (DPerm perm) tr /\ Permutation perm (seq 0 (bsz c))) /\
    forall i, (i < bsz c)%nat ->
      partner_of (nth i (imgs r) Keep) = Some (mode_partner (shuf c) (bsz c) perm i) /\
      (mode_partner (shuf c) (bsz c) perm i < bsz c)%nat.
Proof.
  intros Hok H. apply collate_inv in H. destruct H as (ps & cut & lam & bx & _ & (trA & pm & trB & Hsh & Suf) & V).
  apply shuffle_partners in Hsh; [|eapply suffix_ok; eauto]. destruct Hsh as (perm & HP & _ & Hn).
  exists perm. split.
  - intros E1 E2. destruct (HP E1 E2). split; [eapply suffix_in; eauto|auto].
  - intros i Hi. destruct (V i Hi) as (Himg & _). rewrite Himg. split.
    + rewrite <- (Hn i Hi). destruct (cut i); reflexivity.
    + apply mode_partner_lt; auto. intros E1 E2. apply (HP E1 E2).
Qed.

(* ---- labels ---- *)
Lemma mix_row_sum w a b : length a = length b -> (qsum (mix_row w a b) == w * qsum a + (1 - w) * qsum b)%Q.
Proof.
  revert b. induction a as [|x a IH]; intros [|y b] L; simpl in *; try lia.
  - ring.
  - rewrite IH by lia. ring.
Qed.

Lemma mix_row_nonneg w a b : (0 <= w)%Q -> (w <= 1)%Q ->
  Forall (fun x => (0 <= x)%Q) a -> Forall (fun x => (0 <= x)%Q) b -> Forall (fun x => (0 <= x)%Q) (mix_row w a b).
Proof.
  intros H0 H1 Fa. revert b. induction Fa as [|x a Hx Fa IH]; intros b Fb; simpl.
  - constructor.
  - destruct b as [|y b]; [constructor|]. inversion Fb; subst. constructor; [|apply IH; auto].
    assert (0 <= w * x)%Q by (apply Qmult_le_0_compat; auto).
    assert (0 <= (1 - w) * y)%Q by (apply Qmult_le_0_compat; auto; lra).
    lra.
Qed.

Definition label_matrix_ok (n : nat) (Y : list (list Q)) : Prop :=
  exists m, forall k, (k < n)%nat ->
    length (nth k Y []) = m /\ (qsum (nth k Y []) == 1)%Q /\ Forall (fun x => (0 <= x)%Q) (nth k Y []).

Lemma rows_sum_to_one_l c hv tr r tr' Y :
  cfg_ok c -> trace_ok tr -> halves_ok hv -> collate c hv tr = Ok (r, tr') ->
  label_matrix_ok (bsz c) Y ->
  forall ls, labs r = Some ls -> forall i, (i < bsz c)%nat ->
    let row := render_label Y i (nth i ls (0%nat, 0%Q)) in
    (qsum row == 1)%Q /\ Forall (fun x => (0 <= x)%Q) row.
Proof.
  intros Hc Hok Hhv H (m & HY) ls Hls i Hi.
  destruct (p_follows_mode_l _ _ _ _ _ Hok H) as (perm & _ & Hp).
  destruct (Hp i Hi) as [Hpart Hlt].
  rewrite (partner_shared_l _ _ _ _ _ H ls Hls i Hi) in Hpart. inversion Hpart as [Hfst].
  destruct (weight_shared_l _ _ _ _ _ Hc Hok Hhv H i Hi) as [_ Hw]. specialize (Hw ls Hls).
  destruct (lambda_in_unit_l _ _ _ _ _ Hc Hok Hhv H i Hi) as [L0 L1].
  unfold render_label. cbv zeta. rewrite Hfst.
  destruct (HY i Hi) as (Li & Si & Fi). destruct (HY _ Hlt) as (Lp & Sp & Fp).
  split.
  - rewrite mix_row_sum by lia. rewrite Si, Sp. ring.
  - apply mix_row_nonneg; auto; rewrite Hw; auto.
Qed.

(* the label formula for ARBITRARY rational label rows (multi-hot, unnormalised, all-zero, negative, -1 markers):
   entry j of the emitted row is  w * y_i[j] + (1 - w) * y_p[j]  -- nothing is rescaled or renormalised *)
Lemma mix_row_length w a b : length a = length b -> length (mix_row w a b) = length a.
Proof.
  revert b. induction a as [|x a IH]; intros [|y b] L; simpl in *; try lia. rewrite IH by lia. reflexivity.
Qed.

Lemma mix_row_nth w a b j : length a = length b -> (j < length a)%nat ->
  nth j (mix_row w a b) 0%Q = (w * nth j a 0 + (1 - w) * nth j b 0)%Q.
Proof.
  revert b j. induction a as [|x a IH]; intros [|y b] j L Hj; simpl in *; try lia.
  destruct j; [reflexivity|]. apply IH; lia.
Qed.

Lemma mixed_label_is_convex_combination_of_rows_l c hv tr r tr' (Y : list (list Q)) :
  cfg_ok c -> trace_ok tr -> halves_ok hv -> collate c hv tr = Ok (r, tr') ->
  forall ls, labs r = Some ls ->
  exists perm, (shuf c = Random -> bsz c <> 1%nat -> In (DPerm perm) tr /\ Permutation perm (seq 0 (bsz c))) /\
    forall i, (i < bsz c)%nat ->
      let p := mode_partner (shuf c) (bsz c) perm i in
      let row := render_label Y i (nth i ls (0%nat, 0%Q)) in
      length (nth i Y []) = length (nth p Y []) ->
      length row = length (nth i Y []) /\
      forall j, (j < length (nth i Y []))%nat ->
        (nth j row 0 == lam_of r i * nth j (nth i Y []) 0 + (1 - lam_of r i) * nth j (nth p Y []) 0)%Q.
Proof.
  intros Hc Hok Hhv H ls Hls.
  destruct (p_follows_mode_l _ _ _ _ _ Hok H) as (perm & HP & Hp).
  exists perm. split; [exact HP|]. intros i Hi p row L.
  destruct (Hp i Hi) as [Hpart _].
  rewrite (partner_shared_l _ _ _ _ _ H ls Hls i Hi) in Hpart. inversion Hpart as [Hfst].
  destruct (weight_shared_l _ _ _ _ _ Hc Hok Hhv H i Hi) as [_ Hw]. specialize (Hw ls Hls).
  subst row p. unfold render_label. rewrite Hfst. split.
  - apply mix_row_length; auto.
  - intros j Hj. rewrite mix_row_nth by auto. rewrite Hw. reflexivity.
Qed.

(* ---- items other than x / class ---- *)
Lemma set_at_other {A} k (v : A) l j : j <> k -> nth_error (set_at k v l) j = nth_error l j.
Proof.
  revert k j. induction l as [|x l IH]; intros k j Hj; simpl.
  - destruct k; reflexivity.
  - destruct k; destruct j; simpl; try reflexivity; try lia. apply IH. lia.
Qed.
Lemma set_at_length {A} k (v : A) l : length (set_at k v l) = length l.
Proof. revert k. induction l; intros [|k]; simpl; auto. Qed.
Lemma set_at_same {A} k (v : A) l : nth_error l k = Some v -> set_at k v l = l.
Proof.
  revert k. induction l as [|x l IH]; intros [|k]; simpl; intros H; try discriminate.
  - inversion H; reflexivity.
  - f_equal. auto.
Qed.

Lemma index_of_sound t mode k : index_of t mode = Some k -> exists t', nth_error mode k = Some t' /\ tok_eqb t t' = true.
Proof.
  revert k. induction mode as [|a mode IH]; simpl; intros k H; [discriminate|].
  destruct (tok_eqb t a) eqn:E.
  - inversion H; subst. simpl. eauto.
  - destruct (index_of t mode); [|discriminate]. simpl in H. inversion H; subst. simpl. apply IH. reflexivity.
Qed.

Lemma tok_eqb_eq a b : tok_eqb a b = true -> a = b.
Proof. destruct a, b; simpl; try discriminate; auto. intros H. apply Nat.eqb_eq in H. subst; auto. Qed.

(* set_item writes only at a position whose token is the item's name *)
Lemma set_item_other {A} mode t (batch : list A) v out :
  set_item mode t batch v = Some out -> (length mode > 1)%nat ->
  length out = length batch /\
  forall j t', nth_error mode j = Some t' -> t' <> t -> nth_error out j = nth_error batch j.
Proof.
  unfold set_item. destruct mode as [|a [|b mode]]; simpl length; intros H L; try lia.
  destruct (index_of t (a :: b :: mode)) as [k|] eqn:E; [|discriminate]. inversion H; subst.
  split; [apply set_at_length|]. intros j t' Hj Hne. apply set_at_other.
  intros ->. apply index_of_sound in E. destruct E as (t'' & E1 & E2). rewrite Hj in E1. inversion E1; subst.
  apply tok_eqb_eq in E2. congruence.
Qed.

Lemma lift_inv {A} e (o : option A) tr a tr' : lift e o tr = Ok (a, tr') -> o = Some a /\ tr' = tr.
Proof. destruct o; simpl; unfold ret, fail; intro H; inversion H; auto. Qed.

Lemma other_items_untouched_l c hv Y batch ctx tr ob ctx' r tr' :
  collate_batch c hv Y batch ctx tr = Ok ((ob, ctx', r), tr') ->
  (length (tokens c) > 1)%nat ->
  length ob = length batch /\
  forall j t, nth_error (tokens c) j = Some t -> t <> TX -> t <> TClass -> nth_error ob j = nth_error batch j.
Proof.
  unfold collate_batch. intros H L.
  bi H idx t0 Hidx. bi H uv0 tv0 Hmv. bi H u0 t0' Hlab. bi H r0 t1 Hr. bi H b1 t2 H1. bi H b2 t3 H2. bi H b3 t4 H3.
  inversion H; subst ob ctx' r tr'. clear H.
  apply lift_inv in Hidx. destruct Hidx as [Hidx _].
  apply lift_inv in H1. destruct H1 as [H1 _].
  apply lift_inv in H2. destruct H2 as [S2 _].
  apply lift_inv in H3. destruct H3 as [H3 _].
  assert (E1 : b1 = batch).
  { destruct idx as [v|].
    - destruct (has_item (tokens c) TIndex); simpl in Hidx.
      + destruct (get_item (tokens c) TIndex batch) as [v'|] eqn:G; simpl in Hidx; [|discriminate].
        inversion Hidx; subst v'. unfold get_item in G. unfold set_item in H1.
        destruct (tokens c) as [|a [|b m]]; simpl in L; try lia.
        destruct (index_of TIndex (a :: b :: m)); [|discriminate].
        inversion H1; subst. apply set_at_same. exact G.
      + inversion Hidx.
    - inversion H1; auto. }
  subst b1.
  destruct (set_item_other _ _ _ _ _ S2 L) as [L2 O2].
  destruct (labs r0) as [l|].
  - destruct (set_item_other _ _ _ _ _ H3 L) as [L3 O3].
    split; [lia|]. intros j t Hj Hx Hy. rewrite (O3 j t Hj Hy). apply (O2 j t Hj Hx).
  - inversion H3; subst b3.
    split; [exact L2|]. intros j t Hj Hx Hy. apply (O2 j t Hj Hx).
Qed.

(* ====================================================================== *)
(* size of the pasted box                                                 *)
(* ====================================================================== *)
Lemma Qsq_le_inv (x y : Q) : (0 <= y)%Q -> (x * x <= y * y)%Q -> (x <= y)%Q.
Proof. intros Hy H. destruct (Qlt_le_dec y x) as [L|L]; [|exact L]. exfalso. nra. Qed.
Lemma Qsq_lt_inv (x y : Q) : (0 <= y)%Q -> (x * x < y * y)%Q -> (x < y)%Q.
Proof. intros Hy H. destruct (Qlt_le_dec x y) as [L|L]; [exact L|]. exfalso. nra. Qed.

Lemma half_spec_correct_l lam h : (lam <= 1)%Q -> half_ok lam h (half_spec lam h).
Proof.
  intros Hl. unfold half_ok, half_spec.
  set (T := ((1 - lam) * inject_Z (h * h))%Q).
  assert (HT : (0 <= T)%Q).
  { unfold T. apply Qmult_le_0_compat; [lra|]. change 0%Q with (inject_Z 0). rewrite <- Zle_Qle. nia. }
  clearbody T.
  set (X := (T * (1 # 4))%Q).
  assert (HX : (0 <= X)%Q) by (unfold X; lra).
  set (F := Qfloor X).
  assert (HF0 : 0 <= F).
  { change 0 with (Qfloor 0). apply Qfloor_resp_le. exact HX. }
  assert (HF1 : (inject_Z F <= X)%Q) by apply Qfloor_le.
  assert (HF2 : (X < inject_Z (F + 1))%Q) by apply Qlt_floor.
  pose proof (Z.sqrt_spec F HF0) as [S1 S2]. set (s := Z.sqrt F) in *.
  assert (Hs : 0 <= s) by apply Z.sqrt_nonneg.
  split; [exact Hs|]. split.
  - assert (E : (inject_Z (4 * (s * s)) <= 4 * inject_Z F)%Q).
    { rewrite inject_Z_mult. apply Qmult_le_l; [reflexivity|]. rewrite <- Zle_Qle. exact S1. }
    unfold X in HF1. lra.
  - assert (E : (4 * inject_Z (F + 1) <= inject_Z (4 * ((s + 1) * (s + 1))))%Q).
    { rewrite (inject_Z_mult 4). apply Qmult_le_l; [reflexivity|]. rewrite <- Zle_Qle. unfold Z.succ in S2. lia. }
    unfold X in HF2. lra.
Qed.

Lemma half_ok_unique_l lam h a b : half_ok lam h a -> half_ok lam h b -> a = b.
Proof.
  intros (Ha0 & Ha1 & Ha2) (Hb0 & Hb1 & Hb2).
  assert (L1 : (inject_Z (4 * (a * a)) < inject_Z (4 * ((b + 1) * (b + 1))))%Q) by lra.
  assert (L2 : (inject_Z (4 * (b * b)) < inject_Z (4 * ((a + 1) * (a + 1))))%Q) by lra.
  rewrite <- Zlt_Qlt in L1, L2. nia.
Qed.

(* the unclipped box covers (almost) the fraction 1 - lambda of the image: never more, and less by at most the
   floor error 2/h + 2/w + 4/(h w) *)
Lemma unclipped_box_area_l lam h w hh wh :
  0 < h -> 0 < w -> (0 <= lam)%Q -> (lam <= 1)%Q -> half_ok lam h hh -> half_ok lam w wh ->
  (unclipped_fraction h w hh wh <= 1 - lam)%Q /\
  (1 - lam - unclipped_fraction h w hh wh < (2 # 1) / inject_Z h + (2 # 1) / inject_Z w + (4 # 1) / inject_Z (h * w))%Q.
Proof.
  intros Hh Hw Hl0 Hl1 (Ha0 & Ha1 & Ha2) (Hb0 & Hb1 & Hb2).
  unfold unclipped_fraction.
  set (t := (1 - lam)%Q) in *.
  assert (Ht0 : (0 <= t)%Q) by (unfold t; lra). assert (Ht1 : (t <= 1)%Q) by (unfold t; lra). clearbody t.
  set (H := inject_Z h). set (W := inject_Z w). set (A := inject_Z (2 * hh)). set (B := inject_Z (2 * wh)).
  assert (HH : (0 < H)%Q) by (unfold H; change 0%Q with (inject_Z 0); rewrite <- Zlt_Qlt; lia).
  assert (HW : (0 < W)%Q) by (unfold W; change 0%Q with (inject_Z 0); rewrite <- Zlt_Qlt; lia).
  assert (HA : (0 <= A)%Q) by (unfold A; change 0%Q with (inject_Z 0); rewrite <- Zle_Qle; lia).
  assert (HB : (0 <= B)%Q) by (unfold B; change 0%Q with (inject_Z 0); rewrite <- Zle_Qle; lia).
  assert (EA1 : (A * A <= t * (H * H))%Q).
  { unfold A, H. rewrite <- !inject_Z_mult. replace (2 * hh * (2 * hh)) with (4 * (hh * hh)) by ring. exact Ha1. }
  assert (EB1 : (B * B <= t * (W * W))%Q).
  { unfold B, W. rewrite <- !inject_Z_mult. replace (2 * wh * (2 * wh)) with (4 * (wh * wh)) by ring. exact Hb1. }
  assert (EA2 : (t * (H * H) < (A + 2) * (A + 2))%Q).
  { unfold A, H. change 2%Q with (inject_Z 2). rewrite <- !inject_Z_plus, <- !inject_Z_mult.
    replace ((2 * hh + 2) * (2 * hh + 2)) with (4 * ((hh + 1) * (hh + 1))) by ring. exact Ha2. }
  assert (EB2 : (t * (W * W) < (B + 2) * (B + 2))%Q).
  { unfold B, W. change 2%Q with (inject_Z 2). rewrite <- !inject_Z_plus, <- !inject_Z_mult.
    replace ((2 * wh + 2) * (2 * wh + 2)) with (4 * ((wh + 1) * (wh + 1))) by ring. exact Hb2. }
  assert (EHW : (inject_Z (h * w) == H * W)%Q) by (unfold H, W; rewrite inject_Z_mult; reflexivity).
  assert (EAB : (inject_Z (2 * hh * (2 * wh)) == A * B)%Q) by (unfold A, B; rewrite inject_Z_mult; reflexivity).
  rewrite EHW, EAB. clearbody H W A B.
  assert (HHW : (0 < H * W)%Q) by nra.
  (* A B <= t H W *)
  assert (K1 : (A * B <= t * (H * W))%Q).
  { apply Qsq_le_inv; [nra|].
    set (P := (t * (H * H))%Q) in *. set (R := (t * (W * W))%Q) in *.
    assert (HP : (0 <= P)%Q) by (unfold P; nra). assert (HR : (0 <= R)%Q) by (unfold R; nra).
    assert (E : ((t * (H * W)) * (t * (H * W)) == P * R)%Q) by (unfold P, R; ring).
    rewrite E. clearbody P R.
    assert (E2 : (A * B * (A * B) == (A * A) * (B * B))%Q) by ring. rewrite E2.
    assert (0 <= A * A)%Q by nra. assert (0 <= B * B)%Q by nra. nra. }
  (* t H W < (A + 2)(B + 2) *)
  assert (K2 : (t * (H * W) < (A + 2) * (B + 2))%Q).
  { apply Qsq_lt_inv; [nra|].
    set (P := (t * (H * H))%Q) in *. set (R := (t * (W * W))%Q) in *.
    assert (HP : (0 <= P)%Q) by (unfold P; nra). assert (HR : (0 <= R)%Q) by (unfold R; nra).
    assert (E : ((t * (H * W)) * (t * (H * W)) == P * R)%Q) by (unfold P, R; ring).
    rewrite E. clearbody P R.
    assert (E2 : ((A + 2) * (B + 2) * ((A + 2) * (B + 2)) == ((A + 2) * (A + 2)) * ((B + 2) * (B + 2)))%Q) by ring.
    rewrite E2. set (U := ((A + 2) * (A + 2))%Q) in *. set (V := ((B + 2) * (B + 2))%Q) in *. clearbody U V. nra. }
  (* A <= H, B <= W *)
  assert (K3 : (A <= H)%Q) by (apply Qsq_le_inv; nra).
  assert (K4 : (B <= W)%Q) by (apply Qsq_le_inv; nra).
  split.
  - apply Qle_shift_div_r; [exact HHW|]. exact K1.
  - assert (N : (t * (H * W) - A * B - 2 * W - 2 * H - 4 < 0)%Q) by nra.
    assert (E : (t - A * B / (H * W) - ((2 # 1) / H + (2 # 1) / W + (4 # 1) / (H * W))
                 == (t * (H * W) - A * B - 2 * W - 2 * H - 4) / (H * W))%Q).
    { field. split; lra. }
    assert (Z0 : ((t * (H * W) - A * B - 2 * W - 2 * H - 4) / (H * W) < 0)%Q).
    { apply Qlt_shift_div_r; [exact HHW|]. lra. }
    lra.
Qed.

(* ---- a box that is not clipped at the border has exactly the unclipped area ---- *)
Lemma interior_box_l h w ch cw hh wh :
  0 < h -> 0 < w -> 0 <= hh -> 0 <= wh -> hh <= ch -> ch + hh <= h -> wh <= cw -> cw + wh <= w ->
  (lamb_adjusted h w (clamp_box h w ch cw (hh, wh)) == 1 - unclipped_fraction h w hh wh)%Q.
Proof.
  intros. unfold lamb_adjusted, unclipped_fraction, clamp_box, box_area.
  replace ((Z.min (ch + hh) h - Z.max (ch - hh) 0) * (Z.min (cw + wh) w - Z.max (cw - wh) 0)) with (2 * hh * (2 * wh)) by nia.
  reflexivity.
Qed.

(* clipping only removes area: the corrected lambda is never below 1 - (unclipped area fraction) *)
Lemma clipped_box_l h w ch cw hh wh :
  0 < h -> 0 < w -> 0 <= hh -> 0 <= wh -> 0 <= ch < h -> 0 <= cw < w ->
  (1 - unclipped_fraction h w hh wh <= lamb_adjusted h w (clamp_box h w ch cw (hh, wh)))%Q.
Proof.
  intros Hh Hw Hhh Hwh Hch Hcw. unfold lamb_adjusted, unclipped_fraction, clamp_box, box_area.
  set (a := (Z.min (ch + hh) h - Z.max (ch - hh) 0) * (Z.min (cw + wh) w - Z.max (cw - wh) 0)).
  assert (Ha : a <= 2 * hh * (2 * wh)) by (unfold a; nia).
  assert (Hp : (0 < inject_Z (h * w))%Q) by (change 0%Q with (inject_Z 0); rewrite <- Zlt_Qlt; nia).
  assert (Hq : (inject_Z a / inject_Z (h * w) <= inject_Z (2 * hh * (2 * wh)) / inject_Z (h * w))%Q).
  { apply Qmult_le_compat_r; [rewrite <- Zle_Qle; exact Ha|]. apply Qlt_le_weak. apply Qinv_lt_0_compat. exact Hp. }
  lra.
Qed.

(* with the half sizes the formula prescribes, the weight reported after the area correction is at least the drawn
   lambda, and for a box that is not clipped it exceeds it by less than the floor error *)
Lemma corrected_lambda_close_l lam h w ch cw hh wh :
  0 < h -> 0 < w -> (0 <= lam)%Q -> (lam <= 1)%Q -> half_ok lam h hh -> half_ok lam w wh ->
  0 <= ch < h -> 0 <= cw < w ->
  (lam <= lamb_adjusted h w (clamp_box h w ch cw (hh, wh)))%Q /\
  (hh <= ch -> ch + hh <= h -> wh <= cw -> cw + wh <= w ->
   (lamb_adjusted h w (clamp_box h w ch cw (hh, wh)) - lam
    < (2 # 1) / inject_Z h + (2 # 1) / inject_Z w + (4 # 1) / inject_Z (h * w))%Q).
Proof.
  intros Hh Hw Hl0 Hl1 Ha Hb Hch Hcw.
  destruct (unclipped_box_area_l lam h w hh wh Hh Hw Hl0 Hl1 Ha Hb) as [U1 U2].
  destruct Ha as (Ha0 & _). destruct Hb as (Hb0 & _).
  split.
  - pose proof (clipped_box_l h w ch cw hh wh Hh Hw Ha0 Hb0 Hch Hcw). lra.
  - intros I1 I2 I3 I4. rewrite (interior_box_l h w ch cw hh wh) by lia. lra.
Qed.

(* ====================================================================== *)
(* the context dictionary                                                 *)
(* ====================================================================== *)
Lemma ckey_eqb_eq a b : ckey_eqb a b = true <-> a = b.
Proof.
  destruct a, b; simpl; split; intro H; try discriminate; try reflexivity; try congruence.
  - apply Nat.eqb_eq in H. subst. reflexivity.
  - inversion H; subst. apply Nat.eqb_refl.
Qed.
Lemma ckey_eqb_refl a : ckey_eqb a a = true. Proof. apply ckey_eqb_eq. reflexivity. Qed.
Lemma ckey_eqb_sym a b : ckey_eqb a b = ckey_eqb b a.
Proof. destruct (ckey_eqb a b) eqn:E.
  - apply ckey_eqb_eq in E. subst. symmetry. apply ckey_eqb_refl.
  - destruct (ckey_eqb b a) eqn:E'; [|reflexivity]. apply ckey_eqb_eq in E'. subst. rewrite ckey_eqb_refl in E. discriminate.
Qed.

Lemma ctx_get_set_same k v ctx : ctx_get k (ctx_set k v ctx) = Some v.
Proof.
  induction ctx as [|[k' v'] r IH]; simpl.
  - rewrite ckey_eqb_refl. reflexivity.
  - destruct (ckey_eqb k k') eqn:E; simpl.
    + rewrite ckey_eqb_refl. reflexivity.
    + rewrite E. exact IH.
Qed.
Lemma ctx_get_set_other k k' v ctx : k <> k' -> ctx_get k (ctx_set k' v ctx) = ctx_get k ctx.
Proof.
  intro Hne. assert (N : ckey_eqb k k' = false).
  { destruct (ckey_eqb k k') eqn:E; [apply ckey_eqb_eq in E; contradiction|reflexivity]. }
  induction ctx as [|[k2 v2] r IH]; simpl.
  - rewrite N. reflexivity.
  - destruct (ckey_eqb k' k2) eqn:E; simpl.
    + apply ckey_eqb_eq in E. subst k2. rewrite N. reflexivity.
    + destruct (ckey_eqb k k2); [reflexivity|exact IH].
Qed.

(* the collator adds its three entries and leaves every entry recorded under another key as it was *)
Lemma ctx_entries_l c hv Y batch ctx tr ob ctx' r tr' :
  collate_batch c hv Y batch ctx tr = Ok ((ob, ctx', r), tr') ->
  (forall k, ctx_get (KUser k) ctx' = ctx_get (KUser k) ctx) /\
  ctx_get KApply ctx' = Some (VBools (ctx_apply r)) /\
  ctx_get KCutmix ctx' = Some (VBools (ctx_cutmix r)) /\
  ctx_get KLambda ctx' = Some (VLams (ctx_lambda r)).
Proof.
  unfold collate_batch. intros H.
  bi H idx t0 Hidx. bi H uv0 tv0 Hmv. bi H u0 t0' Hlab. bi H r0 t1 Hr. bi H b1 t2 H1. bi H b2 t3 H2. bi H b3 t4 H3.
  inversion H; subst ob ctx' r tr'. clear H.
  split; [|split; [|split]].
  - intro k. rewrite !ctx_get_set_other by discriminate. reflexivity.
  - rewrite !ctx_get_set_other by discriminate. apply ctx_get_set_same.
  - rewrite ctx_get_set_other by discriminate. apply ctx_get_set_same.
  - apply ctx_get_set_same.
Qed.

(* ====================================================================== *)
(* what the collator rejects                                              *)
(* ====================================================================== *)
(* every exception of the model is explained by the property of the input that the code checks there *)
Definition explained (c : cfg) (Y : list (list Q)) (e : err) : Prop :=
  match e with
  | EDraw | EItem => True     (* not a rejection of the input: the recorded draws / the batch tuple do not fit the mode *)
  | EAssertFlip => shuf c = Flip /\ Nat.even (bsz c) = false /\ bsz c <> 1%nat
  | EAssertLabel => has_item (tokens c) TClass = true /\ labels_accepted (lab_ndim c) Y = false
  | EUnpack => x_rank c <> 3%nat
  | ECast => x_float c = false
  | EView => x_rank c = 0%nat
  | ENoX => has_item (tokens c) TX = false
  | EMultiView => has_item (tokens c) TX = true /\ x_views c <> 0%nat
  end.

Definition errs {A} (P : err -> Prop) (m : M A) : Prop := forall tr e, m tr = Err e -> P e.
Lemma errs_ret {A} (P : err -> Prop) (a : A) : errs P (ret a). Proof. intros tr e H. discriminate. Qed.
Lemma errs_fail {A} (P : err -> Prop) e0 : P e0 -> errs P (@fail A e0).
Proof. intros H tr e E. inversion E; subst. exact H. Qed.
Lemma errs_bind {A B} (P : err -> Prop) (m : M A) (f : A -> M B) : errs P m -> (forall a, errs P (f a)) -> errs P (bind m f).
Proof.
  intros Hm Hf tr e H. unfold bind in H. destruct (m tr) as [[a t]|e'] eqn:E.
  - eapply Hf; eauto.
  - inversion H; subst. eapply Hm; eauto.
Qed.
Lemma errs_lift {A} (P : err -> Prop) e0 (o : option A) : P e0 -> errs P (lift e0 o).
Proof. intros H. destruct o; simpl; [apply errs_ret|apply errs_fail; exact H]. Qed.
Lemma errs_next_unit (P : err -> Prop) : P EDraw -> errs P next_unit.
Proof. intros H tr e E. destruct tr as [|[] ?]; simpl in E; inversion E; subst; exact H. Qed.
Lemma errs_next_units (P : err -> Prop) n : P EDraw -> errs P (next_units n).
Proof. intros H tr e E. destruct tr as [|[] ?]; simpl in E; try (inversion E; subst; exact H).
  destruct (Nat.eqb (length us) n); inversion E; subst; exact H. Qed.
Lemma errs_next_beta (P : err -> Prop) a : P EDraw -> errs P (next_beta a).
Proof. intros H tr e E. destruct tr as [|[] ?]; simpl in E; try (inversion E; subst; exact H).
  destruct (Qeqb a a0); inversion E; subst; exact H. Qed.
Lemma errs_next_betas (P : err -> Prop) a n : P EDraw -> errs P (next_betas a n).
Proof. intros H tr e E. destruct tr as [|[] ?]; simpl in E; try (inversion E; subst; exact H).
  destruct (Qeqb a a0 && Nat.eqb (length xs) n); inversion E; subst; exact H. Qed.
Lemma errs_next_ints (P : err -> Prop) hi n : P EDraw -> errs P (next_ints hi n).
Proof. intros H tr e E. destruct tr as [|[] ?]; simpl in E; try (inversion E; subst; exact H).
  destruct ((hi =? hi0) && Nat.eqb (length xs) n); inversion E; subst; exact H. Qed.
Lemma errs_next_perm (P : err -> Prop) n : P EDraw -> errs P (next_perm n).
Proof. intros H tr e E. destruct tr as [|[] ?]; simpl in E; try (inversion E; subst; exact H).
  destruct (Nat.eqb (length p) n); inversion E; subst; exact H. Qed.

Lemma errs_shuffle c Y pm : errs (explained c Y) (shuffle (shuf c) (seq 0 (bsz c)) pm).
Proof.
  unfold shuffle. rewrite seq_length. destruct (Nat.eqb (bsz c) 1) eqn:E1; [apply errs_ret|].
  apply Nat.eqb_neq in E1. destruct (shuf c) eqn:Es.
  - apply errs_ret.
  - destruct (Nat.even (bsz c)) eqn:Ev; [apply errs_ret|]. apply errs_fail. simpl. auto.
  - destruct pm; [apply errs_ret|]. apply errs_bind; [apply errs_next_perm; exact I|]. intros. apply errs_ret.
Qed.
Lemma errs_unpack c Y : errs (explained c Y) (unpack_hw c).
Proof. unfold unpack_hw. destruct (Nat.eqb (x_rank c) 3) eqn:E; [apply errs_ret|]. apply errs_fail. simpl.
  apply Nat.eqb_neq. exact E. Qed.
Lemma errs_mul c Y : errs (explained c Y) (mul_inplace c).
Proof. unfold mul_inplace. destruct (x_float c) eqn:E; [apply errs_ret|]. apply errs_fail. exact E. Qed.
Lemma errs_bbox c Y h w n hv : errs (explained c Y) (get_random_bbox h w n hv).
Proof.
  unfold get_random_bbox. apply errs_bind; [apply errs_next_ints; exact I|]. intros.
  apply errs_bind; [apply errs_next_ints; exact I|]. intros.
  destruct (negb (Nat.eqb (length hv) n)); [apply errs_fail; exact I|apply errs_ret].
Qed.

Lemma errs_collate c Y hv : errs (explained c Y) (collate c hv).
Proof.
  unfold collate. destruct (negb (has_item (tokens c) TX)) eqn:EX.
  { apply errs_fail. simpl. apply negb_true_iff. exact EX. }
  apply errs_bind.
  { destruct (apply_mode c); (apply errs_bind; [|intros; apply errs_ret]).
    - apply errs_next_unit; exact I.
    - apply errs_next_units; exact I. }
  intros ap. destruct (lamb_mode c).
  - apply errs_bind; [apply errs_next_unit; exact I|]. intros u.
    apply errs_bind; [apply errs_lift; exact I|]. intros alpha.
    apply errs_bind; [apply errs_next_beta; exact I|]. intros lamb.
    apply errs_bind; [apply errs_shuffle|]. intros [x2 pm].
    apply errs_bind.
    { destruct (Qltb (u * total_p c) (cutmix_p c)).
      - apply errs_bind; [apply errs_unpack|]. intros _.
        apply errs_bind; [apply errs_bbox|]. intros [bbox l'].
        destruct bbox; [apply errs_fail; exact I|]. destruct l'; [apply errs_fail; exact I|apply errs_ret].
      - apply errs_bind; [apply errs_mul|]. intros. apply errs_ret. }
    intros [[xs l] bl].
    apply errs_bind.
    { destruct (has_item (tokens c) TClass); [|apply errs_ret].
      apply errs_bind; [apply errs_shuffle|]. intros [y2 ?]. apply errs_ret. }
    intros. apply errs_ret.
  - apply errs_bind; [apply errs_next_units; exact I|]. intros us.
    apply errs_bind.
    { destruct (Qltb 0 (mixup_p c)); [|apply errs_ret].
      apply errs_bind; [apply errs_lift; exact I|]. intros.
      apply errs_bind; [apply errs_next_betas; exact I|]. intros. apply errs_ret. }
    intros ml.
    apply errs_bind.
    { destruct (Qltb 0 (cutmix_p c)); [|apply errs_ret].
      apply errs_bind; [apply errs_lift; exact I|]. intros.
      apply errs_bind; [apply errs_next_betas; exact I|]. intros.
      apply errs_bind; [apply errs_unpack|]. intros.
      apply errs_bind; [apply errs_bbox|]. intros [bb l]. apply errs_ret. }
    intros [[bbox cl] bl].
    apply errs_bind; [apply errs_lift; exact I|]. intros lamb.
    apply errs_bind; [apply errs_shuffle|]. intros [x2 pm].
    apply errs_bind.
    { destruct (forallb (fun b : bool => b) _); [apply errs_ret|].
      destruct (Nat.eqb (x_rank c) 0) eqn:E0; [apply errs_fail; simpl; apply Nat.eqb_eq; exact E0|apply errs_mul]. }
    intros _.
    apply errs_bind.
    { destruct (has_item (tokens c) TClass); [|apply errs_ret].
      apply errs_bind; [apply errs_shuffle|]. intros [y2 ?]. apply errs_ret. }
    intros. apply errs_ret.
Qed.

Lemma errors_explained_l c hv Y batch ctx tr e :
  collate_batch c hv Y batch ctx tr = Err e -> explained c Y e.
Proof.
  revert tr e. change (errs (explained c Y) (collate_batch c hv Y batch ctx)).
  unfold collate_batch.
  apply errs_bind; [apply errs_lift; exact I|]. intros idx.
  apply errs_bind.
  { destruct (has_item (tokens c) TX && negb (Nat.eqb (x_views c) 0)) eqn:E; [|apply errs_ret].
    apply errs_fail. simpl. apply andb_true_iff in E. destruct E as [E1 E2]. apply negb_true_iff in E2.
    apply Nat.eqb_neq in E2. auto. }
  intros _.
  apply errs_bind.
  { destruct (has_item (tokens c) TClass && negb (labels_accepted (lab_ndim c) Y)) eqn:E; [|apply errs_ret].
    apply errs_fail. simpl. apply andb_true_iff in E. destruct E as [E1 E2]. apply negb_true_iff in E2. auto. }
  intros _.
  apply errs_bind; [apply errs_collate|]. intros r.
  apply errs_bind; [apply errs_lift; exact I|]. intros.
  apply errs_bind; [apply errs_lift; exact I|]. intros.
  apply errs_bind; [apply errs_lift; exact I|]. intros.
  apply errs_ret.
Qed.

(* images of shape (C, H, W) with a float dtype, labels in the accepted format, an even batch (or one sample) under
   flip: nothing is rejected *)
Definition in_domain (c : cfg) (Y : list (list Q)) : Prop :=
  has_item (tokens c) TX = true /\
  (has_item (tokens c) TClass = true -> labels_accepted (lab_ndim c) Y = true) /\
  (shuf c = Flip -> Nat.even (bsz c) = true \/ bsz c = 1%nat) /\
  x_rank c = 3%nat /\ x_float c = true /\ x_views c = 0%nat.
Lemma in_domain_not_rejected_l c hv Y batch ctx tr e :
  in_domain c Y -> collate_batch c hv Y batch ctx tr = Err e -> e = EDraw \/ e = EItem.
Proof.
  intros (D1 & D2 & D3 & D4 & D5 & D6) H. apply errors_explained_l in H. destruct e; simpl in H; auto; exfalso.
  - destruct H as (Hf & Hev & Hn). destruct (D3 Hf); congruence.
  - destruct H as (Hc & Hl). rewrite (D2 Hc) in Hl. discriminate.
  - congruence.
  - congruence.
  - congruence.
  - congruence.
  - destruct H as [_ Hv]. congruence.
Qed.
