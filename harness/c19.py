"""C19 — the in-memory cache SharedDictDataset is transparent for every access history,
also with several processes sharing the cache.

Five kinds of cases, all on the REAL class kappadata.caching.shared_dict_dataset.SharedDictDataset:
 seq    random sequential histories (get / repeated get / dispose / shared_dict.clear() / len, negative and
        out-of-range indices, np.int64 indices) over several holders of one cache (copy.copy / pickle round trip of
        the dataset object: all talk to the same REAL multiprocessing.Manager dict) and several independent caches
        over one base; load-counting base dataset that builds a FRESH sample object per access; the post-cache transform
        is absent / wraps the sample with a ticket / modifies the sample IN PLACE (ticket-dependent) and returns it;
        "mut" commands: the holder modifies, in place, the sample its last access returned.
 sched  2-4 logical processes (readers / clearers) whose individual dict operations are interleaved
        deterministically by an explicit schedule: `Manager` in the module under test is replaced by a factory of a
        scheduling dict (values are transported exactly like through the real proxy's connection: multiprocessing's
        ForkingPickler, i.e. torch tensors as shared-memory handles, everything else by value); every dict operation and every access
        of the wrapped dataset is a scheduling point; each logical process runs in its own thread and holds the
        baton only while the schedule says so (explicit hand-over, timeouts everywhere).
 procs  real forked processes hammering the real Manager dict (quick: 4 small cases); the global order is unknown -> the
        spec is checked order-free, and every process records its own atomic steps (proxy operations with result and
        monotonic-clock interval, loads, ...): the harness searches an interleaving of these steps that respects real time
        and under which the model takes exactly these steps; Coq then replays the model on that schedule and compares
        every process' event sequence and the final cache content (linearisability w.r.t. the model).
 loader a REAL torch.utils.data.DataLoader over the cached dataset (num_workers 0 / 1 / 2, batch_size 1-4 / None, several
        epochs each with its own index sequence, dispose between epochs, consumer writes to received batches); the
        collate_fn reports, from inside the fetching process, what the wrapped dataset was asked for during the fetch of
        the batch.  num_workers <= 1 is a sequential history over the holders {main, worker of epoch 0, ...} and is
        checked like "seq" (spec + model); 2 workers like "procs" (order-free spec) + a per-epoch bound on the loads.
 attr   who answers getattr(cached, name) for the names the cache layer uses itself, for names only the wrapped dataset
        has and for the names copy / pickle probe on a blank instance; compared with coq/C19/Attr.v.
In every kind the wrapped dataset is a plain class, a class that also defines __getitems__ or a real torch Subset, and may
carry attributes of its own under the names the cache layer uses (`transform` - applied inside its __getitem__, not
idempotent -, `dataset`, `shared_dict`, `logger`, `dispose`, `_cached_getitem`, `indices`: decoys answering with garbage).
Payloads: 15 fixed types + "graph": random picklable object graphs (dataclasses, frozen dataclasses, classes with __dict__ /
__slots__, namedtuples, namespaces, list / dict subclasses nested in one another, tensors / arrays / scalars at the
leaves); the in-place transform and the consumer write walk the whole returned object graph.
"""
import copy
import itertools
import os
import pickle
import threading

from .common import C, Nat, Raw, Rec, coq

ID = "C19"
COQ_FILES = ["C19/Model.v", "C19/Attr.v", "C19/Graph.v", "C19/Spec.v", "C19/Check.v", "C19/Proofs.v", "C19/ProofsAttr.v",
             "C19/ProofsGraph.v", "C19/Property.v"]
COQ_PRELUDE = ("From Coq Require Import String ZArith List Bool.\nImport ListNotations.\n"
               "From KD Require Import C19.Model C19.Spec C19.Check.\nOpen Scope Z_scope.\n")
COQ_CHECK = "check"
COQ_CASE_TYPE = "case_t"
SHARD = 400
ALLOWED_AXIOMS = []
TRUSTED = [
    "hand-written model coq/C19/Model.v of SharedDictDataset._cached_getitem / dispose and CachedDataset.__getitem__ / "
    "__len__ (repaired code) over an object store (addresses, in-place writes, by-value / by-reference transport); tied to "
    "KD_REPO by this run's correspondence evaluation: complete event logs (loads, clears, returns with the content at return "
    "time and transform call numbers, len, consumer writes) and final dict contents compared",
    "multiprocessing.Manager().dict(): every proxy operation (`in`, `[]`, `[]=`, clear) is atomic; values travel through "
    "ForkingPickler: torch tensors by shared-memory handle (model: byref), everything else by value; exercised against the "
    "real Manager in the seq cases and by real processes (procs cases: a model schedule explaining the per-process step logs "
    "is searched by the harness and checked by Coq)",
    "harness/c19.py: scheduling dict + baton (one logical process runs at a time, a scheduling point before every dict "
    "operation and every wrapped-dataset access), payload encoding/decoding into integer ids, ticket / in-place transforms, "
    "the schedule search of the procs cases (untrusted: its result is re-checked by Coq; a miss shows up as drift)",
    "one integer stands for a whole sample: a sample mixing tensors (by reference) and other parts (by value) is modelled as "
    "by-reference; under the repaired code the transport makes no observable difference (that is the theorem); "
    "coq/C19/Graph.v justifies the abstraction for samples that are arbitrary TREES of containers / objects with tensors at the "
    "leaves (deepcopy_private: no write through a deep copy is visible in any sample that existed before); sharing of one "
    "tensor between two fields of a sample (a DAG) and reference cycles are not modelled and not generated",
    "coq/C19/Attr.v: hand-written model of Python attribute lookup on the cached dataset (instance dict, class bodies, names "
    "of the foreign bases as recorded from the installed torch, then CachedDataset.__getattr__); tied to KD_REPO by the attr "
    "cases: observed vars(cached), observed functions of the kappadata class bodies and the observed answerer of ~35 probed "
    "names (also on a blank instance) are compared with the model",
    "torch.utils.data._utils.fetch._MapDatasetFetcher.fetch (foreign code): uses dataset.__getitems__ if hasattr and truthy, "
    "else [dataset[idx] for idx in batch] (Attr.v fetch_route); exercised through the real DataLoader in the loader cases",
    "loader cases: the loads reported by the collate_fn are attributed to the indices of the batch in order (the fetch of a "
    "batch is sequential); samples are encoded inside the fetching process",
    "an access of the wrapped dataset is one atomic step and has no effect other than producing the sample",
]
ASSUMPTIONS = [
    "the wrapped dataset is a pure function of the index (or raises, e.g. IndexError) and returns a fresh object per access; "
    "payloads can be pickled and deep-copied",
    "indices are hashable and equal indices hash equally (int, np.int64); -1 and n-1 are different cache keys of equal samples",
    "the transform may be stateful/random and may work in place: its k-th call in a process is an arbitrary recorded draw; "
    "it does not raise; consumers may modify the samples they received in place",
    "processes do nothing to the shared dict except through cached[i], dispose() and shared_dict.clear()",
    "the wrapped dataset may define any attributes, also under the names the cache layer uses; it does not override "
    "__getattribute__; DataLoader indices are in range (the wrapped dataset's IndexError would abort the epoch)",
]
RULE = ("seq 24% / sched 58% / real DataLoader 10% (90 with num_workers 0, 12 with 1-2 worker processes; thorough 300 + 100) / "
        "attribute resolution 6% + 4 real-process cases + directed aliasing / falsy-payload / name-collision / object-payload "
        "cases; wrapped dataset: plain / with __getitems__ / torch Subset, carrying a random subset of the names the cache layer "
        "uses (own non-idempotent transform in 50% of those); payloads: 15 fixed types or (35%) a random object graph of depth <= 4; "
        "(thorough: + every schedule over "
        "{reader, reader, clearer} up to length 8 for four program sets, one of them with tensors, in-place transform and a "
        "consumer write + 36 real-process cases); datasets of 0-6 samples of 10 payload types, indices in -n-1..n incl. "
        "repeats, 1-4 holders on 1-2 caches, transform on 80%; schedules of 0-40 steps over 2-4 processes with "
        "programs of 1-4 commands on 1-3 hot indices; non-trivial = seq: a cache hit and a reload after a clear in one "
        "history / sched: a process switch in the middle of an access; distinct by (history) resp. (programs, effective schedule)")

PTYPES = ["int", "str", "tuple", "dict", "ndarray", "tensor", "bytes", "nested", "list", "float",
          "dict_t", "list_t", "nested_t", "tensor_f", "falsy"]
BYREF = {"tuple", "tensor", "dict_t", "list_t", "nested_t", "tensor_f"}   # contain torch tensors: shared-memory transport
GARBAGE = 999          # id code of a payload that does not decode
T_STEP = 20.0          # seconds a logical process / the controller waits for the baton before giving up
TICKETS = 200          # tickets of process p are p*TICKETS + k
N_FALSY = 11


def tf_mode(case):
    """None = no transform, "ticket" = wraps the sample (new object referring to the sample), "inplace" = modifies the
    sample in place and returns it"""
    if "tf" in case:
        return case["tf"]
    return "ticket" if case["has_tf"] else None


# ---------------------------------------------------------------------------
# payloads: built from an integer id, decoded back strictly
# ---------------------------------------------------------------------------
def falsy_table():
    import numpy as np
    import torch
    return [None, 0, "", (), False, torch.empty(0), 0.0, b"", [], {}, np.zeros(0)]


# ---- payload type "graph": an arbitrary picklable object graph described by a shape (JSON lists) ----
#   leaves      ["int"] ["str"] ["float"] ["bytes"] ["none"] ["tensor", dims, "i64"|"f32"] ["ndarray", dims]
#   containers  ["list", s...] ["tuple", s...] ["sublist", s...] ["dict", [key, s]...] ["subdict", [key, s]...]
#   objects     ["nt", s...] namedtuple, ["dc", s...] dataclass, ["fdc", s...] frozen dataclass, ["slots", s...] class with
#               __slots__ (1-3 fields each), ["plain", [attr, s]...] class with __dict__, ["ns", [attr, s]...] SimpleNamespace
# every leaf that can carry a number carries the sample id
import collections as _collections
import dataclasses as _dataclasses
import types as _types

NT1 = _collections.namedtuple("NT1", ["a"])
NT2 = _collections.namedtuple("NT2", ["a", "b"])
NT3 = _collections.namedtuple("NT3", ["a", "b", "c"])


@_dataclasses.dataclass
class DC1:
    a: object


@_dataclasses.dataclass
class DC2:
    a: object
    b: object


@_dataclasses.dataclass
class DC3:
    a: object
    b: object
    c: object


@_dataclasses.dataclass(frozen=True)
class FDC1:
    a: object


@_dataclasses.dataclass(frozen=True)
class FDC2:
    a: object
    b: object


@_dataclasses.dataclass(frozen=True)
class FDC3:
    a: object
    b: object
    c: object


class Slots1:
    __slots__ = ("a",)

    def __init__(self, a):
        self.a = a


class Slots2:
    __slots__ = ("a", "b")

    def __init__(self, a, b):
        self.a, self.b = a, b


class Slots3(Slots2):                 # slots spread over the MRO
    __slots__ = ("c",)

    def __init__(self, a, b, c):
        Slots2.__init__(self, a, b)
        self.c = c


class Plain:
    """a sample class with a __dict__ (attribute container)"""


class SubList(list):
    pass


class SubDict(dict):
    pass


G_FIELDS = ("a", "b", "c")
G_CLASSES = {"nt": (NT1, NT2, NT3), "dc": (DC1, DC2, DC3), "fdc": (FDC1, FDC2, FDC3), "slots": (Slots1, Slots2, Slots3)}
G_SEQ = {"list": list, "tuple": tuple, "sublist": SubList}
G_MAP = {"dict": dict, "subdict": SubDict}
G_ATTR = {"plain": Plain, "ns": _types.SimpleNamespace}


def g_build(s, k):
    import numpy as np
    import torch
    t = s[0]
    if t == "int":
        return k
    if t == "str":
        return "s%d" % k
    if t == "float":
        return k + 0.5
    if t == "bytes":
        return b"b%d" % k
    if t == "none":
        return None
    if t == "tensor":
        return torch.full(tuple(s[1]), k, dtype=torch.int64) if s[2] == "i64" else torch.full(tuple(s[1]), float(k), dtype=torch.float32)
    if t == "ndarray":
        return np.full(tuple(s[1]), k, dtype=np.int64)
    if t in G_SEQ:
        return G_SEQ[t](g_build(x, k) for x in s[1:])
    if t in G_MAP:
        return G_MAP[t]((key, g_build(x, k)) for key, x in s[1:])
    if t in G_CLASSES:
        return G_CLASSES[t][len(s) - 2](*[g_build(x, k) for x in s[1:]])
    if t in G_ATTR:
        o = G_ATTR[t]()
        for name, x in s[1:]:
            setattr(o, name, g_build(x, k))
        return o
    raise ValueError(s)


def _g_ids(s, o, out):
    """strict structural comparison of o with shape s; appends the id every leaf carries; False = o is not such a payload"""
    import numpy as np
    import torch
    t = s[0]
    if t == "int":
        if type(o) is not int:
            return False
        out.append(o)
        return True
    if t == "str":
        if type(o) is not str or o[:1] != "s":
            return False
        out.append(int(o[1:]))
        return True
    if t == "float":
        if type(o) is not float or o - 0.5 != int(o - 0.5):
            return False
        out.append(int(o - 0.5))
        return True
    if t == "bytes":
        if type(o) is not bytes or o[:1] != b"b":
            return False
        out.append(int(o[1:]))
        return True
    if t == "none":
        return o is None
    if t == "tensor":
        if not (torch.is_tensor(o) and list(o.shape) == list(s[1]) and o.dtype == (torch.int64 if s[2] == "i64" else torch.float32)):
            return False
        if o.numel():
            v = o.reshape(-1)[0].item()
            if not bool((o == v).all()) or v != int(v):
                return False
            out.append(int(v))
        return True
    if t == "ndarray":
        if not (isinstance(o, np.ndarray) and list(o.shape) == list(s[1]) and o.dtype == np.int64):
            return False
        if o.size:
            v = int(o.reshape(-1)[0])
            if not (o == v).all():
                return False
            out.append(v)
        return True
    if t in G_SEQ:
        return type(o) is G_SEQ[t] and len(o) == len(s) - 1 and all(_g_ids(x, y, out) for x, y in zip(s[1:], o))
    if t in G_MAP:
        return (type(o) is G_MAP[t] and list(o.keys()) == [key for key, _ in s[1:]]
                and all(_g_ids(x, o[key], out) for key, x in s[1:]))
    if t in G_CLASSES:
        if type(o) is not G_CLASSES[t][len(s) - 2]:
            return False
        return all(_g_ids(x, getattr(o, f), out) for x, f in zip(s[1:], G_FIELDS))
    if t in G_ATTR:
        if type(o) is not G_ATTR[t] or list(vars(o)) != [name for name, _ in s[1:]]:
            return False
        return all(_g_ids(x, getattr(o, name), out) for name, x in s[1:])
    return False


def g_decode(s, o):
    out = []
    if not _g_ids(s, o, out) or not out or any(v != out[0] for v in out):
        return None
    return out[0]


def g_has_tensor(s):
    if s[0] == "tensor":
        return True
    if s[0] in G_MAP or s[0] in G_ATTR:
        return any(g_has_tensor(x) for _, x in s[1:])
    if s[0] in G_SEQ or s[0] in G_CLASSES:
        return any(g_has_tensor(x) for x in s[1:])
    return False


def g_carries_id(s):
    import math
    if s[0] in ("int", "str", "float", "bytes"):
        return True
    if s[0] in ("tensor", "ndarray"):
        return math.prod(s[1]) > 0
    if s[0] == "none":
        return False
    if s[0] in G_MAP or s[0] in G_ATTR:
        return any(g_carries_id(x) for _, x in s[1:])
    return any(g_carries_id(x) for x in s[1:])


def g_kinds(s, out=None):
    out = set() if out is None else out
    out.add(s[0])
    for x in s[1:]:
        if s[0] in G_MAP or s[0] in G_ATTR:
            g_kinds(x[1], out)
        elif s[0] in G_SEQ or s[0] in G_CLASSES:
            g_kinds(x, out)
    return out


def pspec(case):
    """what make_payload / payload_id need: the name of a fixed payload type or the shape of a graph payload"""
    return case["shape"] if case["ptype"] == "graph" else case["ptype"]


def is_byref(case):
    """the payload contains torch tensors: the Manager connection ships those as shared-memory handles"""
    return g_has_tensor(case["shape"]) if case["ptype"] == "graph" else case["ptype"] in BYREF


def make_payload(ptype, k):
    """a FRESH object on every call"""
    import numpy as np
    import torch
    if not isinstance(ptype, str):
        return g_build(ptype, k)
    if ptype == "int":
        return k
    if ptype == "str":
        return "s%d" % k
    if ptype == "tuple":
        return (torch.tensor([k, k + 1]), k)
    if ptype == "dict":
        return {"x": k, "meta": [k, "a"]}
    if ptype == "ndarray":
        return np.full((2, 2), k, dtype=np.int64)
    if ptype == "tensor":
        return torch.arange(3) + k
    if ptype == "tensor_f":
        return torch.full((2, 2), float(k), dtype=torch.float32)
    if ptype == "bytes":
        return b"b%d" % k
    if ptype == "nested":
        return ((k,), {"k": (k, None)})
    if ptype == "list":
        return [k, [k, k]]
    if ptype == "float":
        return k + 0.5
    if ptype == "dict_t":
        return {"x": torch.tensor([k, k]), "y": k}
    if ptype == "list_t":
        return [torch.tensor(k), np.array([k, k], dtype=np.int64)]
    if ptype == "nested_t":
        return ((torch.tensor([k]),), {"k": [torch.tensor([[k]]), None]})
    if ptype == "falsy":
        return falsy_table()[k]
    raise ValueError(ptype)


def payload_id(ptype, o):
    """the id a payload was built from, None if it is not exactly such a payload"""
    import numpy as np
    import torch

    def tens(t, shape):
        return torch.is_tensor(t) and tuple(t.shape) == shape and t.dtype == torch.int64

    try:
        if not isinstance(ptype, str):
            return g_decode(ptype, o)
        if ptype == "int":
            return o if type(o) is int else None
        if ptype == "str":
            return int(o[1:]) if type(o) is str and o[:1] == "s" else None
        if ptype == "tuple":
            if type(o) is tuple and len(o) == 2 and tens(o[0], (2,)) and type(o[1]) is int:
                k = int(o[0][0])
                return k if int(o[0][1]) == k + 1 and o[1] == k else None
            return None
        if ptype == "dict":
            if type(o) is dict and set(o) == {"x", "meta"} and type(o["x"]) is int and o["meta"] == [o["x"], "a"]:
                return o["x"]
            return None
        if ptype == "ndarray":
            if isinstance(o, np.ndarray) and o.shape == (2, 2) and o.dtype == np.int64 and (o == o[0, 0]).all():
                return int(o[0, 0])
            return None
        if ptype == "tensor":
            if tens(o, (3,)):
                k = int(o[0])
                return k if o.tolist() == [k, k + 1, k + 2] else None
            return None
        if ptype == "tensor_f":
            if torch.is_tensor(o) and tuple(o.shape) == (2, 2) and o.dtype == torch.float32 and bool((o == o[0, 0]).all()):
                k = float(o[0, 0])
                return int(k) if k == int(k) else None
            return None
        if ptype == "bytes":
            return int(o[1:]) if type(o) is bytes and o[:1] == b"b" else None
        if ptype == "nested":
            if type(o) is tuple and len(o) == 2 and type(o[0]) is tuple and len(o[0]) == 1 and type(o[0][0]) is int:
                k = o[0][0]
                return k if o[1] == {"k": (k, None)} else None
            return None
        if ptype == "list":
            if type(o) is list and len(o) == 2 and type(o[0]) is int and o[1] == [o[0], o[0]]:
                return o[0]
            return None
        if ptype == "float":
            return int(o - 0.5) if type(o) is float and o - 0.5 == int(o - 0.5) else None
        if ptype == "dict_t":
            if type(o) is dict and set(o) == {"x", "y"} and tens(o["x"], (2,)) and type(o["y"]) is int:
                return o["y"] if o["x"].tolist() == [o["y"], o["y"]] else None
            return None
        if ptype == "list_t":
            if (type(o) is list and len(o) == 2 and tens(o[0], ()) and isinstance(o[1], np.ndarray)
                    and o[1].dtype == np.int64 and o[1].shape == (2,)):
                k = int(o[0])
                return k if o[1].tolist() == [k, k] else None
            return None
        if ptype == "nested_t":
            if (type(o) is tuple and len(o) == 2 and type(o[0]) is tuple and len(o[0]) == 1 and tens(o[0][0], (1,))
                    and type(o[1]) is dict and set(o[1]) == {"k"} and type(o[1]["k"]) is list and len(o[1]["k"]) == 2
                    and tens(o[1]["k"][0], (1, 1)) and o[1]["k"][1] is None):
                k = int(o[0][0][0])
                return k if int(o[1]["k"][0][0, 0]) == k else None
            return None
        if ptype == "falsy":
            for k, f in enumerate(falsy_table()):
                if type(o) is not type(f):
                    continue
                if torch.is_tensor(f) or isinstance(f, np.ndarray):
                    if tuple(o.shape) == tuple(f.shape) and o.dtype == f.dtype:
                        return k
                elif o == f:
                    return k
            return None
    except Exception:
        return None
    return None


def id_code(ptype, o):
    k = payload_id(ptype, o)
    return GARBAGE if k is None or not (0 <= k < GARBAGE) else k


def _slot_names(o):
    return [n for klass in reversed(type(o).__mro__) for n in
            ((klass.__dict__.get("__slots__"),) if isinstance(klass.__dict__.get("__slots__"), str)
             else klass.__dict__.get("__slots__", ()))
            if n not in ("__dict__", "__weakref__")]


def mutate(o, delta):
    """generic walker over an object graph: add delta to every number found ANYWHERE inside o, IN PLACE wherever the
    object allows it (tensors, arrays, lists, dicts, attributes of objects with __dict__ / __slots__); immutable parts
    (tuples, namedtuples, frozen dataclasses, numbers, strings) are rebuilt - the tensors / arrays inside them are still
    modified in place.  Returns the (same, if mutable) object."""
    import re
    import numpy as np
    import torch
    if torch.is_tensor(o):
        return o.add_(delta) if o.numel() else o
    if isinstance(o, np.ndarray):
        o += delta
        return o
    if isinstance(o, list):
        for j in range(len(o)):
            o[j] = mutate(o[j], delta)
        return o
    if isinstance(o, dict):
        for key in list(o):
            o[key] = mutate(o[key], delta)
        return o
    if isinstance(o, tuple):
        items = [mutate(x, delta) for x in o]
        return type(o)(*items) if hasattr(o, "_fields") else type(o)(items)
    if type(o) is bool or o is None:
        return o
    if type(o) is int:
        return o + delta
    if type(o) is float:
        return o + delta
    if type(o) is str and re.fullmatch(r"s\d+", o):
        return "s%d" % (int(o[1:]) + delta)
    if type(o) is bytes and re.fullmatch(rb"b\d+", o):
        return b"b%d" % (int(o[1:]) + delta)
    if isinstance(o, (str, bytes, type, _types.FunctionType)):
        return o
    names = (list(vars(o)) if hasattr(o, "__dict__") else []) + [n for n in _slot_names(o) if hasattr(o, n)]
    if names:
        new = {n: mutate(getattr(o, n), delta) for n in names}
        try:
            for n, v in new.items():
                setattr(o, n, v)
        except (AttributeError, TypeError):            # frozen: rebuild (what is mutable inside was modified in place)
            if _dataclasses.is_dataclass(o):
                return _dataclasses.replace(o, **new)
    return o


def result_code(ptype, mode, r):
    """integer code of what cached[i] returned, computed at the moment it returns: 1000*(ticket+1) + id with a
    transform (the in-place transform adds 1000*(ticket+1) to every number of the sample), id without"""
    if mode == "ticket":
        if type(r) is tuple and len(r) == 3 and r[0] == "T" and type(r[1]) is int and r[1] >= 0:
            return 1000 * (r[1] + 1) + id_code(ptype, r[2])
        return -1
    k = payload_id(ptype, r)
    return -1 if k is None or k < 0 else k


class Ticket:
    """post-cache transform: wraps the sample together with a fresh ticket (stateful like an augmentation)"""
    inplace = False

    def __init__(self, pid):
        self.pid = pid
        self.issued = []

    def __call__(self, sample):
        t = self.pid * TICKETS + len(self.issued)
        self.issued.append(t)
        return ("T", t, sample)


class InplaceTicket(Ticket):
    """post-cache transform that works in place (like x.sub_(mean).div_(std)): adds 1000*(ticket+1)"""
    inplace = True

    def __call__(self, sample):
        t = self.pid * TICKETS + len(self.issued)
        self.issued.append(t)
        return mutate(sample, 1000 * (t + 1))


def make_tf(mode, pid):
    return None if mode is None else Ticket(pid) if mode == "ticket" else InplaceTicket(pid)


# ---------------------------------------------------------------------------
# the wrapped dataset
# ---------------------------------------------------------------------------
# case["base"] = {"shape": ..., "attrs": [...], "bd": d} (absent = plain CountingBase without extra attributes)
#   shape  "plain"     a class with __getitem__ / __len__
#          "getitems"  ... that also defines __getitems__ (batched fetch, torch >= 2.1 protocol)
#          "subset"    a torch.utils.data.Subset (defines __getitems__, carries `dataset` and `indices`) over a permuted inner dataset
#   attrs  attributes the wrapped dataset carries under names the cache layer uses itself (CACHE_NAMES):
#          "transform" = torchvision style: the wrapped dataset applies its own, NOT idempotent transform (adds bd to every
#          number) inside its __getitem__ and exposes it as attribute; all others are decoys that answer with garbage
CACHE_INST = ["logger", "dataset", "transform", "shared_dict"]
CACHE_CLS = ["__init__", "__getitem__", "__getitems__", "__len__", "__getattr__", "_cached_getitem", "dispose"]
COLLIDE = ["transform", "dataset", "shared_dict", "logger", "dispose", "_cached_getitem", "indices"]
BASE_SHAPES = ["plain", "getitems", "subset"]


class AddT:
    """the wrapped dataset's own transform (like the `transform` of a torchvision dataset): not idempotent"""

    def __init__(self, d):
        self.d = d

    def __call__(self, sample):
        return mutate(sample, self.d)


class Decoy:
    """value of an attribute of the wrapped dataset whose name collides with a name of the cache layer: whoever uses it
    instead of the cache layer's own gets garbage"""

    def __init__(self, name):
        self.name = name

    def __getitem__(self, i):
        return "DECOY"

    def __len__(self):
        return 77

    def __contains__(self, k):
        return True

    def __call__(self, *a, **kw):
        return "DECOY"

    def __setitem__(self, k, v):
        pass

    def clear(self):
        pass


class _Counting:
    """every access of the wrapped dataset is logged (and is a scheduling point)"""

    def _init_counting(self, log, pid, baton, steps):
        self.log, self.pid, self.baton, self.steps = log, pid, baton, steps

    def _counted(self, idx, fetch):
        import time
        if self.baton is not None:
            self.baton.point(self.pid)
        t0 = time.monotonic_ns()
        self.log.append(["L", self.pid, int(idx)])
        try:
            o = fetch(idx)
        except IndexError:
            if self.steps is not None:
                self.steps.append(["load", int(idx), False, t0, time.monotonic_ns()])
            raise
        if self.steps is not None:
            self.steps.append(["load", int(idx), True, t0, time.monotonic_ns()])
        return o


class SilentBase:
    """position -> payload id; a FRESH payload object is built on every access; `ids` are the ids of the samples the
    dataset RETURNS: with an own transform (adds d) the raw sample has id - d"""

    def __init__(self, ptype, ids, own_tf=None):
        self.ptype = ptype
        self.ids = list(ids)
        if own_tf is not None:
            self.transform = own_tf

    def __len__(self):
        return len(self.ids)

    def _build(self, idx):
        k = self.ids[idx]
        tf = self.__dict__.get("transform")
        if not isinstance(tf, AddT):
            return make_payload(self.ptype, k)
        return tf(make_payload(self.ptype, k - tf.d))

    def __getitem__(self, idx):
        return self._build(idx)


class CountingBase(SilentBase, _Counting):
    """the wrapped dataset (shape "plain")"""

    def __init__(self, ptype, ids, log, pid, baton=None, steps=None, own_tf=None):
        SilentBase.__init__(self, ptype, ids, own_tf)
        self._init_counting(log, pid, baton, steps)

    def __getitem__(self, idx):
        return self._counted(idx, self._build)


class CountingBaseBatched(CountingBase):
    """shape "getitems": the wrapped dataset offers batched fetching"""

    def __getitems__(self, indices):
        return [self._counted(idx, self._build) for idx in indices]


def _counting_subset_class():
    from torch.utils.data import Subset

    global CountingSubset
    if "CountingSubset" in globals():
        return CountingSubset

    class CountingSubset(Subset, _Counting):
        """shape "subset": a real torch Subset (attributes `dataset`, `indices`, method __getitems__)"""

        def __getitem__(self, idx):
            return self._counted(idx, lambda i: Subset.__getitem__(self, i))

        def __getitems__(self, indices):
            return [self._counted(idx, lambda i: Subset.__getitem__(self, i)) for idx in indices]

    CountingSubset.__qualname__ = "CountingSubset"
    return CountingSubset


def base_spec(case):
    b = case.get("base") or {}
    return b.get("shape", "plain"), list(b.get("attrs", [])), b.get("bd", 0)


def make_base(case, log, pid, baton=None, steps=None):
    """the dataset handed to SharedDictDataset"""
    ptype, ids = pspec(case), case["ids"]
    shape, attrs, bd = base_spec(case)
    own_tf = AddT(bd) if "transform" in attrs else None
    if shape == "subset":
        n = len(ids)
        perm = [(3 * j + 1) % n for j in range(n)] if n % 3 else list(range(n))[::-1]     # outer position j -> inner position
        inner_ids = [0] * n
        for j, q in enumerate(perm):
            inner_ids[q] = ids[j]
        base = _counting_subset_class()(SilentBase(ptype, inner_ids, own_tf), perm)
        base._init_counting(log, pid, baton, steps)
        if own_tf is not None:
            base.transform = own_tf
    else:
        base = (CountingBaseBatched if shape == "getitems" else CountingBase)(ptype, ids, log, pid, baton, steps, own_tf)
    for name in attrs:
        if name == "transform" or (shape == "subset" and name in ("dataset", "indices")):
            continue
        setattr(base, name, [0, 0, 0] if name == "indices" else Decoy(name))
    return base


def rebind(ds, name, value):
    """give a copy of a cached dataset (another holder of the same cache) its own wrapped dataset / transform object:
    replaces the attribute the constructor created.  An attribute the constructor did not create is not invented
    (unless there is a value to put there): the copy stays a copy of what the constructor built."""
    if name in vars(ds) or value is not None:
        setattr(ds, name, value)


# ---------------------------------------------------------------------------
# one command of one holder on the real object
# ---------------------------------------------------------------------------
class Holder:
    """what the harness keeps per holder / process: ptype + transform mode (to encode results when they are returned),
    the sample of the last successful access (for "mut")"""

    def __init__(self, ptype, mode):
        self.ptype, self.mode = ptype, mode
        self.last = None
        self.has_last = False


def do_op(log, p, ds, op, nret, hold, baton=None, steps=None):
    import time
    import numpy as np
    name = op[0]
    if name == "get":
        i = op[1]
        idx = np.int64(i) if len(op) > 2 and op[2] == "np" else i
        k = nret[p]
        try:
            r = ds[idx]
        except KeyError:
            log.append(["R", p, i, k, "KeyError"])
            return
        except IndexError:
            log.append(["R", p, i, k, "BaseError"])
            return
        except Abort:
            raise
        except Exception as e:  # anything else is not transparent
            log.append(["R", p, i, k, "X:" + type(e).__name__])
            return
        nret[p] += 1
        log.append(["R", p, i, k, ["V", result_code(hold.ptype, hold.mode, r)]])   # encoded NOW: later writes must not show
        hold.last, hold.has_last = r, True
    elif name == "dispose":
        ds.dispose()
        log.append(["C", p])
    elif name == "clear":
        ds.shared_dict.clear()
        log.append(["C", p])
    elif name == "len":
        if baton is not None:
            baton.point(p)
        t0 = time.monotonic_ns()
        log.append(["N", p, len(ds)])
        if steps is not None:
            steps.append(["len", None, None, t0, time.monotonic_ns()])
    elif name == "mut":
        # the consumer modifies, in place, everything reachable from what its last access returned
        if baton is not None:
            baton.point(p)
        t0 = time.monotonic_ns()
        if hold.has_last:
            r = hold.last
            hold.last = mutate(r[2] if hold.mode == "ticket" else r, op[1])
            if hold.mode == "ticket":
                hold.last = ("T", r[1], hold.last)
        log.append(["M", p])
        if steps is not None:
            steps.append(["mut", None, None, t0, time.monotonic_ns()])
    else:
        raise ValueError(name)


def finish_log(log):
    return [list(e) for e in log]


def dict_content(ptype, d):
    out = []
    for k, v in d.items():
        try:
            kk = int(k)
        except Exception:
            kk = 99999
        out.append([kk, id_code(ptype, v)])
    return sorted(out)


# ---------------------------------------------------------------------------
# kind "seq": the real Manager dict
# ---------------------------------------------------------------------------
_SHARED_MANAGER = []


def shared_manager():
    """one real multiprocessing Manager server for the whole run (starting one per dataset costs ~0.3 s); cases with
    own_manager=True go through the untouched `Manager()` of the module under test"""
    if not _SHARED_MANAGER:
        import atexit
        from multiprocessing import Manager
        m = Manager()
        _SHARED_MANAGER.append(m)
        atexit.register(m.shutdown)
    return _SHARED_MANAGER[0]


def run_seq(case):
    import kappadata.caching.shared_dict_dataset as mod
    ptype, mode = pspec(case), tf_mode(case)
    log = []
    firsts = {}
    handles = []
    tfs = []
    own = case.get("own_manager", False)
    real_manager = mod.Manager
    if not own:
        mod.Manager = shared_manager
    try:
        for p, (c, how) in enumerate(zip(case["handles"], case["how"])):
            base = make_base(case, log, p)
            tf = make_tf(mode, p)
            if c not in firsts:
                ds = (mod.SharedDictDataset(base, transform=tf) if tf is not None or how == "kw"
                      else mod.SharedDictDataset(base))
                firsts[c] = ds
            else:
                orig = firsts[c]
                ds = pickle.loads(pickle.dumps(orig)) if how == "pickle" else copy.copy(orig)
                rebind(ds, "dataset", base)
                rebind(ds, "transform", tf)
            handles.append(ds)
            tfs.append(tf)
        nret = [0] * len(handles)
        holds = [Holder(ptype, mode) for _ in handles]
        for op in case["hist"]:
            do_op(log, op[0], handles[op[0]], op[1:], nret, holds[op[0]])
        dicts = [dict_content(ptype, firsts[c].shared_dict.copy()) for c in sorted(firsts)]
    finally:
        mod.Manager = real_manager
        handles.clear()
        if own:
            for ds in firsts.values():
                try:
                    ds.shared_dict._manager.shutdown()
                except Exception:
                    pass
    return {"log": finish_log(log), "dicts": dicts, "draws": [tf.issued if tf else [] for tf in tfs]}


# ---------------------------------------------------------------------------
# kind "sched": scheduling dict + baton
# ---------------------------------------------------------------------------
class Abort(BaseException):
    """unwinds a logical process that the schedule left unfinished"""


class HarnessHang(Exception):
    pass


def _locked():
    lk = threading.Lock()
    lk.acquire()
    return lk


def _signal(lk):
    try:
        lk.release()
    except RuntimeError:       # already signalled (only happens while aborting)
        pass


class Baton:
    """strict hand-over: `turn[p]` is signalled by the controller, `back` by the logical process that ran"""

    def __init__(self, n):
        self.n = n
        self.turn = [_locked() for _ in range(n)]
        self.back = _locked()
        self.done = [False] * n
        self.abort = False

    def point(self, p):
        """called by logical process p right before an atomic operation: hand the baton back, wait for the next turn"""
        _signal(self.back)
        if not self.turn[p].acquire(timeout=T_STEP):
            raise Abort()
        if self.abort:
            raise Abort()

    def finished(self, p):
        self.done[p] = True
        _signal(self.back)

    def wait_back(self, what):
        if not self.back.acquire(timeout=T_STEP):
            raise HarnessHang(what)

    def step(self, p):
        """controller: let p perform its pending operation and run up to its next scheduling point"""
        if p >= self.n or self.done[p]:
            return False
        _signal(self.turn[p])
        self.wait_back("process %d did not reach its next scheduling point" % p)
        return True


def xfer(v):
    """one trip through a Manager connection: multiprocessing pickles with ForkingPickler, for which torch registers its
    shared-memory reductions (a tensor arrives as a view of the SAME memory; storing moves the sender's storage into
    shared memory in place); everything else travels by value"""
    from multiprocessing.reduction import ForkingPickler
    return pickle.loads(bytes(ForkingPickler.dumps(v)))


class SchedDict:
    """what logical process `pid` sees of the shared dict: every operation is one scheduling point and one atomic
    operation on the common store (which plays the manager process: it holds the objects as they arrived); values are
    transported like through the Manager proxy's connection (xfer)"""

    def __init__(self, store, baton, pid, ops):
        self._store, self._baton, self._pid, self._ops = store, baton, pid, ops

    def _pt(self, name, key=None):
        self._baton.point(self._pid)
        self._ops.append([self._pid, name, key if isinstance(key, int) else None])

    def __contains__(self, k):
        self._pt("in", k)
        r = k in self._store
        self._ops[-1].append(r)
        return r

    def __getitem__(self, k):
        self._pt("get", k)
        if k not in self._store:
            self._ops[-1].append(False)
            raise KeyError(k)
        self._ops[-1].append(True)
        return xfer(self._store[k])

    def __setitem__(self, k, v):
        self._pt("set", k)
        self._store[k] = xfer(v)

    def __delitem__(self, k):
        self._pt("del", k)
        del self._store[k]

    def __len__(self):
        self._pt("len")
        return len(self._store)

    def clear(self):
        self._pt("clear")
        self._store.clear()

    def get(self, k, default=None):
        self._pt("get?", k)
        return xfer(self._store[k]) if k in self._store else default

    def setdefault(self, k, default=None):
        self._pt("setdefault", k)
        if k not in self._store:
            self._store[k] = xfer(default)
        return xfer(self._store[k])

    def pop(self, k, *default):
        self._pt("pop", k)
        if k in self._store:
            return xfer(self._store.pop(k))
        if default:
            return default[0]
        raise KeyError(k)

    def keys(self):
        self._pt("keys")
        return list(self._store.keys())

    def __iter__(self):
        return iter(self.keys())

    def copy(self):
        self._pt("copy")
        return {k: xfer(v) for k, v in self._store.items()}

    def items(self):
        return list(self.copy().items())

    def values(self):
        return list(self.copy().values())

    def update(self, other):
        self._pt("update")
        for k, v in dict(other).items():
            self._store[k] = xfer(v)


def run_sched(case):
    import kappadata.caching.shared_dict_dataset as mod
    ptype, mode = pspec(case), tf_mode(case)
    progs = case["progs"]
    n = len(progs)
    log, ops, store = [], [], {}
    baton = Baton(n)

    class FakeManager:
        def dict(self):
            return SchedDict(store, baton, 0, ops)

    tfs = [make_tf(mode, p) for p in range(n)]
    real_manager = mod.Manager
    mod.Manager = FakeManager
    try:
        ds0 = mod.SharedDictDataset(make_base(case, log, 0, baton), transform=tfs[0])
    finally:
        mod.Manager = real_manager
    handles = [ds0]
    for p in range(1, n):
        ds = copy.copy(ds0)
        rebind(ds, "dataset", make_base(case, log, p, baton))
        rebind(ds, "transform", tfs[p])
        rebind(ds, "shared_dict", SchedDict(store, baton, p, ops))
        handles.append(ds)
    holds = [Holder(ptype, mode) for _ in range(n)]
    nret = [0] * n
    crashed = []

    def body(p):
        try:
            for op in progs[p]:
                do_op(log, p, handles[p], op, nret, holds[p], baton)
        except Abort:
            pass
        except BaseException as e:  # harness bug
            crashed.append("process %d: %r" % (p, e))
        finally:
            baton.finished(p)

    threads = [threading.Thread(target=body, args=(p,), daemon=True) for p in range(n)]
    effective = []
    hang = None
    try:
        for t in threads:                      # every process runs up to its first scheduling point
            t.start()
            baton.wait_back("process did not start")
        for p in case["sched"]:
            if baton.step(p):
                effective.append(p)
    except HarnessHang as e:
        hang = str(e)
    finally:
        baton.abort = True
        for p in range(n):
            _signal(baton.turn[p])
        for t in threads:
            t.join(timeout=T_STEP)
    if hang or crashed or any(t.is_alive() for t in threads):
        return {"harness_exception": hang or "; ".join(crashed) or "a logical process did not terminate"}
    content = dict_content(ptype, dict(store))
    return {"log": finish_log(log), "dicts": [content], "draws": [tf.issued if tf else [] for tf in tfs],
            "effective": effective, "ops": ops, "finished": [len([e for e in log if e[1] == p and e[0] in "RCNM"]) == len(progs[p])
                                                           for p in range(n)]}


# ---------------------------------------------------------------------------
# kind "procs": real processes on the real Manager dict
# ---------------------------------------------------------------------------
class LogProxy:
    """wraps the REAL Manager dict proxy of one process: forwards every operation and records it as one atomic step
    [name, key, result, t0, t1] with the (system-wide) monotonic clock read right before and right after the round trip"""

    def __init__(self, proxy, steps):
        self._proxy, self._steps = proxy, steps

    def _rec(self, name, key, res, t0):
        import time
        try:
            key = int(key) if key is not None else None
        except Exception:
            key = 99999
        self._steps.append([name, key, res, t0, time.monotonic_ns()])

    def __contains__(self, k):
        import time
        t0 = time.monotonic_ns()
        r = k in self._proxy
        self._rec("in", k, bool(r), t0)
        return r

    def __getitem__(self, k):
        import time
        t0 = time.monotonic_ns()
        try:
            r = self._proxy[k]
        except KeyError:
            self._rec("get", k, False, t0)
            raise
        self._rec("get", k, True, t0)
        return r

    def __setitem__(self, k, v):
        import time
        t0 = time.monotonic_ns()
        self._proxy[k] = v
        self._rec("set", k, None, t0)

    def clear(self):
        import time
        t0 = time.monotonic_ns()
        self._proxy.clear()
        self._rec("clear", None, None, t0)

    def __getattr__(self, name):          # any other dict operation: forwarded, recorded under its own name
        import time
        attr = getattr(self._proxy, name)
        if not callable(attr):
            return attr

        def call(*a, **kw):
            t0 = time.monotonic_ns()
            try:
                return attr(*a, **kw)
            finally:
                self._rec("other:" + name, a[0] if a and isinstance(a[0], int) else None, None, t0)
        return call

    def __len__(self):
        return self.__getattr__("__len__")()

    def __delitem__(self, k):
        return self.__getattr__("__delitem__")(k)

    def __iter__(self):
        return iter(self.__getattr__("keys")())


def _worker(p, ds, blob, case, prog, barrier, q):
    try:
        if blob is not None:
            ds = pickle.loads(blob)
        ptype, mode = pspec(case), tf_mode(case)
        log, steps = [], []
        rebind(ds, "dataset", make_base(case, log, p, steps=steps))
        tf = make_tf(mode, p)
        rebind(ds, "transform", tf)
        rebind(ds, "shared_dict", LogProxy(ds.shared_dict, steps))
        nret = {p: 0}
        hold = Holder(ptype, mode)
        try:
            barrier.wait(timeout=30)
        except Exception:
            pass
        for op in prog:
            do_op(log, p, ds, op, nret, hold, steps=steps)
        q.put((p, finish_log(log), tf.issued if tf else [], steps, None))
    except BaseException as e:
        q.put((p, [], [], [], repr(e)))


def run_procs(case):
    import multiprocessing as mp
    import queue as queue_mod
    from kappadata.caching.shared_dict_dataset import SharedDictDataset
    ptype, mode = pspec(case), tf_mode(case)
    progs = case["progs"]
    n = len(progs)
    ctx = mp.get_context("fork")
    ds = SharedDictDataset(make_base(case, [], 0), transform=make_tf(mode, 0))
    workers = []
    q = ctx.Queue()
    barrier = ctx.Barrier(n)
    got = {}
    err = None
    try:
        blob = pickle.dumps(ds) if case.get("pickled") else None
        for p in range(n):
            w = ctx.Process(target=_worker, args=(p, None if blob else ds, blob, case, progs[p], barrier, q),
                            daemon=True)
            w.start()
            workers.append(w)
        for _ in range(n):
            try:
                p, log, issued, steps, e = q.get(timeout=120)
            except queue_mod.Empty:
                err = "a worker process did not report within 120 s"
                break
            if e:
                err = "worker %d: %s" % (p, e)
            got[p] = (log, issued, steps)
        content = dict_content(ptype, ds.shared_dict.copy()) if err is None else []
    finally:
        for w in workers:
            w.join(timeout=10 if err is None else 0.1)
            if w.is_alive():
                w.terminate()
                w.join(timeout=5)
        try:
            ds.shared_dict._manager.shutdown()
        except Exception:
            pass
    if err:
        return {"harness_exception": err}
    log = [e for p in range(n) for e in got[p][0]]
    steps = [got[p][2] for p in range(n)]
    final_keys = frozenset(k for k, _ in content)
    status, sched, nodes = find_schedule(progs, steps, len(case["ids"]), final_keys, realtime=True)
    realtime = True
    if status == "none":                  # should not happen (the Manager serves requests atomically); be sure it is not the clocks
        status2, sched2, nodes2 = find_schedule(progs, steps, len(case["ids"]), final_keys, realtime=False)
        nodes += nodes2
        if status2 == "found":
            status, sched, realtime = status2, sched2, False
    return {"log": log, "dicts": [content], "draws": [got[p][1] for p in range(n)],
            "lin": status, "lin_realtime": realtime, "lin_nodes": nodes, "sched": sched,
            "nsteps": [len(st) for st in steps],
            "overlaps": _count_overlaps(steps)}


def _count_overlaps(steps):
    """number of proxy operations of different processes whose intervals overlap (the schedule search has a choice there)"""
    evs = sorted((st[3], st[4], p) for p, ss in enumerate(steps) for st in ss if st[0] in ("in", "get", "set", "clear"))
    n = 0
    for a, b in zip(evs, evs[1:]):
        if a[2] != b[2] and b[0] < a[1]:
            n += 1
    return n


# ---------------------------------------------------------------------------
# procs: search a schedule of the model that explains the recorded per-process steps
# ---------------------------------------------------------------------------
def find_schedule(progs, steps, n_ids, final_keys, realtime=True, budget=400000):
    """Mirror of the control flow of coq/C19/Model.v pstep (repaired reader) on the key set only.  The recorded steps of
    process p are (kind, key, result, t0, t1) in program order; a schedule is an interleaving of all recorded steps such
    that (a) the model, run on this interleaving, performs for every process exactly its recorded step kinds/keys,
    (b) every recorded result of `in` / `[]` / load agrees with the model state at that point and the final key set is the
    observed one, (c) realtime: a step that was finished before another one began comes first.  Returns (status, schedule, nodes): "found" / "none" (exhaustive
    search failed) / "mismatch" (a process' recorded steps are not steps the model could ever take: drift) / "budget".
    The result is NOT trusted: Coq replays the model on the schedule and compares events and final cache content."""
    nproc = len(progs)

    def expected_step(p, pcs, ci):
        """(kind, key) the model takes next for process p"""
        pc = pcs[p]
        if pc[0] == "start":
            if ci[p] >= len(progs[p]):
                return None
            op = progs[p][ci[p]]
            if op[0] == "get":
                return ("in", op[1])
            if op[0] in ("dispose", "clear"):
                return ("clear", None)
            return (op[0], None)
        return ({"miss": "load", "set": "set", "hit": "get"}[pc[0]], pc[1])

    def apply(state, p):
        pos, pcs, ci, keys = state
        st = steps[p][pos[p]]
        exp = expected_step(p, pcs, ci)
        if exp is None or exp[0] != st[0] or (exp[1] is not None and exp[1] != st[1]):
            return "mismatch"
        kind, key, res = st[0], st[1], st[2]
        pc, c = pcs[p], ci[p]
        if kind == "in":
            if res != (key in keys):
                return None
            npc, nc = (("hit", key) if res else ("miss", key)), c
        elif kind == "load":
            if res != (-n_ids <= key < n_ids):
                return "mismatch"
            npc, nc = (("set", key), c) if res else (("start",), c + 1)
        elif kind == "set":
            keys = keys | {key}
            npc, nc = ("start",), c + 1
        elif kind == "get":
            if res != (key in keys):
                return None
            npc, nc = (("start",), c + 1) if res else (("miss", key), c)
        elif kind == "clear":
            keys = frozenset()
            npc, nc = ("start",), c + 1
        else:                               # len, mut
            npc, nc = ("start",), c + 1
        return (pos[:p] + (pos[p] + 1,) + pos[p + 1:], pcs[:p] + (npc,) + pcs[p + 1:], ci[:p] + (nc,) + ci[p + 1:], keys)

    def candidates(state):
        pos = state[0]
        pend = [p for p in range(nproc) if pos[p] < len(steps[p])]
        if realtime:
            ok = []
            for p in pend:
                t0 = steps[p][pos[p]][3]
                if all(q == p or steps[q][pos[q]][4] >= t0 for q in pend):
                    ok.append(p)
            pend = ok
        # local steps commute with everything: take one right away
        for p in pend:
            if steps[p][pos[p]][0] in ("load", "len", "mut"):
                return [p]
        return sorted(pend, key=lambda p: steps[p][pos[p]][3])

    total = sum(len(st) for st in steps)
    init = (tuple([0] * nproc), tuple([("start",)] * nproc), tuple([0] * nproc), frozenset())
    stack = [(init, candidates(init), 0)]
    sched = []
    dead = set()
    nodes = 0
    best = []
    while stack:
        state, cands, k = stack.pop()
        if len(sched) == total:
            # every process must also have finished its program
            if not all(state[2][p] == len(progs[p]) and state[1][p] == ("start",) for p in range(nproc)):
                return "mismatch", list(sched), nodes
            if state[3] == final_keys:
                return "found", list(sched), nodes
            dead.add((state[0], state[3]))
            sched.pop()
            continue
        if k >= len(cands):
            dead.add((state[0], state[3]))
            if sched:
                sched.pop()
            continue
        stack.append((state, cands, k + 1))
        p = cands[k]
        nodes += 1
        if nodes > budget:
            return "budget", best, nodes
        nxt = apply(state, p)
        if nxt == "mismatch":
            return "mismatch", list(sched) + [p], nodes
        if nxt is None or (nxt[0], nxt[3]) in dead:
            continue
        sched.append(p)
        if len(sched) > len(best):
            best = list(sched)
        stack.append((nxt, candidates(nxt), 0))
    return "none", best, nodes


# ---------------------------------------------------------------------------
# kind "loader": a real torch DataLoader over the cached dataset
# ---------------------------------------------------------------------------
_LOADER_CTX = {"epoch": 0}      # read in the worker processes (forked at the start of every epoch)


def _worker_id():
    from torch.utils.data import get_worker_info
    wi = get_worker_info()
    return None if wi is None else wi.id


class LoaderTicket:
    """post-cache transform of the loader cases.  A logical process is the main process (num_workers = 0: process 0) or
    one worker process of one epoch (process 1 + epoch * num_workers + worker id; process 0 = the main process, which
    only clears); like Ticket / InplaceTicket the k-th call of a process draws ticket pid * TICKETS + k"""

    def __init__(self, mode, workers):
        self.mode, self.workers = mode, workers
        self.issued = []

    def __call__(self, sample):
        w = _worker_id()
        pid = 0 if w is None else 1 + _LOADER_CTX["epoch"] * self.workers + w
        t = pid * TICKETS + len(self.issued)
        self.issued.append(t)
        return ("T", t, sample) if self.mode == "ticket" else mutate(sample, 1000 * (t + 1))


class LoaderCollate:
    """collate_fn: runs in the process that fetched the batch; reports which worker that was, what the wrapped dataset
    was asked for during the fetch, the tickets the transform drew and the samples (encoded NOW)"""

    def __init__(self, base, tf, ptype, mode, auto, keep):
        self.base, self.tf, self.ptype, self.mode, self.auto, self.keep = base, tf, ptype, mode, auto, keep
        self.seen = 0

    def __call__(self, samples):
        items = list(samples) if self.auto else [samples]
        loads = [e[2] for e in self.base.log]
        del self.base.log[:]
        issued = []
        if self.tf is not None:
            issued = list(self.tf.issued[self.seen:])
            self.seen = len(self.tf.issued)
        w = _worker_id()
        return {"w": -1 if w is None else w, "loads": loads, "issued": issued,
                "codes": [result_code(self.ptype, self.mode, r) for r in items], "samples": items if self.keep else None}


def loader_batches(case):
    bs = case["bs"]
    return [[[i] for i in idxs] if bs is None else [idxs[j:j + bs] for j in range(0, len(idxs), bs)] for idxs in case["epochs"]]


def run_loader(case):
    import kappadata.caching.shared_dict_dataset as mod
    from torch.utils.data import DataLoader
    ptype, mode, w = pspec(case), tf_mode(case), case["workers"]
    own = case.get("own_manager", False)
    base = make_base(case, [], 0)
    tf = None if mode is None else LoaderTicket(mode, w)
    real_manager = mod.Manager
    if not own:
        mod.Manager = shared_manager
    try:
        ds = mod.SharedDictDataset(base, transform=tf) if tf is not None or case.get("how") == "kw" else mod.SharedDictDataset(base)
    finally:
        mod.Manager = real_manager
    nproc = 1 if w == 0 else 1 + len(case["epochs"]) * w
    log, nret, draws = [], [0] * nproc, [[] for _ in range(nproc)]
    progs = [[] for _ in range(nproc)]
    muts = {(e, b): d for e, b, d in case.get("mut", [])}
    collate = LoaderCollate(base, tf, ptype, mode, case["bs"] is not None, w == 0)
    try:
        for e, (idxs, batches) in enumerate(zip(case["epochs"], loader_batches(case))):
            _LOADER_CTX["epoch"] = e
            dl = DataLoader(ds, batch_size=case["bs"], sampler=list(idxs), num_workers=w, collate_fn=collate,
                            **({"multiprocessing_context": "fork"} if w else {}))
            outs = list(dl)
            if len(outs) != len(batches):
                return {"harness_exception": "the DataLoader yielded %d batches for %d" % (len(outs), len(batches))}
            for b, (batch, out) in enumerate(zip(batches, outs)):
                p = 0 if w == 0 else 1 + e * w + out["w"]
                draws[p] += out["issued"]
                loads, li = out["loads"], 0
                codes = out["codes"] + [-1] * (len(batch) - len(out["codes"]))
                # the fetch of a batch is sequential: the loads are attributed to the indices of the batch in order
                for idx, code in zip(batch, codes):
                    if li < len(loads) and loads[li] == idx:
                        log.append(["L", p, idx])
                        li += 1
                    log.append(["R", p, idx, nret[p], ["V", code]])
                    nret[p] += 1
                    progs[p].append(["get", idx])
                for idx in loads[li:]:
                    log.append(["L", p, idx])
                if (e, b) in muts and w == 0:                 # the consumer modifies the batch it received in place
                    for r in out["samples"]:
                        mutate(r[2] if mode == "ticket" else r, muts[(e, b)])
                    log.append(["M", 0])
                    progs[0].append(["mut", muts[(e, b)]])
            if case["clear_after"][e]:
                ds.dispose()
                log.append(["C", 0])
                progs[0].append(["dispose"])
        content = dict_content(ptype, ds.shared_dict.copy())
    finally:
        if own:
            try:
                ds.shared_dict._manager.shutdown()
            except Exception:
                pass
    return {"log": log, "dicts": [content], "draws": draws, "progs": progs, "lin": "budget", "sched": []}


def loader_view(case, obs):
    """a loader case as the sequential history / the per-process programs it amounts to: num_workers <= 1 is sequential
    (one process fetches at a time, the main process clears between epochs) -> a "seq" history over the holders
    {main, worker of epoch 0, worker of epoch 1, ...} of one cache; with more workers the order between the workers of
    an epoch is unknown -> "procs" """
    w = case["workers"]
    if w >= 2:
        return {"kind": "procs", "progs": obs.get("progs", [])}
    muts = {(e, b): d for e, b, d in case.get("mut", [])}
    hist = []
    for e, batches in enumerate(loader_batches(case)):
        p = 0 if w == 0 else 1 + e
        for b, batch in enumerate(batches):
            hist += [[p, "get", i] for i in batch]
            if (e, b) in muts and w == 0:
                hist.append([0, "mut", muts[(e, b)]])
        if case["clear_after"][e]:
            hist.append([0, "dispose"])
    nproc = 1 if w == 0 else 1 + len(case["epochs"])
    return {"kind": "seq", "handles": [0] * nproc, "hist": hist}


def loader_loads_oracle(case, obs):
    """num_workers >= 2: between two clears an index is loaded at least once and at most once per worker of the epoch
    in which it is first fetched, and never in a later epoch"""
    w = case["workers"]
    cached = set()
    for e, idxs in enumerate(case["epochs"]):
        pids = set(range(1 + e * w, 1 + (e + 1) * w))
        loads = {}
        for ev in obs["log"]:
            if ev[0] == "L" and ev[1] in pids:
                loads[ev[2]] = loads.get(ev[2], 0) + 1
        for i in sorted(set(idxs)):
            k = loads.pop(i, 0)
            if i in cached and k:
                return (f"epoch {e}: index {i} was loaded {k} times although it was fetched in an earlier epoch and the "
                        f"cache was not cleared since")
            if i not in cached and not 1 <= k <= w:
                return f"epoch {e}: index {i} (not fetched since the last clear) was loaded {k} times by {w} workers"
        if loads:
            return f"epoch {e}: the wrapped dataset was asked for indices nobody fetched: {loads}"
        cached |= set(idxs)
        if case["clear_after"][e]:
            cached = set()
    return None


# ---------------------------------------------------------------------------
# kind "attr": who answers getattr(cached, name)
# ---------------------------------------------------------------------------
def attr_probes(case):
    return sorted(set(CACHE_INST + CACHE_CLS + COLLIDE + list(case.get("extra", []))
                      + ["__deepcopy__", "__setstate__", "__getstate__", "__iter__", "__add__", "__class__", "__dict__",
                         "__reduce_ex__", "classes", "nope", "__getitems__", "__len__"]))


def _who(obj, base, name):
    """0 = normal lookup on the object answers, 1 = only __getattr__ answers and hands out the wrapped dataset's
    attribute, 2 = AttributeError, 3 = anything else (e.g. RecursionError, a value of unknown origin)"""
    try:
        object.__getattribute__(obj, name)
        return 0
    except AttributeError:
        pass
    try:
        v = getattr(obj, name)
    except AttributeError:
        return 2
    except BaseException:
        return 3
    if base is None:
        return 3
    try:
        bv = getattr(base, name)
    except AttributeError:
        return 3
    return 1 if v is bv or v == bv else 3


def run_attr(case):
    import types
    import kappadata.caching.shared_dict_dataset as mod
    mode = tf_mode(case)
    base = make_base(case, [], 0)
    for name in case.get("extra", []):
        setattr(base, name, Decoy(name))
    tf = make_tf(mode, 0)
    real_manager = mod.Manager
    mod.Manager = shared_manager
    try:
        ds = mod.SharedDictDataset(base, transform=tf) if tf is not None or case.get("how") == "kw" else mod.SharedDictDataset(base)
    finally:
        mod.Manager = real_manager
    probes = attr_probes(case)
    mro = type(ds).__mro__
    mine = [K for K in mro if K.__module__.split(".")[0] == "kappadata"]
    foreign = [K for K in mro if K.__module__.split(".")[0] != "kappadata"]
    cls = sorted({n for K in mine for n, v in vars(K).items() if isinstance(v, types.FunctionType)})
    other_cls = sorted({n for K in mine for n, v in vars(K).items() if not isinstance(v, types.FunctionType)
                        and n in probes})
    inherited = [n for n in probes if any(n in vars(K) for K in foreign)]
    bhas = [n for n in probes if hasattr(base, n)]
    blank = type(ds).__new__(type(ds))

    def same(a, b):
        return a is b

    def owner(name):
        """the cache layer's own method - or nothing at all (never the wrapped dataset's)"""
        try:
            return getattr(getattr(ds, name), "__self__", None) is ds
        except AttributeError:
            return True

    facts = {
        "cached.transform is the constructor's transform": same(getattr(ds, "transform", None), tf),
        "cached.dataset is the wrapped dataset": same(getattr(ds, "dataset", "missing"), base),
        "cached.shared_dict is the Manager dict": type(getattr(ds, "shared_dict", None)).__name__ == "DictProxy",
        "cached.__getitems__ is the cache layer's": owner("__getitems__"),
        "cached.dispose is the cache layer's": owner("dispose"),
        "cached._cached_getitem is the cache layer's": owner("_cached_getitem"),
        "len(cached) == len(wrapped)": len(ds) == len(base),
    }
    return {"inst": sorted(vars(ds)), "cls": cls, "other_cls": other_cls, "inherited": inherited, "bhas": bhas,
            "probes": [[n, _who(ds, base, n)] for n in probes],
            "blank": [[n, _who(blank, None, n)] for n in probes], "facts": facts}


def attr_oracle(case, obs):
    for what, ok in obs["facts"].items():
        if not ok:
            return f"not true: {what} (wrapped dataset: {base_spec(case)}, extra attributes {case.get('extra', [])}, transform {tf_mode(case)})"
    for n, who in obs["probes"]:
        if n in CACHE_INST + CACHE_CLS and who == 1:
            return (f"getattr(cached, {n!r}) is forwarded to the wrapped dataset although the cache layer uses / defines this "
                    f"name itself (wrapped dataset: {base_spec(case)}, transform {tf_mode(case)})")
        if who == 3:
            return f"getattr(cached, {n!r}): neither the cache layer's, nor the wrapped dataset's attribute, nor AttributeError"
    for n, who in obs["blank"]:
        if who in (1, 3):
            return f"getattr of {n!r} on an instance whose __dict__ is still empty (copy / unpickling) does not end in AttributeError"
    return None


def run_impl(case):
    try:
        return _run_impl(case)
    except Exception as e:        # e.g. RecursionError out of copy.copy / pickle.loads / getattr of the cached dataset
        import traceback
        return {"harness_exception": "the cached dataset could not be built / copied / used: " + repr(e)[:300],
                "tb": " | " + " <- ".join(ln.strip() for ln in traceback.format_exc().splitlines()[-7:])[:900]}


def _run_impl(case):
    if case["kind"] == "seq":
        return run_seq(case)
    if case["kind"] == "sched":
        return run_sched(case)
    if case["kind"] == "loader":
        return run_loader(case)
    if case["kind"] == "attr":
        return run_attr(case)
    return run_procs(case)


# ---------------------------------------------------------------------------
# the independent oracle
# ---------------------------------------------------------------------------
def base_id(ids, i):
    n = len(ids)
    return ids[i] if -n <= i < n else None


def op_events_ok(p, op, evs, ids):
    """the events one completed command of p may produce (shape only): get -> [L] R, clear -> C, len -> N"""
    if op[0] == "get":
        i = op[1]
        if len(evs) == 1:
            return evs[0][0] == "R" and evs[0][2] == i
        return len(evs) == 2 and evs[0] == ["L", p, i] and evs[1][0] == "R" and evs[1][2] == i
    if op[0] in ("dispose", "clear"):
        return evs == [["C", p]]
    if op[0] == "mut":
        return evs == [["M", p]]
    return len(evs) == 1 and evs[0][0] == "N"


def oracle(case, obs):
    if "harness_exception" in obs:
        return "harness exception: " + obs["harness_exception"] + obs.get("tb", "")
    if case["kind"] == "attr":
        return attr_oracle(case, obs)
    if case["kind"] == "loader":
        msg = _oracle({**case, **loader_view(case, obs)}, obs)
        if msg is None and case["workers"] >= 2:
            msg = loader_loads_oracle(case, obs)
        return msg and "DataLoader(cached, batch_size=%s, num_workers=%d): %s" % (case["bs"], case["workers"], msg)
    return _oracle(case, obs)


def _oracle(case, obs):
    ids, has_tf, kind = case["ids"], tf_mode(case) is not None, case["kind"]
    log, draws = obs["log"], obs["draws"]
    nproc = len(draws)
    # 1. every access returns transform(base[i]) with a fresh ticket, or the base's own exception
    nret = [0] * nproc
    for e in log:
        if e[0] == "N" and e[2] != len(ids):
            return f"len(cached) = {e[2]} but len(base) = {len(ids)}"
        if e[0] != "R":
            continue
        _, p, i, k, r = e
        want = base_id(ids, i)
        if want is None:
            if r != "BaseError":
                return f"process {p}: cached[{i}] gave {r} but base[{i}] raises IndexError"
            continue
        if isinstance(r, str):
            return f"process {p}: cached[{i}] raised {r} but base[{i}] exists (id {want})"
        if k != nret[p]:
            return f"harness: call number {k} != {nret[p]}"
        if has_tf:
            if k >= len(draws[p]):
                return (f"process {p}: the transform was called {len(draws[p])} times in {k + 1} successful accesses "
                        f"(it must run on every access)")
            exp = 1000 * (draws[p][k] + 1) + want
        else:
            exp = want
        if r[1] != exp:
            return (f"process {p}: access #{k} cached[{i}] returned code {r[1]}, expected {exp} "
                    f"(= transform [{tf_mode(case)}] with ticket {draws[p][k] if has_tf else None} of sample id {want}; "
                    f"payload type {case['ptype']})")
        nret[p] += 1
    for p in range(nproc):
        if has_tf and len(draws[p]) != nret[p]:
            return f"process {p}: transform called {len(draws[p])} times for {nret[p]} successful accesses"
    # 2. the cache holds only samples of the base
    for d in obs["dicts"]:
        for k, v in d:
            if base_id(ids, k) != v:
                return f"cache holds {v} under key {k} but base[{k}] is {base_id(ids, k)}"
    # 3. loads
    if kind == "seq":
        have = {c: set() for c in case["handles"]}
        pos = 0
        for op in case["hist"]:
            p, name = op[0], op[1]
            c = case["handles"][p]
            if name == "get":
                i = op[2]
                if i not in have[c]:
                    if pos >= len(log) or log[pos] != ["L", p, i]:
                        return (f"cached[{i}] (holder {p}, cache {c}) not fetched since the last clear but the base was "
                                f"not asked: next event {log[pos] if pos < len(log) else None}")
                    pos += 1
                if pos >= len(log) or log[pos][:3] != ["R", p, i]:
                    return (f"cached[{i}] (holder {p}): expected its return, got {log[pos] if pos < len(log) else None}"
                            + (" (sample loaded again without a clear)" if pos < len(log) and log[pos][0] == "L" else ""))
                pos += 1
                if base_id(ids, i) is not None:
                    have[c].add(i)
            elif name in ("dispose", "clear"):
                if pos >= len(log) or log[pos] != ["C", p]:
                    return "harness: clear event missing"
                pos += 1
                have[c] = set()
            elif name == "mut":
                if pos >= len(log) or log[pos] != ["M", p]:
                    return "harness: mut event missing"
                pos += 1
            else:
                if pos >= len(log) or log[pos][:2] != ["N", p]:
                    return "harness: len event missing"
                pos += 1
        if pos != len(log):
            return f"unexpected extra event {log[pos]}"
        for c, d in zip(sorted(have), obs["dicts"]):
            if sorted(k for k, _ in d) != sorted(have[c]):
                return f"cache {c} holds keys {sorted(k for k, _ in d)}, accessed since the last clear: {sorted(have[c])}"
    else:
        # per process: its events are the events of its commands in program order
        for p, prog in enumerate(case["progs"]):
            mine = [e for e in log if e[1] == p]
            pos = 0
            for op in prog:
                if pos >= len(mine):
                    break
                take = 2 if mine[pos][0] == "L" else 1
                evs = mine[pos:pos + take]
                if kind == "sched" and take == 2 and len(evs) == 1:
                    pos = len(mine)                         # the schedule ended between load and store
                    break
                if not op_events_ok(p, op, evs, ids):
                    return f"process {p}: command {op} produced {evs}"
                pos += take
            if pos != len(mine):
                return f"process {p}: events beyond its program: {mine[pos:]}"
            if kind == "procs" and len([e for e in mine if e[0] != "L"]) != len(prog):
                return f"process {p} did not finish its program"
        if kind == "sched":
            loaded = set()
            for e in log:
                if e[0] == "L":
                    loaded.add(e[2])
                if e[0] == "R" and not isinstance(e[4], str) and e[2] not in loaded:
                    return f"cached[{e[2]}] returned a value before anyone loaded it"
    return None


# ---------------------------------------------------------------------------
# Coq rendering
# ---------------------------------------------------------------------------
def coq_cmd(op):
    if op[0] == "get":
        return C("CGet", op[1])
    if op[0] == "mut":
        return C("CMut", op[1])
    return Raw("CLen") if op[0] == "len" else Raw("CClear")


def coq_ev(e):
    if e[0] == "L":
        return C("ELoad", Nat(e[1]), e[2])
    if e[0] == "C":
        return C("EClear", Nat(e[1]))
    if e[0] == "N":
        return C("ELen", Nat(e[1]), e[2])
    if e[0] == "M":
        return C("EMut", Nat(e[1]))
    r = e[4]
    res = Raw("RKeyError") if r == "KeyError" else Raw("RBaseError") if r == "BaseError" else C("RVal", r[1])
    return C("ERet", Nat(e[1]), e[2], Nat(e[3]), res)


def coq_applicable(case, obs):
    if "harness_exception" in obs:
        return False
    if case["kind"] == "attr":
        return True
    return not any(e[0] == "R" and isinstance(e[4], str) and e[4].startswith("X:") for e in obs["log"])


ATTR_NONE = dict(c_inst=[], c_cls=[], c_inherited=[], c_bhas=[], c_probes=[], c_blank=[])


def coq_case(case, obs):
    from .common import Str
    if case["kind"] == "attr":
        return coq(Rec(c_kind=Nat(3), c_ids=[], c_has_tf=False, c_byref=False, c_inplace=False, c_draws=[], c_caches=[], c_hist=[],
                       c_progs=[], c_sched=[], c_lin=False, c_log=[], c_dicts=[],
                       c_inst=[Str(n) for n in obs["inst"]], c_cls=[Str(n) for n in obs["cls"]],
                       c_inherited=[Str(n) for n in obs["inherited"] + obs["other_cls"]], c_bhas=[Str(n) for n in obs["bhas"]],
                       c_probes=[(Str(n), Nat(w)) for n, w in obs["probes"]],
                       c_blank=[(Str(n), Nat(w)) for n, w in obs["blank"]]))
    if case["kind"] == "loader":
        case = {**case, **loader_view(case, obs)}
    kind = {"seq": 0, "sched": 1, "procs": 2}[case["kind"]]
    caches, hist, progs, sched = [], [], [], []
    if kind == 0:
        for c in sorted(set(case["handles"])):
            caches.append([Nat(p) for p, cc in enumerate(case["handles"]) if cc == c])
        hist = [(Nat(op[0]), coq_cmd(op[1:])) for op in case["hist"]]
    else:
        progs = [[coq_cmd(op) for op in prog] for prog in case["progs"]]
        sched = [Nat(p) for p in (case.get("sched", []) if kind == 1 else obs.get("sched", []))]
    mode = tf_mode(case)
    return coq(Rec(c_kind=Nat(kind), c_ids=list(case["ids"]), c_has_tf=mode is not None,
                   c_byref=is_byref(case), c_inplace=mode != "ticket",
                   c_draws=[list(d) for d in obs["draws"]], c_caches=caches, c_hist=hist, c_progs=progs,
                   c_sched=sched, c_lin=(kind == 2 and obs.get("lin") != "budget"),
                   c_log=[coq_ev(e) for e in obs["log"]],
                   c_dicts=[[(k, v) for k, v in d] for d in obs["dicts"]], **ATTR_NONE))


# ---------------------------------------------------------------------------
# generation
# ---------------------------------------------------------------------------
def gen_leaf(rng, want_tensor=False):
    r = rng.random()
    if want_tensor or r < 0.45:
        return ["tensor", rng.choice([[], [1], [2], [2, 2], [3], [1, 2, 1], [0]]), rng.choice(["i64", "i64", "f32"])]
    if r < 0.57:
        return ["ndarray", rng.choice([[2], [1, 2], [], [3]])]
    return [rng.choice(["int", "str", "float", "bytes", "none", "int"])]


G_CONTAINERS = ["list", "tuple", "sublist", "dict", "subdict", "nt", "dc", "fdc", "slots", "plain", "ns"]
G_KEYS = ["x", "y", "img", "label", "meta", 0, 1, 7]
G_NAMES = ["x", "y", "img", "pos", "edge_index", "f0", "target"]


def gen_shape(rng, depth=0):
    """a random object graph: containers and objects (dataclasses, classes with __dict__ / __slots__, namedtuples,
    namespaces) nested in one another up to depth 4, tensors / arrays / scalars at the leaves"""
    if depth >= 4 or (depth > 0 and rng.random() < 0.2 + 0.2 * depth):
        return gen_leaf(rng)
    t = rng.choice(G_CONTAINERS + ["dc", "plain", "slots", "nt", "fdc", "ns"])       # objects twice as likely
    n = rng.randint(1, 3)
    kids = [gen_shape(rng, depth + 1) for _ in range(n)]
    if t in G_MAP:
        return [t] + [[k, kid] for k, kid in zip(rng.sample(G_KEYS, n), kids)]
    if t in G_ATTR:
        return [t] + [[k, kid] for k, kid in zip(rng.sample(G_NAMES, n), kids)]
    return [t] + kids


def gen_graph(rng):
    while True:
        s = gen_shape(rng)
        if not g_carries_id(s):
            continue
        if g_has_tensor(s) or rng.random() < 0.2:
            return s


def gen_base(rng, ptype, want_getitems=False):
    """the wrapped dataset: its shape and which names of the cache layer it carries itself"""
    r = rng.random()
    if r < 0.45 and not want_getitems:
        return None
    shape = rng.choice(BASE_SHAPES[1:]) if want_getitems and rng.random() < 0.8 else rng.choice(BASE_SHAPES)
    attrs = [a for a in COLLIDE if rng.random() < (0.5 if a == "transform" else 0.25)]
    if ptype == "falsy" and "transform" in attrs:           # nothing to modify: an own transform would be idempotent
        attrs.remove("transform")
    return {"shape": shape, "attrs": attrs, "bd": rng.randint(1, 49)}


def gen_common(rng, n, want_getitems=False):
    """payload type, post-cache transform, sample ids, wrapped dataset"""
    r = rng.random()
    out = {}
    if r < 0.10:                   # every falsy / sentinel-looking value; nothing to modify in place
        ptype = "falsy"
        ids = [rng.randrange(N_FALSY) for _ in range(n)] if rng.random() < 0.3 else rng.sample(range(N_FALSY), min(n, N_FALSY))
        ids += [rng.randrange(N_FALSY) for _ in range(n - len(ids))]
        if n and rng.random() < 0.5:
            ids[rng.randrange(n)] = 0                   # None itself
        mode = rng.choice([None, None, "ticket"])
    else:
        ptype = "graph" if r < 0.45 else rng.choice(sorted(BYREF)) if r < 0.70 else rng.choice(PTYPES[:-1])
        if ptype == "graph":
            out["shape"] = gen_graph(rng)
        ids = gen_ids(rng, n)
        mode = rng.choice([None, "ticket", "ticket", "inplace", "inplace"])
    base = gen_base(rng, ptype, want_getitems)
    if base is not None:
        out["base"] = base
        if "transform" in base["attrs"]:                # ids are the ids of what the wrapped dataset returns: raw id + bd
            ids = [base["bd"] + k % (900 - base["bd"]) for k in ids]
    out.update({"ptype": ptype, "ids": ids, "has_tf": mode is not None, "tf": mode})
    return out


def gen_mut(rng):
    return ["mut", rng.choice([1000, 5000, 7, 1])]


def gen_ids(rng, n):
    if rng.random() < 0.15 and n:
        pool = rng.sample(range(900), max(1, n - 1))      # a duplicated sample
        return [rng.choice(pool) for _ in range(n)]
    return rng.sample(range(900), n)


def gen_index(rng, n, hot=None):
    r = rng.random()
    if hot and r < 0.6:
        return rng.choice(hot)
    if n and r < 0.85:
        return rng.randrange(-n, n)
    return rng.choice([n, n + 1, -n - 1, 0])


def gen_seq(rng, big=False):
    n = rng.choice([0, 1, 2, 3, 3, 4, 5, 6] + ([9, 12] if big else []))
    nh = rng.choice([1, 1, 2, 2, 3, 4])
    ncache = 1 if nh == 1 or rng.random() < 0.6 else 2
    handles = [0] + [rng.randrange(ncache) for _ in range(nh - 1)]
    if ncache == 2 and 1 not in handles:
        handles[-1] = 1
    how = [rng.choice(["kw", "plain"])] + [rng.choice(["copy", "pickle"]) for _ in range(nh - 1)]
    hot = [gen_index(rng, n) for _ in range(rng.randint(1, 3))]
    hist = []
    for _ in range(rng.randint(1, 30 if big else 14)):
        p = rng.randrange(nh)
        r = rng.random()
        if r < 0.70:
            op = [p, "get", gen_index(rng, n, hot)]
            if rng.random() < 0.15:
                op.append("np")
            hist.append(op)
            if rng.random() < 0.25:
                hist.append([p] + gen_mut(rng))           # the consumer writes to what it got
            if rng.random() < 0.3:
                hist.append(list(op))                     # repeated get
        elif r < 0.78:
            hist.append([p, "dispose"])
        elif r < 0.84:
            hist.append([p, "clear"])
        elif r < 0.92:
            hist.append([p] + gen_mut(rng))
        else:
            hist.append([p, "len"])
    return {"kind": "seq", **gen_common(rng, n),
            "handles": handles, "how": how, "hist": hist, "own_manager": rng.random() < 0.1}


def gen_prog(rng, n, hot, role):
    prog = []
    for _ in range(rng.randint(1, 4)):
        r = rng.random()
        if role == "clearer":
            prog.append(["dispose"] if r < 0.7 else ["clear"] if r < 0.85 else ["get", rng.choice(hot)])
        else:
            prog.append(["get", rng.choice(hot)] if r < 0.7 else gen_mut(rng) if r < 0.82 else ["dispose"] if r < 0.9
                        else ["len"] if r < 0.95 else ["get", gen_index(rng, n)])
    return prog


def gen_sched(rng, big=False):
    n = rng.choice([1, 2, 3, 4, 5])
    np_ = rng.choice([2, 2, 3, 3, 4])
    hot = [gen_index(rng, n) for _ in range(rng.randint(1, 3))]
    roles = ["reader"] + [rng.choice(["reader", "reader", "clearer"]) for _ in range(np_ - 1)]
    progs = [gen_prog(rng, n, hot, r) for r in roles]
    total = sum(4 * len(p) for p in progs)
    style = rng.random()
    if style < 0.6:       # uniformly random
        sched = [rng.randrange(np_ + (1 if rng.random() < 0.1 else 0)) for _ in range(rng.randint(0, total + 6))]
    elif style < 0.85:    # bursts: one process runs a few steps, then another
        sched = []
        while len(sched) < total:
            sched += [rng.randrange(np_)] * rng.randint(1, 4)
    else:                 # one step each in turn
        sched = [k % np_ for k in range(rng.randint(0, total + 4))]
    if rng.random() < 0.5:
        sched += [p for p in range(np_) for _ in range(4 * len(progs[p]))]   # let everybody finish
    return {"kind": "sched", **gen_common(rng, n), "progs": progs, "sched": sched}


def directed_sched():
    """the schedules around the repaired defect: membership test, somebody clears, lookup"""
    out = []
    for ptype, has_tf in (("int", True), ("tuple", False)):
        base = {"kind": "sched", "ptype": ptype, "ids": [11, 22, 33, 44], "has_tf": has_tf}
        out.append({**base, "progs": [[["get", 3], ["get", 3]], [["dispose"]]], "sched": [0, 0, 0, 0, 1, 0, 0, 0]})
        out.append({**base, "progs": [[["get", 3]], [["get", 3]], [["clear"]]], "sched": [0, 0, 0, 1, 2, 1, 1, 1]})
        out.append({**base, "progs": [[["get", -1], ["get", -1]], [["dispose"], ["get", -1]]],
                    "sched": [0, 0, 0, 0, 1, 1, 0, 1, 0, 1, 0]})
    return out


def directed_alias():
    """accesses repeated by one holder / spread over holders with an in-place transform or a consumer write in between:
    what is handed out must never be the cached object itself"""
    out = []
    for ptype in ("tensor", "tuple", "nested_t", "ndarray", "list", "dict_t"):
        for mode in ("inplace", None, "ticket"):
            out.append({"kind": "seq", "ptype": ptype, "ids": [3, 4, 5], "has_tf": mode is not None, "tf": mode,
                        "handles": [0, 0], "how": ["kw", "pickle"], "own_manager": False,
                        "hist": [[0, "get", 1], [0, "mut", 1000], [0, "get", 1], [1, "get", 1], [1, "mut", 7], [0, "get", 1],
                                 [1, "get", 2], [1, "get", 2]]})
            out.append({"kind": "sched", "ptype": ptype, "ids": [3, 4, 5], "has_tf": mode is not None, "tf": mode,
                        "progs": [[["get", 1], ["mut", 5000], ["get", 1]], [["get", 1], ["get", 1]]],
                        "sched": [0, 0, 0, 1, 1, 0, 1, 1, 0, 0]})
    return out


def directed_falsy():
    out = []
    for mode in (None, "ticket"):
        out.append({"kind": "seq", "ptype": "falsy", "ids": list(range(N_FALSY)), "has_tf": mode is not None, "tf": mode,
                    "handles": [0, 0], "how": ["kw", "copy"], "own_manager": False,
                    "hist": [[p, "get", i] for i in range(N_FALSY) for p in (0, 1, 0)] + [[1, "dispose"]]
                            + [[p, "get", -i - 1] for i in range(N_FALSY) for p in (1, 0)]})
    return out


EXH_PROGS = [
    [[["get", 0], ["get", 0]], [["get", 0]], [["dispose"]]],
    [[["get", 1], ["get", 0]], [["get", 0], ["get", 1]], [["dispose"]]],
    [[["get", 0], ["get", 0]], [["get", 0], ["get", 0]], [["clear"]]],
    [[["get", 0], ["mut", 1000], ["get", 0]], [["get", 0]], [["dispose"]]],      # run with tensors + in-place transform
]


def exhaustive_sched(max_len=8):
    """every schedule over {reader, reader, clearer} up to max_len (first program set) / max_len - 1 (the others)"""
    for k, progs in enumerate(EXH_PROGS):
        for ln in range(max_len + (1 if k == 0 else 0)):
            for sched in itertools.product(range(3), repeat=ln):
                if k == 3:
                    yield {"kind": "sched", "ptype": "tensor", "ids": [5, 6], "has_tf": True, "tf": "inplace", "progs": progs,
                           "sched": list(sched), "exh": True}
                else:
                    yield {"kind": "sched", "ptype": "int", "ids": [5, 6], "has_tf": True, "progs": progs,
                           "sched": list(sched), "exh": True}


def gen_procs(rng, k, small=False):
    n = rng.choice([2, 3, 4])
    if k % 3 == 0 and not small:      # one reader hammers one index while another process keeps clearing
        progs = [[["get", 0]] * 400, [["dispose"]] * 400] + ([[["get", 0]] * 300] if k % 2 else [])
    else:
        np_ = rng.choice([2, 3])
        progs = []
        for p in range(np_):
            prog = []
            for _ in range(rng.randint(10, 40) if not small else rng.randint(4, 12)):
                r = rng.random()
                prog.append(["get", rng.randrange(-n, n + 1)] if r < 0.7 else gen_mut(rng) if r < 0.8
                            else ["dispose"] if r < 0.93 else ["len"])
            progs.append(prog)
    return {"kind": "procs", **gen_common(rng, n), "progs": progs, "pickled": k % 2 == 1}


def gen_loader(rng, workers):
    """a DataLoader over the cached dataset: 1-3 epochs, each with its own index sequence (a sampler), optional dispose
    between epochs; mostly over wrapped datasets that define __getitems__"""
    n = rng.choice([1, 2, 3, 4, 5, 6, 8])
    ne = rng.choice([1, 2, 2, 3]) if workers == 0 else rng.choice([2, 2, 3])
    epochs = []
    for _ in range(ne):
        style = rng.random()
        if style < 0.4:
            idxs = list(range(n))
        elif style < 0.7:
            idxs = rng.sample(range(n), n)
        else:
            idxs = [rng.randrange(-n, n) for _ in range(rng.randint(1, 2 * n))]
        epochs.append(idxs)
    bs = rng.choice([1, 2, 2, 3, 4, None])
    case = {"kind": "loader", **gen_common(rng, n, want_getitems=True), "workers": workers, "bs": bs, "epochs": epochs,
            "clear_after": [rng.random() < 0.3 for _ in epochs], "how": rng.choice(["kw", "plain"]), "own_manager": False}
    if workers == 0:
        nb = [len(b) for b in loader_batches(case)]
        case["mut"] = [[e, b, rng.choice([1000, 7, 1])] for e in range(ne) for b in range(nb[e]) if rng.random() < 0.2]
    return case


def gen_attr(rng):
    """a wrapped dataset carrying a random subset of the names the cache layer uses itself (+ other names)"""
    n = rng.choice([0, 1, 3])
    base = {"shape": rng.choice(BASE_SHAPES), "attrs": [a for a in COLLIDE if rng.random() < 0.5], "bd": rng.randint(1, 49)}
    extra = [a for a in ["classes", "targets", "__deepcopy__", "nope", "foo", "__setstate__", "__len__x", "logger2"] if rng.random() < 0.3]
    mode = rng.choice([None, None, "ticket", "inplace"])
    return {"kind": "attr", "ptype": "tensor", "ids": [50 + k for k in range(n)], "has_tf": mode is not None, "tf": mode,
            "base": base, "extra": extra, "how": rng.choice(["kw", "plain"])}


def directed_collide():
    """wrapped datasets with their own `transform` / `__getitems__` / `dataset` / `shared_dict` ..., cached with and without
    post-cache transform, read directly and through a DataLoader"""
    out = []
    for shape in BASE_SHAPES:
        for mode in (None, "ticket"):
            base = {"shape": shape, "attrs": list(COLLIDE), "bd": 17}
            out.append({"kind": "seq", "ptype": "tensor_f", "ids": [20, 30, 40], "has_tf": mode is not None, "tf": mode,
                        "base": base, "handles": [0, 0], "how": ["plain", "copy"], "own_manager": False,
                        "hist": [[0, "get", 1], [1, "get", 1], [0, "get", -1], [1, "dispose"], [1, "get", 1], [0, "get", 3]]})
            out.append({"kind": "loader", "ptype": "tensor_f", "ids": [20, 30, 40, 50], "has_tf": mode is not None, "tf": mode,
                        "base": base, "workers": 0, "bs": 2, "epochs": [[0, 1, 2, 3], [0, 1, 2, 3]], "clear_after": [False, False],
                        "how": "plain", "own_manager": False, "mut": []})
            out.append({"kind": "attr", "ptype": "tensor", "ids": [50], "has_tf": mode is not None, "tf": mode,
                        "base": base, "extra": ["classes"], "how": "plain"})
    return out


def directed_graph():
    """object payloads holding tensors, read again after an in-place transform / a consumer write"""
    out = []
    t = ["tensor", [2], "f32"]
    for shape in (["dc", t, ["int"]], ["plain", ["x", t], ["y", ["list", t]]], ["slots", t, t, ["str"]], ["nt", t, ["int"]],
                  ["tuple", ["dc", t], ["int"]], ["ns", ["img", t]], ["fdc", t, ["ndarray", [2]]],
                  ["list", ["slots", ["dict", ["x", t]]]], ["subdict", ["x", ["plain", ["pos", t]]]]):
        for mode in ("inplace", None):
            out.append({"kind": "seq", "ptype": "graph", "shape": shape, "ids": [3, 4, 5], "has_tf": mode is not None, "tf": mode,
                        "handles": [0, 0], "how": ["kw", "pickle"], "own_manager": False,
                        "hist": [[0, "get", 1], [0, "mut", 1000], [0, "get", 1], [1, "get", 1], [1, "mut", 7], [0, "get", 1],
                                 [1, "get", 2], [1, "get", 2]]})
    return out


def gen_cases(rng, tier):
    cases = directed_sched() + directed_alias() + directed_falsy() + directed_collide() + directed_graph()
    if tier == "quick":
        cases += [gen_seq(rng) for _ in range(240)]
        cases += [gen_sched(rng) for _ in range(600)]
        cases += [gen_loader(rng, 0) for _ in range(90)] + [gen_loader(rng, 1 + k % 2) for k in range(12)]
        cases += [gen_attr(rng) for _ in range(60)]
        cases += [gen_procs(rng, k, small=True) for k in range(4)]
        return cases
    cases += [gen_seq(rng) for _ in range(700)] + [gen_seq(rng, big=True) for _ in range(300)]
    cases += [gen_sched(rng) for _ in range(4000)]
    cases += [gen_loader(rng, 0) for _ in range(300)] + [gen_loader(rng, 1) for _ in range(40)] + [gen_loader(rng, 2) for _ in range(60)]
    cases += [gen_attr(rng) for _ in range(300)]
    cases += list(exhaustive_sched(8))
    cases += [gen_procs(rng, k) for k in range(24)] + [gen_procs(rng, k, small=True) for k in range(12)]
    return cases


def search_cases(rng, tier):
    yield from directed_sched()
    yield from directed_alias()
    yield from directed_falsy()
    yield from directed_collide()
    yield from directed_graph()
    for k in range(400):
        yield gen_loader(rng, 0) if k % 2 else gen_attr(rng)
    for k in range(300):
        yield gen_seq(rng)
    yield from exhaustive_sched(7)
    for k in range(20000):
        yield gen_sched(rng) if k % 3 else gen_seq(rng)


def _shrink_common(c):
    """smaller wrapped dataset / payload"""
    b = c.get("base")
    if b:
        yield {k: v for k, v in c.items() if k != "base"}
        for a in b["attrs"]:
            if a != "transform":
                yield {**c, "base": {**b, "attrs": [x for x in b["attrs"] if x != a]}}
        if b["shape"] != "plain":
            yield {**c, "base": {**b, "shape": "plain"}}
    if c["ptype"] == "graph":
        sh = c["shape"]
        kids = [x[1] if sh[0] in G_MAP or sh[0] in G_ATTR else x for x in sh[1:]] if sh[0] not in (
            "int", "str", "float", "bytes", "none", "tensor", "ndarray") else []
        for kid in kids:
            if g_carries_id(kid):
                yield {**c, "shape": kid}
        for j in range(1, len(sh)):
            if kids and len(sh) > 2 and sh[0] not in G_CLASSES:
                cand = sh[:j] + sh[j + 1:]
                if g_carries_id(cand):
                    yield {**c, "shape": cand}
    elif c["ptype"] not in ("int", "falsy") and not (b and "transform" in b["attrs"] and c["ptype"] == "tensor_f"):
        yield {**c, "ptype": "tensor_f" if b and "transform" in b["attrs"] else "tensor"}
        if not (b and "transform" in b["attrs"]):
            yield {**c, "ptype": "int"}


def shrink(c):
    if c["kind"] == "attr":
        for a in c.get("extra", []):
            yield {**c, "extra": [x for x in c["extra"] if x != a]}
        b = c["base"]
        for a in b["attrs"]:
            yield {**c, "base": {**b, "attrs": [x for x in b["attrs"] if x != a]}}
        if b["shape"] != "plain":
            yield {**c, "base": {**b, "shape": "plain"}}
        if tf_mode(c) is not None:
            yield {**c, "has_tf": False, "tf": None}
        return
    if c["kind"] == "loader":
        ep = c["epochs"]
        for e in range(len(ep)):
            if len(ep) > 1:
                yield {**c, "epochs": ep[:e] + ep[e + 1:], "clear_after": c["clear_after"][:e] + c["clear_after"][e + 1:],
                       "mut": [[x, b, d] if x < e else [x - 1, b, d] for x, b, d in c.get("mut", []) if x != e]}
        for e in range(len(ep)):
            for j in range(len(ep[e])):
                if len(ep[e]) > 1:
                    yield {**c, "epochs": ep[:e] + [ep[e][:j] + ep[e][j + 1:]] + ep[e + 1:], "mut": []}
        if c.get("mut"):
            yield {**c, "mut": []}
        if any(c["clear_after"]):
            yield {**c, "clear_after": [False] * len(ep)}
        if c["workers"] > 0:
            yield {**c, "workers": c["workers"] - 1, "mut": []}
        if tf_mode(c) is not None:
            yield {**c, "has_tf": False, "tf": None}
        yield from _shrink_common(c)
        return
    yield from _shrink1(c)
    if c["kind"] in ("seq", "sched"):
        yield from _shrink_common(c)


def _shrink1(c):
    if c["kind"] == "seq":
        h = c["hist"]
        for i in range(len(h)):
            yield {**c, "hist": h[:i] + h[i + 1:]}
        if tf_mode(c) is not None:
            yield {**c, "has_tf": False, "tf": None}
        for i, op in enumerate(h):
            if len(op) > 3 and op[1] == "get":
                yield {**c, "hist": h[:i] + [op[:3]] + h[i + 1:]}
        nh = len(c["handles"])
        if nh > 1 and not any(op[0] == nh - 1 for op in h):
            yield {**c, "handles": c["handles"][:-1], "how": c["how"][:-1]}
        if c.get("own_manager"):
            yield {**c, "own_manager": False}
    elif c["kind"] == "sched":
        s = c["sched"]
        for i in range(len(s)):
            yield {**c, "sched": s[:i] + s[i + 1:]}
        for p, prog in enumerate(c["progs"]):
            for i in range(len(prog)):
                yield {**c, "progs": c["progs"][:p] + [prog[:i] + prog[i + 1:]] + c["progs"][p + 1:]}
    else:
        for p, prog in enumerate(c["progs"]):
            if len(prog) > 4:
                yield {**c, "progs": c["progs"][:p] + [prog[:len(prog) // 2]] + c["progs"][p + 1:]}


# ---------------------------------------------------------------------------
# evidence
# ---------------------------------------------------------------------------
def _switch_inside_access(case, obs):
    """a process switch while some process is in the middle of cached[i]"""
    ops = obs.get("ops", [])
    for a, b in zip(ops, ops[1:]):
        if a[0] != b[0] and a[1] == "in":
            return True
    return False


def features(case, obs):
    yield "kind=" + case["kind"]
    shape, attrs, _ = base_spec(case)
    yield "wrapped=" + shape
    for a in attrs:
        yield "wrapped-has:" + a
    if case["kind"] == "attr":
        for n, w in obs.get("probes", []):
            if w == 1:
                yield "attr:forwarded " + n
        return
    yield "ptype=" + case["ptype"]
    if case["ptype"] == "graph":
        for k in sorted(g_kinds(case["shape"])):
            yield "graph:" + k
    yield "transform=%s" % tf_mode(case)
    yield "transport=%s" % ("by-reference (tensors)" if is_byref(case) else "by-value")
    if case["ptype"] == "falsy" and 0 in case["ids"]:
        yield "payload None"
    if case["kind"] == "loader":
        yield "loader:workers=%d" % case["workers"]
        yield "loader:batch_size=%s" % case["bs"]
        yield "loader:epochs=%d" % len(case["epochs"])
        if shape != "plain":
            yield "loader:wrapped dataset defines __getitems__"
        if "log" in obs:
            case = {**case, **loader_view(case, obs)}
    if case["kind"] == "loader":
        yield "harness_exception"
        return
    cmds = [op[1:] for op in case["hist"]] if case["kind"] == "seq" else [op for prog in case["progs"] for op in prog]
    if any(op[0] == "mut" for op in cmds):
        yield "consumer-write"
    if "log" not in obs:
        yield "harness_exception"
        return
    log = obs["log"]
    n = len(case["ids"])
    yield "n=%d" % n
    if case["kind"] == "seq":
        yield "seq:holders=%d" % len(case["handles"])
        yield "seq:caches=%d" % len(set(case["handles"]))
        loads = sum(1 for e in log if e[0] == "L")
        rets = sum(1 for e in log if e[0] == "R")
        if rets > loads:
            yield "seq:hit"
        if any(op[1] == "get" and op[2] < 0 for op in case["hist"]):
            yield "seq:negative-index"
        if any(len(op) > 3 for op in case["hist"]):
            yield "seq:np.int64-index"
        if any(h == "pickle" for h in case["how"][1:]):
            yield "seq:pickled-holder"
        if _reload_after_clear(log):
            yield "seq:reload-after-clear"
    else:
        yield "%s:processes=%d" % (case["kind"], len(case["progs"]))
        seen = set()
        for e in log:
            if e[0] == "C":
                seen = set()
            if e[0] == "L":
                if e[2] in seen and case["kind"] == "sched":
                    yield "sched:redundant-load"
                    break
                seen.add(e[2])
        if any(o[1] == "get" and o[3] is False for o in obs.get("ops", [])):
            yield "sched:lookup-after-clear (KeyError fallback taken)"
        if case.get("exh"):
            yield "sched:exhaustive"
        if case["kind"] == "procs" and sum(1 for e in log if e[0] == "L") > len({e[2] for e in log if e[0] == "L"}):
            yield "procs:reloads (clears interleaved with reads)"
        if case["kind"] == "procs":
            yield "procs:schedule-search=%s%s" % (obs.get("lin"), "" if obs.get("lin_realtime", True) else " (NOT in real-time order)")
            if obs.get("overlaps"):
                yield "procs:overlapping proxy operations"
        if obs.get("finished") and all(obs["finished"]):
            yield "sched:all-finished"
    if any(e[0] == "R" and e[4] == "BaseError" for e in log):
        yield "base-raises"
    if any(e[0] == "N" for e in log):
        yield "len"


def _reload_after_clear(log):
    loaded, cleared_after = set(), set()
    for e in log:
        if e[0] == "L":
            if e[2] in cleared_after:
                return True
            loaded.add(e[2])
        if e[0] == "C":
            cleared_after |= loaded
    return False


def nontrivial_key(case, obs):
    if case["kind"] == "attr":
        if "probes" not in obs or not any(w == 1 for _, w in obs["probes"]):
            return None
        return ("attr", repr(case["base"]), tuple(case.get("extra", [])), tf_mode(case))
    if "log" not in obs:
        return None
    if case["kind"] == "loader":
        log = obs["log"]
        if not sum(1 for e in log if e[0] == "R") > sum(1 for e in log if e[0] == "L"):
            return None
        return ("loader", repr(pspec(case)), repr(case.get("base")), tf_mode(case), case["workers"], case["bs"], repr(case["epochs"]),
                tuple(case["clear_after"]))
    if case["kind"] == "seq":
        log = obs["log"]
        hit = sum(1 for e in log if e[0] == "R") > sum(1 for e in log if e[0] == "L")
        if not (hit and _reload_after_clear(log)):
            return None
        return ("seq", repr(pspec(case)), repr(case.get("base")), tf_mode(case), tuple(case["handles"]),
                tuple(tuple(op[:3]) for op in case["hist"]))
    if case["kind"] == "sched":
        if not _switch_inside_access(case, obs):
            return None
        return ("sched", repr(case["progs"]), tuple(obs["effective"]))
    return ("procs", repr(case["progs"]))
