"""C03 — each dataset-manipulation wrapper selects exactly the promised samples.

One case = one class layout + one constructor call (+ optionally a second constructor call `over` that is made on top
of and next to the first on the same dataset).  The real wrapper is built over a
dataset whose item x is the sample id; the selection [w.getitem_x(i) for i in range(len(w))]
is compared with the Coq model (coq/C03/Model.v, evaluated with vm_compute, fed with the
recorded generator outputs) and with the Coq spec (Spec.v / Check.v); an independent Python
oracle states the promise of each wrapper directly on the real selection."""
import collections
import copy
import math
import random as pyrandom
import signal

from .common import C, Nat, Opt, Raw, Str, coq

ID = "C03"
COQ_FILES = ["C03/Model.v", "C03/ModelFloat.v", "C03/Spec.v", "C03/Check.v", "C03/Proofs.v", "C03/Proofs2.v",
             "C03/Property.v"]
COQ_PRELUDE = ("From Coq Require Import String.\nFrom Coq Require Import ZArith List Bool Floats.\nImport ListNotations.\n"
               "From KD Require Import C03.Model C03.ModelFloat C03.Spec C03.Check.\nOpen Scope Z_scope.\n")
COQ_CHECK = "check"
COQ_CASE_TYPE = "case_t"
SHARD = 200
ALLOWED_AXIOMS = []
TRUSTED = [
    "hand-written model coq/C03/Model.v of the ten wrapper constructors (ClassFilterWrapper by number and by name), "
    "get_class_counts and the KDSubset indexing of a wrapper put on top of a wrapper (Model.through / stacked_with); tied "
    "to KD_REPO by this run's correspondence evaluation (single constructions and, for a quarter of the cases, the "
    "selection seen through a second wrapper constructed on top, with that constructor's recorded draws)",
    "ClassFilterWrapper by name: class names are compared as exact strings (what np.isin does on numpy unicode arrays: "
    "case and blanks matter, the empty string is a name; a name argument that is one bare string names exactly the class(es) whose name EQUALS it, never the classes whose names occur inside it); numpy's stripping of trailing NUL characters is outside the "
    "generated names (ASCII letters, digits, blanks)",
    "construction_leaves_labels_unchanged (the harness-checked counterpart of the model's purity): in the model every "
    "selection function receives the label list BY VALUE, so theorem later_constructor_sees_pristine_labels is true by "
    "construction; for the REAL constructors this is checked per case, not proved: the content of everything the "
    "dataset owns (labels, class_names, sampler weights) is compared with a snapshot after EVERY wrapper construction "
    "and EVERY access through a wrapper (getitem_x, getitem_class, getall_class, get_sampler_weights), on datasets "
    "whose getall_class hands out a copy (list / tensor), nothing, or THE DATASET'S OWN list / ndarray / tensor; "
    "constructor arguments are compared with a deep copy; in the multi-step cases (A, then B on top of A, then B next "
    "to A, then A again - one dataset) B must select what it selects on a pristine copy of the dataset / of what A "
    "exposes, A must keep showing the same samples and select the same again",
    "percent -> index: binary64 product then int()/np.ceil, evaluated in Coq with PrimFloat (bit-exact under "
    "vm_compute, model instance float_ops); the theorems are stated over abstract percent operations with the contract "
    "Proofs.pct_contract (0. and 1. admissible and extremal, cut 0. = 0, cut 1. = n, 0 <= cut p <= n; proved for exact "
    "fractions, rat_ops); that binary64 meets these clauses (and p <= q -> cut p <= cut q) is evaluated on every "
    "generated case (Check.float_contract_ok, code 3), not proved",
    "RepeatWrapper: int(np.ceil(min_size / len)) is modelled as the integer ceiling (exact below 2**53)",
    "generator contract: rng.shuffle / rng.permutation return a permutation of their argument (the recorded outputs "
    "are fed to the model; theorems quantify over all permutations)",
    "numpy/torch primitives used by the constructors: arange, isin, tile, nonzero, unique(return_counts), boolean "
    "mask indexing, concat, integer floor division",
    "ClasswiseSubsetWrapper: percent * 0-dim int64 tensor is evaluated by torch in binary32; modelled with SpecFloat's "
    "format-parametric SFmul (prec 24, emax 128; instance ModelFloat.float32_ops), contract clauses evaluated per "
    "case like the binary64 ones",
    "label representation: the Coq model and the oracle see the labels as integers; that the real selection does not "
    "depend on the objects carrying them (Python int / numpy scalar / 0-dim or 1-element tensor from getitem_class; list "
    "/ ndarray / tensor of dtype int64, int32, uint8, int8, int16 from getall_class) is checked per case: model and "
    "oracle are applied to the selection made on the generated representation, and the same case is run on a dataset "
    "speaking plain Python ints / int64 (same generator states) and must select the same, also through a second wrapper",
    "selection_is_function_of_args_and_draws is true of the model by construction; that the real constructors read "
    "nothing but labels, arguments and their own seeded generator is checked per case: two constructions under "
    "different states of ALL THREE global generators (numpy legacy, torch, Python random), the complete state of "
    "each compared before/after each construction (tripwire), three label providers; seeds include 0, False, "
    "numpy integer 0 and values beyond 2**32 / 2**64; with seed=None the selection must be a function of the "
    "numpy global state (same state -> same selection) and must not touch torch / Python random",
    "harness/c03.py: dataset with x = sample id and sampler weight 2*id+1, spy around numpy.random.default_rng / numpy.random.shuffle / "
    "numpy.random.permutation, CPU-time alarm (ITIMER_VIRTUAL 3 s, 1 s after two confirmed hangs; 60 s wall-clock "
    "fallback) that classifies a non-returning constructor as RUNAWAY",
]
ASSUMPTIONS = [
    "labels are -1 (unlabeled, the convention of utils/class_counts.py) or in [0, C) for the class-based wrappers "
    "(a few cases with a label C are run for model-vs-code agreement only)",
    "getitem_class returns one integer per sample; a 1-element tensor is accepted by the wrappers that never put the "
    "labels into a numpy array (all but ClassFilterWrapper / FewshotWrapper, which raise IndexError on it); unsigned "
    "label dtypes only on datasets without unlabeled (-1) samples; every label fits the dataset's label dtype "
    "(C <= 256 for uint8, C <= 128 for int8)",
    "start_index >= 0, num_shots >= 0; non-empty dataset for OversamplingWrapper",
    "seeds are None or non-negative integers (what numpy.random.default_rng accepts); FewshotWrapper(seed=None) "
    "seeds from OS entropy by numpy's definition: only the structural promise is checked there",
]
RULE = ("class layouts of size 0-64 (thorough -200) over C in 1..6 with absent, single-sample, dominant classes and "
        "unlabeled (-1) samples; six label providers (no getall_class / copy as list / copy as tensor / the dataset's own "
        "list / ndarray / tensor); LABEL REPRESENTATION (55 % of the class-based, 15 % of the other cases): getitem_class "
        "returning Python ints / numpy scalars / 0-dim tensors of dtype int64, int32, uint8, int8, int16 / 1-element tensors "
        "(not for ClassFilterWrapper / FewshotWrapper), getall_class handing out lists of such elements / ndarrays / tensors "
        "of these dtypes, 10 % of them with uint8 / int8 labels on 128-300 samples (more than the dtype counts) or over C = 128 "
        "/ 256 classes with the top label present (the dtype's maximum); class filters by number (incl. -1 and a non-class) and by NAME: class_names unique or "
        "drawn from a few names (several classes per name), incl. '' and names differing in case / blanks only; requested "
        "names known / unknown / variants of known ones / parts of names / strings containing names / repeated / none / all, a quarter of the name sets made of names that are substrings / prefixes / suffixes of one another; the names handed over as list / tuple / str ndarray / object ndarray or (35 %) as ONE BARE STRING (str / numpy.str_); a quarter of the cases construct a second "
        "wrapper on top of and next to the first on the same dataset; oversampling layouts with class counts (c, k*c + d), d in -1..1, c incl. 41, 47, 55, 61; "
        "13 constructor kinds; percents from {0, 1, k/n, k/n +- ulp, k/8, random}; index bounds incl. 0, n, beyond n; "
        "seeds from {None, 0, False, True, numpy 0, 1, 2**32-1, 2**32, 2**63, 2**64+k, random}; "
        "non-trivial = constructor succeeded with a non-empty selection; distinct by (kind, layout, args)")

EXPECTED_ERRORS = (AssertionError, RuntimeError, ValueError, IndexError, KeyError, NotImplementedError, ZeroDivisionError,
                   AttributeError, TypeError)
KINDS = ["class_filter", "percent", "subset_idx", "subset_range", "subset_percent", "shuffle", "repeat",
         "oversample", "sort", "intra", "fewshot", "cw_range", "cw_percent"]


# ---------------------------------------------------------------------------
# running the real code
# ---------------------------------------------------------------------------
_K = {}
# label providers: what getall_class hands out.  "own_*": the dataset keeps its labels in a list / ndarray / tensor
# and getall_class returns THAT OBJECT (as datasets holding a `targets` array do) - a constructor that writes into
# what it got changes the dataset
PROVIDERS = ["none", "list", "torch", "own_list", "own_np", "own_torch"]
OWN_STORAGE = {"own_list": "list", "own_np": "ndarray", "own_torch": "tensor"}


# label representations.  getitem_class returns a Python int (the default), a numpy integer scalar, a 0-dim tensor or
# (where the constructors accept it) a 1-element tensor; getall_class hands out a list of such elements / an ndarray /
# a tensor of the dtype.  The selection must not depend on any of this.
DTYPES = ["int64", "int32", "uint8", "int8", "int16"]
ITEM_REPS = ["int"] + [k + "_" + d for k in ("np", "t0") for d in DTYPES] + ["t1_int64", "t1_int32", "t1_uint8"]
# constructors that read getitem_class into np.array(...) and index it with one subscript: a 1-element tensor per
# sample makes that array two-dimensional (IndexError on HEAD) - outside the domain
NO_T1 = ("class_filter", "fewshot")


def rep_dtype(rep):
    return "int64" if rep == "int" else rep.split("_")[1]


DTYPE_RANGE = {"uint8": (0, 255), "int8": (-128, 127), "int16": (-2 ** 15, 2 ** 15 - 1)}


def effective_rep(rep, labels):
    """a dtype that cannot hold a label of the dataset (uint8: -1 = unlabeled; int8: 128) is not what such a dataset
    keeps its labels in: int16 instead"""
    lo, hi = DTYPE_RANGE.get(rep_dtype(rep), (None, None))
    if lo is not None and any(not lo <= v <= hi for v in labels):
        return rep.split("_")[0] + "_int16"
    return rep


def plain_rep(case):
    """the same case on a dataset that speaks plain Python ints / int64"""
    return {k: v for k, v in case.items() if k not in ("rep", "arep")}


def has_rep(case):
    return case.get("rep", "int") != "int" or case.get("arep", "int") != "int"


def default_names(c):
    return ["c%d" % i for i in range(c)]


def _classes():
    if _K:
        return _K
    import numpy as np
    import torch
    from kappadata.datasets.kd_dataset import KDDataset
    from kappadata.wrappers.dataset_wrappers.class_filter_wrapper import ClassFilterWrapper
    from kappadata.wrappers.dataset_wrappers.classwise_subset_wrapper import ClasswiseSubsetWrapper
    from kappadata.wrappers.dataset_wrappers.fewshot_wrapper import FewshotWrapper
    from kappadata.wrappers.dataset_wrappers.intra_class_shuffle_wrapper import IntraClassShuffleWrapper
    from kappadata.wrappers.dataset_wrappers.oversampling_wrapper import OversamplingWrapper
    from kappadata.wrappers.dataset_wrappers.percent_filter_wrapper import PercentFilterWrapper
    from kappadata.wrappers.dataset_wrappers.repeat_wrapper import RepeatWrapper
    from kappadata.wrappers.dataset_wrappers.shuffle_wrapper import ShuffleWrapper
    from kappadata.wrappers.dataset_wrappers.sort_by_class_wrapper import SortByClassWrapper
    from kappadata.wrappers.dataset_wrappers.subset_wrapper import SubsetWrapper

    np_dt = {"int64": np.int64, "int32": np.int32, "uint8": np.uint8, "int8": np.int8, "int16": np.int16}
    t_dt = {"int64": torch.int64, "int32": torch.int32, "uint8": torch.uint8, "int8": torch.int8, "int16": torch.int16}

    def conv(rep):
        """Python int -> the label in the given representation"""
        if rep == "int":
            return int
        kind, dt = rep.split("_")
        if kind == "np":
            return np_dt[dt]
        if kind == "t0":
            return lambda v: torch.tensor(v, dtype=t_dt[dt])
        return lambda v: torch.tensor([v], dtype=t_dt[dt])

    class DS(KDDataset):
        """x = sample id, sampler weight = 2 * id + 1; the labels live in self.store.  rep = what getitem_class returns
        (Python int / numpy integer scalar / 0-dim tensor / 1-element tensor of some dtype), arep = what the container
        handed out by getall_class is made of (elements of a list, dtype of an ndarray / tensor)"""

        def __init__(self, classes, n_classes, class_names=None, rep="int", arep="int"):
            super().__init__()
            labels = [int(c) for c in classes]
            self.rep, self.arep = effective_rep(rep, labels), effective_rep(arep, labels)
            self.adt = rep_dtype(self.arep)
            self.to_item = conv(self.rep)
            self.store = self.make_store(labels)
            self.n_classes = n_classes
            self.names = list(class_names) if class_names is not None else default_names(n_classes)
            self.weights = torch.arange(len(classes), dtype=torch.float64) * 2 + 1

        def make_store(self, labels):
            return labels

        def state(self):
            """content of everything the dataset owns"""
            return {"labels": [int(v) for v in self.store], "class_names": list(self.names),
                    "sampler weights": [float(v) for v in self.weights.tolist()]}

        def __len__(self):
            return len(self.store)

        def getitem_x(self, idx, ctx=None):
            if not -len(self.store) <= idx < len(self.store):
                raise IndexError(idx)
            return int(idx) % len(self.store)

        def getitem_class(self, idx, ctx=None):
            return self.to_item(int(self.store[idx]))

        def getshape_class(self):
            return (self.n_classes,)

        def get_sampler_weights(self):
            return self.weights

        @property
        def class_names(self):
            return self.names

    class DSList(DS):
        def getall_class(self):
            return [conv(self.arep)(v) for v in self.store]

    class DSTorch(DS):
        def getall_class(self):
            return torch.tensor(self.store, dtype=t_dt[self.adt])

    class DSOwnList(DS):
        def make_store(self, labels):
            return [conv(self.arep)(v) for v in labels]

        def getall_class(self):
            return self.store

    class DSOwnNumpy(DSOwnList):
        def make_store(self, labels):
            return np.array(labels, dtype=np_dt[self.adt])

    class DSOwnTorch(DSOwnList):
        def make_store(self, labels):
            return torch.tensor(labels, dtype=t_dt[self.adt])

    class Spy:
        """records what the wrapper's generator returned"""

        def __init__(self, real, trace):
            self.real = real
            self.trace = trace

        def shuffle(self, x):
            self.real.shuffle(x)
            self.trace.append([int(v) for v in x])

        def permutation(self, x):
            r = self.real.permutation(x)
            self.trace.append([int(v) for v in r])
            return r

        def __getattr__(self, name):
            raise AssertionError("unexpected generator method " + name)

    _K.update(np=np, torch=torch, Spy=Spy,
              ds={"none": DS, "list": DSList, "torch": DSTorch, "own_list": DSOwnList, "own_np": DSOwnNumpy,
                  "own_torch": DSOwnTorch},
              ClassFilterWrapper=ClassFilterWrapper, ClasswiseSubsetWrapper=ClasswiseSubsetWrapper,
              FewshotWrapper=FewshotWrapper, IntraClassShuffleWrapper=IntraClassShuffleWrapper,
              OversamplingWrapper=OversamplingWrapper, PercentFilterWrapper=PercentFilterWrapper,
              RepeatWrapper=RepeatWrapper, ShuffleWrapper=ShuffleWrapper, SortByClassWrapper=SortByClassWrapper,
              SubsetWrapper=SubsetWrapper)
    return _K


class _Runaway(Exception):
    pass


def _alarm(signum, frame):
    raise _Runaway()


# a construction on <= 200 samples takes a few milliseconds of CPU.  The guard counts the process's own CPU time
# (ITIMER_VIRTUAL): a constructor that spins burns it, a constructor that is merely descheduled on a loaded machine
# does not.  The first hangs are given 3 s CPU, once two constructors have been seen not to return the remaining ones
# get 1 s (the run is failing anyway; keeps it short).  A generous wall-clock alarm catches a hang that sleeps.
_RUNAWAYS = [0]
WALL_FALLBACK_S = 60.0


def _alarm_seconds():
    return 3.0 if _RUNAWAYS[0] < 2 else 1.0


def _seed_arg(case):
    """the seed as handed to the constructor: None, a Python int / bool, or a numpy integer"""
    s = case["seed"]
    if s is not None and case.get("seed_np"):
        return _classes()["np"].int64(s)
    return s


def by_name(call):
    return call["w"] == "class_filter" and bool(call.get("names"))


def requested_names(call):
    """the names handed to valid_class_names / invalid_class_names (older cases: the names of the classes in `cls`)"""
    return list(call["req"]) if "req" in call else ["c%d" % c for c in call["cls"]]


REQ_FORMS = ("list", "tuple", "ndarray", "ndarray_obj", "str", "np_str")


def req_form(call):
    """the form in which the requested names are handed over; the one-bare-string forms need exactly one name"""
    f = call.get("req_form", "list")
    if f in ("str", "np_str") and len(requested_names(call)) != 1:
        return "list"
    return f


def requested_arg(call):
    """the object passed as valid_class_names / invalid_class_names: a list / tuple / ndarray of names, or ONE name as a
    bare string (names exactly the classes whose name EQUALS it - what np.isin does with a scalar)"""
    req, f = requested_names(call), req_form(call)
    if f == "tuple":
        return tuple(req)
    if f == "ndarray":
        return _classes()["np"].array(req, dtype=str)
    if f == "ndarray_obj":
        return _classes()["np"].array(req, dtype=object)
    if f == "str":
        return req[0]
    if f == "np_str":
        return _classes()["np"].str_(req[0])
    return req


def _plain_args(kwargs):
    """constructor arguments in a form that == compares element by element (ndarray arguments: dtype + elements)"""
    return {k: (type(v).__name__, str(v.dtype), v.tolist()) if hasattr(v, "tolist") else v for k, v in kwargs.items()}


def _call_args(call):
    """(wrapper class name, keyword arguments) of one constructor call"""
    w = call["w"]
    if w == "class_filter":
        if by_name(call):
            return "ClassFilterWrapper", {("valid_class_names" if call["valid"] else "invalid_class_names"): requested_arg(call)}
        return "ClassFilterWrapper", {("valid_classes" if call["valid"] else "invalid_classes"): list(call["cls"])}
    if w == "percent":
        return "PercentFilterWrapper", dict(from_percent=call["from"], to_percent=call["to"],
                                            ceil_from_index=call["cf"], ceil_to_index=call["ct"])
    if w == "subset_idx":
        return "SubsetWrapper", dict(indices=list(call["idxs"]))
    if w == "subset_range":
        return "SubsetWrapper", dict(start_index=call["s"], end_index=call["e"])
    if w == "subset_percent":
        return "SubsetWrapper", dict(start_percent=call["s"], end_percent=call["e"])
    if w == "shuffle":
        return "ShuffleWrapper", dict(seed=_seed_arg(call))
    if w == "repeat":
        return "RepeatWrapper", dict(repetitions=call["reps"], min_size=call["min_size"])
    if w == "oversample":
        return "OversamplingWrapper", dict(mode=call["mode"])
    if w == "sort":
        return "SortByClassWrapper", {}
    if w == "intra":
        return "IntraClassShuffleWrapper", dict(seed=_seed_arg(call))
    if w == "fewshot":
        return "FewshotWrapper", dict(num_shots=call["shots"], seed=_seed_arg(call))
    if w == "cw_range":
        return "ClasswiseSubsetWrapper", dict(start_index=call["s"], end_index=call["e"],
                                              check_enough_samples=call["check"])
    if w == "cw_percent":
        return "ClasswiseSubsetWrapper", dict(start_percent=call["s"], end_percent=call["e"])
    raise KeyError(w)


# everything a constructor / an access changed that it must not change (clause construction_leaves_labels_unchanged),
# collected over all sessions of one run_impl
_EVENTS = []


class _Session:
    """one dataset and the wrappers constructed on it, one after the other.  The content of everything the dataset owns
    (labels, class names, sampler weights) is compared with a snapshot after EVERY construction and EVERY access."""

    def __init__(self, case):
        K = _classes()
        self.prov = case.get("prov", "list")
        self.ds = K["ds"][self.prov](case["classes"], case["C"], case.get("class_names"),
                                     case.get("rep", "int"), case.get("arep", "int"))
        self.snap = self.ds.state()

    def verify(self, where):
        now = self.ds.state()
        for k in now:
            if now[k] != self.snap[k]:
                _EVENTS.append({"after": where, "what": k, "before": self.snap[k], "now": now[k], "provider": self.prov})
        self.snap = now

    def build(self, call, base=None):
        K = _classes()
        name, kwargs = _call_args(call)
        kept = copy.deepcopy(kwargs)
        where = "constructing " + name + ("" if base is None else " on top of " + type(base).__name__)
        try:
            return K[name](self.ds if base is None else base, **kwargs)
        finally:
            if _plain_args(kept) != _plain_args(kwargs):
                _EVENTS.append({"after": where, "what": "constructor arguments", "before": repr(kept), "now": repr(kwargs),
                                "provider": self.prov})
            self.verify(where)

    def read(self, w, what="x"):
        """what the wrapper shows at every position"""
        try:
            if what == "x":
                return [int(w.getitem_x(i)) for i in range(len(w))]
            if what == "class":
                return [int(w.getitem_class(i)) for i in range(len(w))]
            if what == "all_class":
                return [int(v) for v in w.getall_class()]
            return [float(v) for v in w.get_sampler_weights().tolist()]
        finally:
            self.verify("reading " + {"x": "the samples", "class": "the labels (getitem_class)",
                                      "all_class": "the labels (getall_class)",
                                      "weights": "the sampler weights"}[what] + " through " + type(w).__name__)


def _guarded(fn, trace=None):
    """(fn(), None) or (None, error name); generator spy and CPU-time alarm around it"""
    K = _classes()
    np = K["np"]
    real = np.random.default_rng, np.random.shuffle, np.random.permutation
    if trace is not None:
        np.random.default_rng = lambda *a, **kw: K["Spy"](real[0](*a, **kw), trace)
        # seed=None: the wrappers draw from the numpy module itself (ShuffleWrapper) / through GlobalRng
        glob = K["Spy"](type("NumpyGlobal", (), {"shuffle": staticmethod(real[1]), "permutation": staticmethod(real[2])}), trace)
        np.random.shuffle, np.random.permutation = glob.shuffle, glob.permutation
    old_v = signal.signal(signal.SIGVTALRM, _alarm)
    old_r = signal.signal(signal.SIGALRM, _alarm)
    signal.setitimer(signal.ITIMER_VIRTUAL, _alarm_seconds())
    signal.setitimer(signal.ITIMER_REAL, WALL_FALLBACK_S)
    try:
        return fn(), None
    except _Runaway:
        _RUNAWAYS[0] += 1
        return None, "RUNAWAY"
    except EXPECTED_ERRORS as e:
        return None, type(e).__name__
    finally:
        signal.setitimer(signal.ITIMER_VIRTUAL, 0)
        signal.setitimer(signal.ITIMER_REAL, 0)
        signal.signal(signal.SIGVTALRM, old_v)
        signal.signal(signal.SIGALRM, old_r)
        np.random.default_rng, np.random.shuffle, np.random.permutation = real


def _select(case, trace=None, over=None, extra=None):
    """(selection or None, error name) of a fresh dataset; over = constructor call of a second wrapper put on top of
    the first; extra = dict that receives what else the wrapper shows (labels, sampler weights, the selection again)"""
    s = _Session(case)

    def go():
        w = s.build(case)
        if over is not None:
            w = s.build(over, w)
        out = s.read(w)
        if extra is not None:
            try:
                extra["exposed"] = s.read(w, "class")
                if s.prov != "none":
                    extra["exposed_all"] = s.read(w, "all_class")
                extra["weights"] = s.read(w, "weights")
                extra["reread"] = s.read(w)
            except EXPECTED_ERRORS as e:
                extra["access_err"] = type(e).__name__ + ": " + str(e)[:200]
        return out

    return _guarded(go, trace)


def _multi(case):
    """several constructions on ONE dataset: A, then B on top of A, then B next to A, then A once more"""
    over = case["over"]
    s = _Session(case)
    trace = []
    res = {}

    def step(key, fn):
        try:
            res[key] = fn()
        except EXPECTED_ERRORS as e:
            res[key] = None
            res[key + "_err"] = type(e).__name__

    def go():
        a = s.build(case)
        res["a"] = s.read(a)
        m0 = len(trace)
        top = []
        step("composed", lambda: s.read(top.append(s.build(over, a)) or top[0]))
        res["over_draws"] = trace[m0:]
        if res["composed"] is not None:
            # labels and sampler weights seen through both wrappers
            step("composed_class", lambda: s.read(top[0], "class"))
            step("composed_weights", lambda: s.read(top[0], "weights"))
        step("a_after", lambda: s.read(a))
        step("beside", lambda: s.read(s.build(over)))
        step("a_again", lambda: s.read(s.build(case)))
        return True

    res["err"] = _guarded(go, trace)[1]
    return res


SEEDED = ("shuffle", "intra", "fewshot")


def _global_states():
    """the complete state of the three process-wide generators"""
    K = _classes()
    s = K["np"].random.get_state()
    return {"numpy": (s[0], s[1].tobytes(), s[2], s[3], s[4]),
            "torch": K["torch"].get_rng_state().numpy().tobytes(),
            "random": pyrandom.getstate()}


def _select_under(case, np_seed, torch_seed, py_seed, trace=None, extra=None):
    """one construction under the given states of the global generators; which of them it consumed"""
    K = _classes()
    K["np"].random.seed(np_seed)
    K["torch"].manual_seed(torch_seed)
    pyrandom.seed(py_seed)
    g0 = _global_states()
    out, err = _select(case, trace, extra=extra)
    g1 = _global_states()
    return out, err, sorted(k for k in g0 if g0[k] != g1[k])


def run_impl(case):
    import warnings
    warnings.filterwarnings("ignore")
    py_state = pyrandom.getstate()
    del _EVENTS[:]
    try:
        obs = _run_impl(case)
        obs["impure"] = [dict(e) for e in _EVENTS[:3]]
        return obs
    finally:
        pyrandom.setstate(py_state)


def named_classes(case, call=None):
    """the numbers of ALL classes of the dataset that carry a requested name"""
    call = call or case
    names = case.get("class_names") or default_names(case["C"])
    req = requested_names(call)
    return [c for c in range(case["C"]) if names[c] in req]


def _run_impl(case):
    trace = []
    extra = {}
    out, err, touched = _select_under(case, 11, 11, 11, trace, extra)
    obs = {"out": out, "err": err, "draws": trace, "global_rng_touched": touched}
    obs.update(extra)
    if err == "RUNAWAY":
        return obs
    # same arguments, other states of all three global generators: the selection must not change
    out2, err2, touched2 = _select_under(case, 977, 5, 3)
    obs["again"] = out2
    obs["again_err"] = err2
    obs["global_rng_touched"] = sorted(set(touched) | set(touched2))
    if case["w"] in SEEDED and case.get("seed") is None and "seed" in case:
        # seed=None = "use the global numpy generator": same global state -> same selection
        obs["same_state"] = _select_under(case, 11, 11, 11)[0]
    fewshot_entropy = case["w"] == "fewshot" and case.get("seed") is None and "seed" in case
    if has_rep(case) and not fewshot_entropy:
        # the selection is a function of the LABELS, not of the objects that carry them: the same case on a dataset whose
        # getitem_class / getall_class speak plain Python ints / int64 (same global generator states as the first run)
        obs["plain"], obs["plain_err"], _ = _select_under(plain_rep(case), 11, 11, 11)
    if by_name(case):
        # filtering by name = filtering by number with all classes that carry a requested name
        obs["by_number"], obs["by_number_err"] = _select(dict(case, names=False, cls=named_classes(case)))
    # complementary ranges
    n = len(case["classes"])
    if out is not None and case["w"] in ("percent", "subset_range", "subset_percent"):
        w = case["w"]
        if w == "percent":
            lo = dict(case, **{"from": None, "to": case["from"], "cf": False, "ct": case["cf"]}) if case["from"] is not None else None
            hi = dict(case, **{"from": case["to"], "to": None, "cf": case["ct"], "ct": False}) if case["to"] is not None else None
        else:
            lo = dict(case, s=None, e=case["s"]) if case["s"] is not None else None
            hi_start = case["e"] if w == "subset_percent" or case["e"] is None else min(case["e"], n)
            hi = dict(case, s=hi_start, e=None) if case["e"] is not None else None
        obs["before"] = _select(lo)[0] if lo else []
        obs["after"] = _select(hi)[0] if hi else []
    # more wrappers on the same dataset (the usual way these wrappers are used): a second wrapper B on top of the
    # first (A) must select from what A exposes exactly what it selects from a plain dataset with the same labels;
    # B constructed next to A on the same dataset must select what it selects on a pristine copy of the dataset;
    # A must keep exposing the same samples, and A constructed again must select the same again
    deterministic = not (case["w"] in SEEDED and case.get("seed") is None)
    if out is not None and case.get("over") and deterministic and (out or case["over"]["w"] != "oversample"):
        over = case["over"]
        m = _multi(case)
        obs["multi_err"] = m["err"]
        obs["composed"], obs["composed_err"] = m.get("composed"), m.get("composed_err")
        obs["over_draws"] = m.get("over_draws", [])
        for k in ("a", "a_after", "beside", "beside_err", "a_again", "composed_class", "composed_class_err",
                  "composed_weights", "composed_weights_err"):
            obs["multi_" + k] = m.get(k)
        common_keys = dict(C=case["C"], prov=case.get("prov", "list"), class_names=case.get("class_names"),
                           rep=case.get("rep", "int"), arep=case.get("arep", "int"))
        if has_rep(case):
            obs["plain_composed"], obs["plain_composed_err"] = _select(plain_rep(case), over=over)
        alone = dict(over, classes=[case["classes"][i] for i in out], **common_keys)
        obs["outer_alone"], obs["outer_alone_err"] = _select(alone)
        pristine = dict(over, classes=list(case["classes"]), **common_keys)
        obs["beside_alone"], obs["beside_alone_err"] = _select(pristine)
    return obs


# ---------------------------------------------------------------------------
# independent oracle
# ---------------------------------------------------------------------------
def REP_TEXT(rep):
    if rep == "int":
        return "Python ints"
    kind, dt = rep.split("_")
    return {"np": "numpy %s scalars", "t0": "0-dim %s tensors", "t1": "1-element %s tensors"}[kind] % dt


def AREP_TEXT(case):
    prov, arep = case.get("prov", "list"), case.get("arep", "int")
    if prov == "none":
        return "nothing (no getall_class)"
    own = "the dataset's own " if prov.startswith("own") else "a "
    if prov in ("list", "own_list"):
        return own + "list of " + REP_TEXT(arep)
    return own + ("ndarray" if prov == "own_np" else "tensor") + " of dtype " + rep_dtype(arep)


def _labels_ok(case, eff=False, unlabeled=True):
    """every label is a class in [0, C) or (unless unlabeled=False) -1 = unlabeled"""
    c = case["C"]
    if eff and c == 1:
        c = 2
    return all((-1 if unlabeled else 0) <= x < c for x in case["classes"])


def oracle(case, obs):
    if "harness_exception" in obs:
        return "harness exception: " + obs["harness_exception"] + obs.get("tb", "")
    w, cl, n = case["w"], case["classes"], len(case["classes"])
    out = obs["out"]
    if obs["err"] == "RUNAWAY":
        return f"{w}: construction does not terminate (the constructor used {_alarm_seconds():.0f} s of CPU time without returning)"
    unseeded = w in SEEDED and case["seed"] is None
    if unseeded and w != "fewshot":
        # seed=None: the documented source is the global numpy generator, and nothing else
        if out is not None and obs.get("same_state") != out:
            return (f"{w}(seed=None): same arguments and same global numpy state -> different selections "
                    f"{out} vs {obs.get('same_state')}")
        if [g for g in obs["global_rng_touched"] if g != "numpy"]:
            return f"{w}(seed=None): construction consumed the global generator(s) {obs['global_rng_touched']}"
    elif not unseeded:
        if obs.get("again") != out or obs.get("again_err") != obs["err"]:
            return (f"{w}: same arguments{' and seed ' + repr(case['seed']) if w in SEEDED else ''}, other global generator "
                    f"states -> different result {out if out is not None else obs['err']} vs "
                    f"{obs.get('again') if obs.get('again') is not None else obs.get('again_err')}")
        if obs["global_rng_touched"]:
            return (f"{w}: construction{' with seed ' + repr(case['seed']) if w in SEEDED else ''} consumed the global "
                    f"generator(s) {obs['global_rng_touched']}")
    if out is not None and any(not 0 <= i < n for i in out):
        return f"{w}: selection {out} leaves the dataset (n={n})"
    in_domain = not (w == "oversample" and n == 0)
    if "plain" in obs and in_domain and (obs["plain"] != out or (obs["plain_err"] is None) != (obs["err"] is None)):
        return (f"{w}: the selection depends on how the dataset represents its labels: getitem_class returning "
                f"{REP_TEXT(case.get('rep', 'int'))}" + (f", getall_class handing out {AREP_TEXT(case)}" if case.get("prov", "list") != "none" else "")
                + f" -> {out if out is not None else 'raised ' + str(obs['err'])}; the same labels as Python ints / int64 -> "
                f"{obs['plain'] if obs['plain'] is not None else 'raised ' + str(obs['plain_err'])}")
    if "plain_composed" in obs and "composed" in obs and not obs.get("multi_err") and obs["plain_composed"] != obs["composed"]:
        return (f"{case['over']['w']} over {w}: the selection depends on how the dataset represents its labels "
                f"(getitem_class: {REP_TEXT(case.get('rep', 'int'))}, getall_class: {AREP_TEXT(case)}): "
                f"{obs['composed'] if obs['composed'] is not None else 'raised ' + str(obs.get('composed_err'))}; the same labels "
                f"as Python ints / int64 -> "
                f"{obs['plain_composed'] if obs['plain_composed'] is not None else 'raised ' + str(obs['plain_composed_err'])}")
    # constructors and accesses are pure (construction_leaves_labels_unchanged): nothing the dataset owns, no wrapper
    # below and no argument is changed by constructing a wrapper or by reading through it
    for e in obs.get("impure") or []:
        own = OWN_STORAGE.get(e.get("provider"))
        whose = "its" if e["what"] == "constructor arguments" else "the dataset's"
        return (f"{w}: {e['after']} changed {whose} {e['what']} from {e['before']} to {e['now']}"
                + (f" (getall_class hands out the dataset's own {own})" if own and e["what"] == "labels" else ""))
    if out is not None:
        if obs.get("access_err"):
            return f"{w}: reading labels / sampler weights through the wrapper raised {obs['access_err']}"
        for key, what, expected in (("exposed", "labels (getitem_class)", [cl[i] for i in out]),
                                    ("exposed_all", "labels (getall_class)", [cl[i] for i in out]),
                                    ("weights", "sampler weights", [2.0 * i + 1 for i in out]),
                                    ("reread", "samples when read a second time", out)):
            if key in obs and obs[key] != expected:
                return (f"{w}: the wrapper selects the samples {out} but shows the {what} {obs[key]}; those of the "
                        f"selected samples are {expected}")
    if obs.get("multi_err"):
        return (f"{case['over']['w']} on / next to {w}: constructing several wrappers on one dataset "
                + ("does not terminate" if obs["multi_err"] == "RUNAWAY" else f"raised {obs['multi_err']}")
                + f" although {w} alone selects {out}")
    if "composed" in obs:
        ow = case["over"]["w"]
        if obs["multi_a"] != out or obs["multi_a_again"] != out:
            return (f"{w}: constructed again on the same dataset (before / after a {ow} wrapper was constructed on it) it "
                    f"selects {obs['multi_a']} / {obs['multi_a_again']}, on a fresh dataset {out}")
        if obs["multi_a_after"] != out:
            return (f"{ow} over {w}: after the {ow} wrapper was constructed on top of it the {w} wrapper shows the samples "
                    f"{obs['multi_a_after']}, before: {out}")
        alone = obs["outer_alone"]
        expected = None if alone is None else [out[j] for j in alone]
        if obs["composed"] != expected:
            return (f"{ow} over {w}: selected {obs['composed'] if obs['composed'] is not None else obs['composed_err']}; "
                    f"over a plain dataset with the labels the {w} wrapper exposes it selects positions "
                    f"{alone if alone is not None else obs['outer_alone_err']}, i.e. samples {expected}")
        if obs["composed"] is not None:
            for key, what, exp in (("composed_class", "labels", [cl[i] for i in obs["composed"]]),
                                   ("composed_weights", "sampler weights", [2.0 * i + 1 for i in obs["composed"]])):
                if obs.get("multi_" + key) != exp:
                    got = obs.get("multi_" + key)
                    return (f"{ow} over {w}: the stack selects the samples {obs['composed']} but shows the {what} "
                            f"{got if got is not None else 'raised ' + str(obs.get('multi_' + key + '_err'))}; those of the "
                            f"selected samples are {exp}")
        if obs["multi_beside"] != obs["beside_alone"]:
            return (f"{ow} next to {w}: constructed on a dataset on which a {w} wrapper had been constructed it selects "
                    f"{obs['multi_beside'] if obs['multi_beside'] is not None else obs['multi_beside_err']}, on a pristine copy "
                    f"of the dataset {obs['beside_alone'] if obs['beside_alone'] is not None else obs['beside_alone_err']}")
    cnt = collections.Counter(cl)
    occ = collections.Counter(out or [])

    def need(expected, what):
        if out is None:
            return f"{w}: raised {obs['err']} but {what} = {expected} was promised"
        if out != expected:
            return f"{w}: selection {out}, promised {what} = {expected}"
        return None

    if w == "class_filter":
        if by_name(case):
            # a sample is selected iff the NAME of its class is among the requested names
            names = case.get("class_names") or default_names(case["C"])
            req = requested_names(case)
            wanted = [0 <= cl[i] < case["C"] and names[cl[i]] in req for i in range(n)]
            r = need([i for i in range(n) if wanted[i] == case["valid"]],
                     f"the samples whose class name is {'' if case['valid'] else 'not '}in {req} (handed over as {req_form(case)}: {requested_arg(case)!r}; class names {names}) in order")
            if r is None and obs.get("by_number") != out:
                r = (f"class_filter: {'valid' if case['valid'] else 'invalid'}_class_names={req} selects {out}, "
                     f"{'valid' if case['valid'] else 'invalid'}_classes={named_classes(case)} (all classes carrying these "
                     f"names, class names {names}) selects "
                     f"{obs.get('by_number') if obs.get('by_number') is not None else obs.get('by_number_err')}")
            return r
        keep = set(case["cls"])
        return need([i for i in range(n) if (cl[i] in keep) == case["valid"]], "the samples of the allowed classes in order")
    if w in ("percent", "subset_range", "subset_percent"):
        if w == "percent":
            p0 = 0.0 if case["from"] is None else case["from"]
            p1 = 1.0 if case["to"] is None else case["to"]
            if not (0 <= p0 <= 1 and 0 <= p1 <= 1):
                return None
            a = math.ceil(p0 * n) if case["cf"] else int(p0 * n)
            b = math.ceil(p1 * n) if case["ct"] else int(p1 * n)
            ordered = a <= b
        elif w == "subset_range":
            if case["s"] is None and case["e"] is None:
                return None
            a = case["s"] or 0
            b = min(n if case["e"] is None else case["e"], n)
            if a < 0 or a > b:
                return None
            ordered = True
        else:
            if case["s"] is None and case["e"] is None:
                return None
            p0 = 0.0 if case["s"] is None else case["s"]
            p1 = 1.0 if case["e"] is None else case["e"]
            if not (0 <= p0 <= p1 <= 1):
                return None
            a, b = int(p0 * n), int(p1 * n)
            ordered = True
        r = need(list(range(a, b)), f"the contiguous range [{a},{b})")
        if r:
            return r
        if ordered and obs["before"] is not None and obs["after"] is not None:
            if obs["before"] + out + obs["after"] != list(range(n)):
                return (f"{w}: complementary ranges do not partition the dataset: before={obs['before']} "
                        f"selection={out} after={obs['after']} (n={n})")
        return None
    if w == "subset_idx":
        if any(not -n <= i < n for i in case["idxs"]):
            return None
        return need([i % n for i in case["idxs"]], "the given indices")
    if w == "shuffle":
        if out is None or sorted(out) != list(range(n)):
            return f"shuffle(seed={case['seed']!r}): {out if out is not None else 'raised ' + str(obs['err'])} is not a permutation of range({n})"
        return None
    if w == "repeat":
        if n == 0 or (case["reps"] is None) == (case["min_size"] is None):
            return None
        if case["reps"] is not None:
            return None if case["reps"] <= 0 else need(list(range(n)) * case["reps"], f"{case['reps']} whole copies")
        m = case["min_size"]
        if m <= 0:
            return None
        if out is None or len(out) % n or out != list(range(n)) * (len(out) // n) or not m <= len(out) < m + n:
            return f"repeat: {out} is not the smallest number of whole copies reaching min_size={m} (n={n})"
        return None
    if w == "oversample":
        if not _labels_ok(case, eff=True) or n == 0 or case["C"] < 1:
            return None
        if out is None:
            return f"oversample: raised {obs['err']} on a non-empty dataset with valid labels"
        for i in range(n):
            if occ[i] < 1:
                return f"oversample: sample {i} (class {cl[i]}) was dropped: {out}"
            if cl[i] == -1 and occ[i] != 1:
                return f"oversample: unlabeled sample {i} selected {occ[i]} times: {out}"
        mx = max([k for c, k in cnt.items() if c != -1], default=0)
        for c, k in cnt.items():
            if c == -1:
                continue
            total = sum(occ[i] for i in range(n) if cl[i] == c)
            per = [occ[i] for i in range(n) if cl[i] == c]
            if case["mode"] == "multiply":
                if not (mx < 2 * total <= 2 * mx) or any(p != mx // k for p in per):
                    return (f"oversample(multiply): class {c} has {k} samples, majority {mx}: selected {total} "
                            f"({per} per sample), promised floor({mx}/{k}) = {mx // k} copies of each")
            else:
                if total != mx or any(not mx // k <= p <= mx // k + 1 for p in per):
                    return f"oversample(exact): class {c} selected {total} times ({per} per sample), majority has {mx}"
        return None
    if w == "sort":
        if not _labels_ok(case):
            return None
        return need(sorted(range(n), key=lambda i: cl[i]), "the stable sort by class")
    if w == "intra":
        if not _labels_ok(case):
            return None
        if out is None or sorted(out) != list(range(n)) or [cl[i] for i in out] != cl:
            return (f"intra-class shuffle(seed={case['seed']!r}): {out if out is not None else 'raised ' + str(obs['err'])} "
                    f"is not a permutation keeping the class sequence {cl}")
        return None
    if w == "fewshot":
        if n == 0 or case["shots"] < 0 or min(cl) < -1:
            return None
        if out is None:
            return f"fewshot: raised {obs['err']}"
        if any(cl[i] == -1 for i in out):
            return f"fewshot: an unlabeled sample was selected: {out}"
        if len(set(out)) != len(out):
            return f"fewshot: a sample was selected twice: {out}"
        if [cl[i] for i in out] != sorted(cl[i] for i in out):
            return f"fewshot: not grouped by class: {out}"
        for c in range(max(cl) + 1):
            got = sum(1 for i in out if cl[i] == c)
            if got != min(case["shots"], cnt[c]):
                return f"fewshot: class {c} has {cnt[c]} samples, {case['shots']} shots requested, {got} selected"
        return None
    if w in ("cw_range", "cw_percent"):
        if not _labels_ok(case, eff=True):
            return None
        if case["s"] is None and case["e"] is None:
            return None
        exp = []
        for c in range(case["C"]):
            members = [i for i in range(n) if cl[i] == c]
            if w == "cw_range":
                s = case["s"] or 0
                e = min(n if case["e"] is None else case["e"], n)
                if s < 0 or s > e:
                    return None
                if case["check"] and len(members) < e:
                    return None
                exp += members[s:e]
            else:
                p0 = 0.0 if case["s"] is None else case["s"]
                p1 = 1.0 if case["e"] is None else case["e"]
                if not (0 <= p0 <= p1 <= 1):
                    return None
                # the wrapper multiplies the percent with a 0-dim integer tensor: binary32 arithmetic
                f32 = _classes()["np"].float32
                exp += members[int(f32(p0) * f32(len(members))):int(f32(p1) * f32(len(members)))]
        return need(exp, "the per-class slices")
    return None


# ---------------------------------------------------------------------------
# rendering into Coq
# ---------------------------------------------------------------------------
def _f(p):
    return Raw("None") if p is None else Raw("(Some (" + float(p).hex() + ")%float)")


def coq_wcase(case, obs):
    w = case["w"]
    d = obs["draws"]
    if w == "class_filter":
        if by_name(case):
            names = case.get("class_names") or default_names(case["C"])
            return C("WClassFilterNames", bool(case["valid"]), [Str(x) for x in names], [Str(x) for x in requested_names(case)])
        return C("WClassFilter", bool(case["valid"]), list(case["cls"]))
    if w == "percent":
        return C("WPercent", _f(case["from"]), _f(case["to"]), bool(case["cf"]), bool(case["ct"]))
    if w == "subset_idx":
        return C("WSubsetIdx", list(case["idxs"]))
    if w == "subset_range":
        return C("WSubsetRange", Opt(case["s"]), Opt(case["e"]))
    if w == "subset_percent":
        return C("WSubsetPercent", _f(case["s"]), _f(case["e"]))
    if w == "shuffle":
        return C("WShuffle", d[0] if d else [])
    if w == "repeat":
        return C("WRepeat", Opt(case["reps"]), Opt(case["min_size"]))
    if w == "oversample":
        return C("WOversample", case["mode"] == "exact")
    if w == "sort":
        return Raw("WSortByClass")
    if w == "intra":
        return C("WIntraClass", d)
    if w == "fewshot":
        return C("WFewshot", case["shots"], d)
    if w == "cw_range":
        return C("WClasswiseRange", Opt(case["s"]), Opt(case["e"]), bool(case["check"]))
    return C("WClasswisePercent", _f(case["s"]), _f(case["e"]))


def coq_applicable(case, obs):
    return "harness_exception" not in obs


def coq_case(case, obs):
    compl = []
    if obs.get("before") is not None and obs.get("after") is not None and "before" in obs:
        compl = [obs["before"], obs["after"]]
    stack = Raw("None")
    if "composed" in obs and not obs.get("multi_err"):
        # the second wrapper, with the draws recorded while it was constructed on top of the first
        over = dict(case["over"], C=case["C"], class_names=case.get("class_names"))
        stack = Opt((coq_wcase(over, {"draws": obs["over_draws"]}), Opt(obs["composed"])))
    return coq((list(case["classes"]), case["C"], coq_wcase(case, obs), Opt(obs["out"]), compl, stack))


# ---------------------------------------------------------------------------
# generation
# ---------------------------------------------------------------------------
CLASS_BASED = ("class_filter", "oversample", "sort", "intra", "fewshot", "cw_range", "cw_percent")
# counts c for which float32 1/c * (k*c) < k for some small k (an `int / tensor` division is evaluated like that)
F32_COUNTS = [41, 47, 55, 61, 82, 83, 94, 97]


def gen_ratio_layout(rng, big=False):
    """class counts (c, k*c + d) with d in -1..1: the quotient max/count sits on / next to an integer"""
    cap = 200
    nc = rng.choice([2, 2, 3])
    base = rng.choice(F32_COUNTS[:4] * 2 + F32_COUNTS[4:] + [3, 7, 11, 13, 33, 49] + [rng.randint(1, 60)])
    counts = [base]
    for _ in range(nc - 1):
        kmax = max(1, min(5, (cap - sum(counts)) // max(base, 1)))
        k = rng.randint(min(2, kmax), kmax)
        counts.append(max(0, k * base + rng.choice([-1, 0, 0, 0, 1])))
    while sum(counts) > cap:
        counts[counts.index(max(counts))] //= 2
    c = nc + rng.choice([0, 0, 1])
    ids = rng.sample(range(c), nc)
    cl = [ids[j] for j, k in enumerate(counts) for _ in range(k)]
    if rng.random() < 0.6:
        rng.shuffle(cl)
    return cl, c


def gen_layout(rng, big=False, n=None):
    c = rng.choice([1, 2, 2, 3, 3, 4, 5, 6])
    if n is None:
        n = rng.choice([0, 1, 2, 3, 4, 5, 6, 8, 10, 12, 16, 17, 20, 27, 33, 40, 64] if not big else list(range(0, 201)))
    style = rng.random()
    if style < 0.25:            # some classes absent
        present = rng.sample(range(c), rng.randint(1, c))
        cl = [rng.choice(present) for _ in range(n)]
    elif style < 0.45:          # one dominant class, single-sample minorities
        dom = rng.randrange(c)
        cl = [dom] * n
        for other in range(c):
            if other != dom and n > 1 and rng.random() < 0.7:
                cl[rng.randrange(n)] = other
    elif style < 0.55:          # sorted blocks
        cl = sorted(rng.randrange(c) for _ in range(n))
    else:
        cl = [rng.randrange(c) for _ in range(n)]
    return cl, c


def gen_wide_layout(rng):
    """as many classes as a narrow label dtype can tell apart (128 / 256): the top label is the dtype's maximum (one
    more overflows, in uint8 it is what -1 converts to)"""
    c = rng.choice([128, 256, 256])
    n = rng.choice([1, 2, 3, 5, 8, 12, 20])
    present = [c - 1] + rng.sample(range(c - 1), rng.randint(0, 3))
    cl = [rng.choice(present) for _ in range(n)]
    cl[rng.randrange(n)] = c - 1
    return cl, c


def gen_percent(rng, n, dyadic=False):
    if dyadic:
        return rng.choice([None, 0.0, 1.0, 0.5, 0.25, 0.75, 0.125, 0.375, 0.625, 0.875])
    r = rng.random()
    if r < 0.12:
        return None
    if r < 0.24:
        return 0.0
    if r < 0.34:
        return 1.0
    if r < 0.36:
        return rng.choice([0, 1])                    # ints are accepted too
    if r < 0.60 and n > 0:
        return rng.randint(0, n) / n
    if r < 0.80 and n > 0:
        p = rng.randint(0, n) / n
        p = math.nextafter(p, rng.choice([0.0, 1.0]))
        return min(max(p, 0.0), 1.0)
    if r < 0.84:
        return rng.choice([-0.25, 1.5, 1.0000000000000002])
    return rng.random()


def gen_bound(rng, n):
    return rng.choice([None, None, 0, 0, 1, n, n, n + 3, max(0, n - 1), rng.randint(0, n + 2), rng.randint(0, max(n, 1))])


def gen_seed(rng, case):
    """None, falsy-looking seeds (0, False, numpy 0), seeds around the 32/64-bit boundaries, random ones"""
    r = rng.random()
    if r < 0.10:
        case["seed"] = None
    elif r < 0.28:
        case["seed"] = 0
    elif r < 0.34:
        case["seed"], case["seed_np"] = 0, True
    elif r < 0.40:
        case["seed"] = rng.choice([False, True])
    elif r < 0.52:
        case["seed"] = rng.choice([1, 2, 2 ** 31 - 1, 2 ** 31, 2 ** 32 - 1, 2 ** 32, 2 ** 63 - 1, 2 ** 63, 2 ** 64 - 1,
                                   2 ** 64, 2 ** 64 + rng.randint(1, 9), 2 ** 200])
    elif r < 0.62:
        case["seed"], case["seed_np"] = rng.randint(0, 2 ** 62), True
    else:
        case["seed"] = rng.randint(0, 9999)


def gen_over(rng, c):
    """a second constructor call whose arguments do not depend on the size of what it wraps"""
    w = rng.choice(["shuffle", "intra", "sort", "class_filter", "repeat", "subset_percent", "percent", "fewshot",
                    "oversample", "cw_percent"])
    over = {"w": w}
    if w in ("shuffle", "intra", "fewshot"):
        over["seed"] = rng.choice([0, 1, rng.randint(0, 9999)])
        if w == "fewshot":
            over["shots"] = rng.choice([0, 1, 2, 3])
    elif w == "class_filter":
        over["valid"] = rng.random() < 0.5
        over["cls"] = [rng.randrange(-1, c + 1) for _ in range(rng.choice([0, 1, 2]))]
        over["names"] = rng.random() < 0.35         # the requested names are drawn in gen_case (needs the class names)
    elif w == "repeat":
        over["reps"], over["min_size"] = rng.choice([1, 2, 3]), None
    elif w in ("subset_percent", "cw_percent", "percent"):
        a, b = sorted(rng.choice([0.0, 0.25, 0.5, 0.75, 1.0, rng.random()]) for _ in range(2))
        if w == "percent":
            over.update({"from": a, "to": b, "cf": rng.random() < 0.3, "ct": rng.random() < 0.3})
        else:
            over["s"], over["e"] = a, b
    elif w == "oversample":
        over["mode"] = rng.choice(["multiply", "exact"])
    return over


NAME_POOL = ["crane", "maillot", "tench", "hen", "Crane", "CRANE", "crane ", " crane", "cr ane", "", " ", "c0", "c1"]


NESTED_NAMES = [["blackbird", "bird", "black", "blackbirds"], ["wildcat", "cat", "wild", "ca", "t"],
                ["hen", "he", "en", "e", "then", "hens"], ["crane", "cran", "rane", "ran", "", "cranes"],
                ["c1", "c10", "c", "1", "c11", "0c1"]]


def gen_class_names(rng, c):
    """dataset.class_names: unique, or drawn from a few names (several classes carry the same name, as "crane" and
    "maillot" do in ImageNet), incl. the empty name and names differing in case / white space only"""
    r = rng.random()
    if c > 6:                                         # many classes: numbered names, a few of them from the pool
        names = default_names(c)
        for _ in range(rng.choice([0, 1, 2, 4])):
            names[rng.randrange(c)] = rng.choice(NAME_POOL)
        return names
    if r < 0.15:
        return None                                   # the default: c0, c1, ...
    if r < 0.40:                                      # names that are substrings / prefixes / suffixes of one another
        fam = rng.choice(NESTED_NAMES)
        return rng.sample(fam, c) if c <= len(fam) and rng.random() < 0.7 else [rng.choice(fam) for _ in range(c)]
    if r < 0.47:
        return [rng.choice(NAME_POOL)] * c
    if r < 0.58:
        return rng.sample(NAME_POOL, c)
    if r < 0.72:                                      # one name in several spellings
        base = rng.choice(["crane", "maillot", "hen", "c0"])
        family = [base, base.capitalize(), base.upper(), base + " ", " " + base, base[:2] + " " + base[2:]]
        return [rng.choice(family) for _ in range(c)]
    pool = rng.sample(NAME_POOL, rng.randint(1, max(1, min(len(NAME_POOL), c))))
    return [rng.choice(pool) for _ in range(c)]


def gen_requested(rng, names):
    """valid_class_names / invalid_class_names: names of the dataset, names no class carries, variants of present names
    (other case, added / removed blanks), repeated names, no name, all names"""
    r = rng.random()
    if r < 0.08:
        return []
    if r < 0.20:
        req = list(names)
    else:
        req = []
        for _ in range(rng.choice([1, 1, 2, 2, 3, 4])):
            q = rng.random()
            nm = rng.choice(names)
            if q < 0.70:
                req.append(nm)
            elif q < 0.80:
                req.append(rng.choice([nm.upper(), nm.capitalize(), nm + " ", " " + nm, nm.strip(), nm.lower()]))
            elif q < 0.90:                            # a part of a name / a longer string that contains names
                k = rng.randint(0, len(nm))
                other = rng.choice(names)
                req.append(rng.choice([nm[:k], nm[k:], nm + other, other + nm, nm + nm, nm + "s", "x" + nm,
                                       nm + " " + other, nm + "," + other]))
            else:
                req.append(rng.choice(NAME_POOL + ["zebra", "c%d" % len(names)]))
    if req and rng.random() < 0.3:
        req.append(rng.choice(req))
    rng.shuffle(req)
    return req


def gen_rep(rng, case, narrow=False):
    """how the dataset represents its labels: what getitem_class returns and what getall_class hands out"""
    ok = [r for r in ITEM_REPS if effective_rep(r, case["classes"]) == r]
    if narrow:
        ok = [r for r in ok if rep_dtype(r) in ("uint8", "int8")] or ok
    r = rng.random()
    if r < 0.35 or case.get("prov") == "none":
        case["rep"] = rng.choice(ok)
    elif r < 0.6:
        case["arep"] = rng.choice(ok)
    elif r < 0.85:                      # the usual layout: getitem_class returns targets[idx], getall_class targets
        kind = {"list": "", "own_list": "", "own_np": "np_"}.get(case["prov"], "t0_")
        el = rng.choice([x for x in ok if x.startswith(kind)] if kind else ok)
        case["rep"] = case["arep"] = el
    else:
        case["rep"], case["arep"] = rng.choice(ok), rng.choice(ok)
    for k in ("rep", "arep"):
        if case.get(k) == "int":
            del case[k]


def gen_case(rng, big=False, kind=None):
    case = _gen_case(rng, big, kind)
    if rng.random() < 0.25:
        case["over"] = gen_over(rng, case["C"])
    if case.get("rep", "").startswith("t1") and (case["w"] in NO_T1 or case.get("over", {}).get("w") in NO_T1):
        case["rep"] = case["rep"].replace("t1", "t0")
    calls = [c for c in (case, case.get("over")) if c and by_name(c)]
    if calls or rng.random() < 0.1:
        names = gen_class_names(rng, case["C"])
        if names is not None:
            case["class_names"] = names
        for call in calls:
            call["req"] = gen_requested(rng, names or default_names(case["C"]))
            q = rng.random()
            if q < 0.35:                              # one name (or a longer string containing names) as ONE BARE STRING
                if len(call["req"]) != 1:
                    nm = names or default_names(case["C"])
                    call["req"] = [rng.choice(call["req"] + nm) if rng.random() < 0.7 else
                                   rng.choice(["", " ", ","]).join(rng.sample(nm, min(len(nm), 2)))]
                call["req_form"] = "str" if rng.random() < 0.8 else "np_str"
            elif q < 0.65:
                call["req_form"] = rng.choice(["tuple", "ndarray", "ndarray_obj"])
    return case


def _gen_case(rng, big=False, kind=None):
    w = kind or rng.choice(KINDS)
    with_rep = rng.random() < (0.55 if w in CLASS_BASED else 0.15)
    # narrow label dtypes on datasets with more samples than the dtype can count
    narrow = with_rep and w in CLASS_BASED and rng.random() < 0.10
    if narrow and rng.random() < 0.6:
        cl, c = gen_wide_layout(rng)
    elif w == "oversample" and rng.random() < 0.35 and not narrow:
        cl, c = gen_ratio_layout(rng, big)
    else:
        cl, c = gen_layout(rng, big, n=rng.choice([128, 129, 256, 257, 300]) if narrow else None)
    n = len(cl)
    case = {"w": w, "classes": cl, "C": c, "prov": rng.choice(PROVIDERS)}
    if w in CLASS_BASED and n > 0 and rng.random() < 0.15:
        # unlabeled samples: one, a few, or (rarely) all of them
        m = rng.choice([1, 1, 2, 3, max(1, n // 3), n if rng.random() < 0.3 else 1])
        for i in rng.sample(range(n), min(m, n)):
            cl[i] = -1
    if rng.random() < 0.03 and n > 0 and w in ("oversample", "sort", "intra", "fewshot", "cw_range", "cw_percent"):
        # outside the property's domain (a label that is no class): model-vs-code agreement only
        cl[rng.randrange(n)] = c
    if with_rep:
        gen_rep(rng, case, narrow)
    if w == "class_filter":
        case["valid"] = rng.random() < 0.5
        case["cls"] = [rng.randrange(-1, c + 1) for _ in range(rng.choice([0, 1, 1, 2, 3]))]
        case["names"] = rng.random() < 0.55
    elif w == "percent":
        case.update({"from": gen_percent(rng, n), "to": gen_percent(rng, n), "cf": rng.random() < 0.4, "ct": rng.random() < 0.4})
        if rng.random() < 0.7 and case["from"] is not None and case["to"] is not None and case["from"] > case["to"]:
            case["from"], case["to"] = case["to"], case["from"]
    elif w == "subset_idx":
        m = rng.choice([0, 1, 2, 3, 5, 8])
        case["idxs"] = [rng.randint(-n, n - 1) for _ in range(m)] if n else []
        if rng.random() < 0.08:
            case["idxs"].append(rng.choice([n, -n - 1]))
    elif w in ("subset_range", "cw_range"):
        s, e = gen_bound(rng, n), gen_bound(rng, n)
        if s is not None and e is not None and s > e and rng.random() < 0.8:
            s, e = e, s
        case["s"], case["e"] = s, e
        if w == "cw_range":
            case["check"] = rng.random() < 0.4
            if case["check"] and rng.random() < 0.7 and n:
                case["e"] = rng.randint(0, max(0, min(collections.Counter(cl).get(k, 0) for k in range(c))))
                if case["s"] is not None and case["s"] > case["e"]:
                    case["s"] = rng.choice([None, 0, case["e"]])
    elif w in ("subset_percent", "cw_percent"):
        m, dyadic = n, False
        if w == "cw_percent":       # cuts are taken per class: percents on / next to k/count_c
            m = rng.choice([k for k in collections.Counter(cl).values()] or [n])
            dyadic = rng.random() < 0.25
        s, e = gen_percent(rng, m, dyadic), gen_percent(rng, m, dyadic)
        if s is not None and e is not None and s > e and rng.random() < 0.85:
            s, e = e, s
        case["s"], case["e"] = s, e
    elif w in ("shuffle", "intra"):
        gen_seed(rng, case)
    elif w == "repeat":
        if rng.random() < 0.5:
            case["reps"], case["min_size"] = rng.choice([1, 2, 3, 5, 0]), None
        else:
            case["reps"], case["min_size"] = None, rng.choice([1, n, n + 1, 2 * n, 2 * n - 1, 3 * n + 2, rng.randint(1, 4 * n + 3), 0])
        if rng.random() < 0.03:
            case["reps"], case["min_size"] = rng.choice([(None, None), (2, 5)])
    elif w == "oversample":
        case["mode"] = rng.choice(["multiply", "exact"])
        if n == 0:
            case["classes"] = cl = [rng.randrange(c)]
    elif w == "fewshot":
        case["shots"] = rng.choice([0, 1, 1, 2, 3, 5, 50])
        gen_seed(rng, case)
    return case


# class filters come in four flavours (valid / invalid, by number / by name): two slots of the round robin
GEN_KINDS = KINDS + ["class_filter"]


def gen_cases(rng, tier):
    n = 1300 if tier == "quick" else 9000
    out = [gen_case(rng, kind=GEN_KINDS[i % len(GEN_KINDS)]) for i in range(n)]
    if tier == "thorough":
        out += [gen_case(rng, big=True, kind=GEN_KINDS[i % len(GEN_KINDS)]) for i in range(2600)]
    return out


def search_cases(rng, tier):
    for i in range(40000):
        yield gen_case(rng, big=(i % 5 == 4))


def features(case, obs):
    yield "kind=" + case["w"]
    yield "result=" + ("ok" if obs.get("out") is not None else str(obs.get("err", "harness_exception")))
    cl = case["classes"]
    yield "n=" + ("0" if not cl else "1" if len(cl) == 1 else "2-10" if len(cl) <= 10 else "11-16" if len(cl) <= 16
                  else "17-64" if len(cl) <= 64 else ">64")
    if case.get("over"):
        yield "over=" + case["over"]["w"] + ("" if obs.get("composed") is not None else "(raised)" if "composed" in obs else "(n/a)")
    yield "provider=" + case.get("prov", "list")
    yield "getitem_class=" + case.get("rep", "int")
    yield "C=" + ("<=6" if case["C"] <= 6 else str(case["C"]))
    if case.get("prov", "list") != "none":
        yield "getall_class=" + ("list of " + case.get("arep", "int") if case.get("prov", "list") in ("list", "own_list")
                                 else rep_dtype(case.get("arep", "int")))
    if obs.get("impure"):
        yield "impure=" + obs["impure"][0]["what"]
    for call, tag in ((case, "names"), (case.get("over"), "over_names")):
        if call and by_name(call):
            names = case.get("class_names") or default_names(case["C"])
            req = requested_names(call)
            dup = {x for x in names if names.count(x) > 1}
            yield tag + "=" + ("unique" if not dup else "duplicate-requested" if dup & set(req) else "duplicate-not-requested")
            yield tag + "_form=" + req_form(call)
            if req_form(call) in ("str", "np_str"):
                inside = [x for x in set(names) if x != req[0] and x in req[0]]
                yield tag + "_bare_string=" + ("equals-a-name" if req[0] in names else "no-name") + \
                    ("+contains-other-names" if inside else "")
            yield tag + "_requested=" + ("none" if not req else "all" if set(names) <= set(req) else
                                         "+".join(sorted({"known" if x in names else "unknown" for x in req}
                                                         | ({"repeated"} if len(set(req)) < len(req) else set()))))
    if case["w"] in SEEDED:
        sd = case["seed"]
        yield "seed=" + ("None" if sd is None else ("numpy-" if case.get("seed_np") else "bool-" if isinstance(sd, bool) else "")
                         + ("0" if not sd else "small" if sd < 2 ** 31 else ">=2**31" if sd < 2 ** 64 else ">=2**64"))
    if case["w"] in CLASS_BASED:
        yield "unlabeled=%s" % ("none" if -1 not in cl else "all" if set(cl) == {-1} else "some")
    if case["w"] == "oversample" and cl:
        k = collections.Counter(x for x in cl if x != -1)
        if k:
            mx = max(k.values())
            yield "oversample_quotient=" + ("integer>1" if any(v < mx and mx % v == 0 for v in k.values()) else
                                            "next-to-integer" if any(v < mx and (mx % v in (1, v - 1)) for v in k.values()) else "other")
    if case["w"] in ("oversample", "sort", "intra", "fewshot", "cw_range", "cw_percent", "class_filter"):
        yield "absent_class=%s" % (len(set(cl)) < case["C"])
        yield "single_sample_class=%s" % (1 in collections.Counter(cl).values())
    for k in ("from", "to", "s", "e"):
        if k in case and case["w"] in ("percent", "subset_percent", "cw_percent"):
            v = case[k]
            yield f"percent_{k}=" + ("None" if v is None else "0" if v == 0 else "1" if v == 1 else "out" if not 0 <= v <= 1 else "inner")
    if case["w"] in ("subset_range", "cw_range"):
        yield "end=" + ("None" if case["e"] is None else "0" if case["e"] == 0 else ">=n" if case["e"] >= len(cl) else "inner")


def nontrivial_key(case, obs):
    if not obs.get("out"):
        return None
    return (case["w"], tuple(case["classes"]), case["C"],
            tuple(sorted((k, str(v)) for k, v in case.items() if k not in ("w", "classes", "C", "prov", "rep", "arep"))))


def shrink(case):
    cl = case["classes"]
    n = len(cl)
    if "idxs" not in case:
        size = n // 2
        while size >= 2:                      # whole chunks first (large layouts)
            for a in range(0, n, size):
                yield dict(case, classes=cl[:a] + cl[a + size:])
            size //= 2
    for i in range(n):
        c2 = dict(case, classes=cl[:i] + cl[i + 1:])
        if "idxs" in case:
            c2["idxs"] = [j for j in case["idxs"] if -(n - 1) <= j < n - 1]
        yield c2
    if case["C"] > 1 and all(x < case["C"] - 1 for x in cl):
        c2 = dict(case, C=case["C"] - 1)
        if case.get("class_names"):
            c2["class_names"] = case["class_names"][:-1]
        yield c2
    if case.get("class_names"):
        yield {k: v for k, v in case.items() if k != "class_names"}
    for i, x in enumerate(cl):
        if x > 0:
            yield dict(case, classes=cl[:i] + [x - 1] + cl[i + 1:])
    for k in ("idxs", "cls", "req"):
        if k in case:
            for i in range(len(case[k])):
                yield dict(case, **{k: case[k][:i] + case[k][i + 1:]})
    if case.get("over") and case["over"].get("req"):
        req = case["over"]["req"]
        for i in range(len(req)):
            yield dict(case, over=dict(case["over"], req=req[:i] + req[i + 1:]))
    for k in ("s", "e", "reps", "min_size", "shots"):
        if isinstance(case.get(k), int) and case[k] > 0:
            yield dict(case, **{k: case[k] - 1})
    for k in ("from", "to", "s", "e"):
        if isinstance(case.get(k), float) and case[k] not in (0.0, 1.0, 0.5):
            yield dict(case, **{k: 0.5})
    if case.get("prov", "list") != "list":
        yield dict(case, prov="list")
    for k in ("rep", "arep"):
        if k in case:
            yield {a: b for a, b in case.items() if k != a}
            if rep_dtype(case[k]) != "int64":
                yield dict(case, **{k: case[k].split("_")[0] + "_int64"})
    if "over" in case:
        yield {k: v for k, v in case.items() if k != "over"}
    if case.get("seed_np"):
        yield dict(case, seed_np=False)
    if case.get("seed") and not isinstance(case["seed"], bool):
        yield dict(case, seed=0)
        if case["seed"] > 1:
            yield dict(case, seed=1)
