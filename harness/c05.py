"""C05 — interleaved scheduler: side passes run exactly when due, whole, unmixed."""
from . import interleaved as I
from . import c04
from .common import coq

ID = "C05"
COQ_FILES = I.COQ_FILES + ["C04/PropertyC05.v"]
COQ_PRELUDE = I.COQ_PRELUDE
COQ_CHECK = "check"
COQ_CASE_TYPE = "case_t"
TRUSTED = I.TRUSTED
ASSUMPTIONS = c04.ASSUMPTIONS + ["every iteration of a side sampler yields len(sampler) valid indices (any order, may "
                                 "change from pass to pass); set_epoch is not called on side samplers"]
RULE = ("same generator as C04 with 1-4 configs favoured (thorough: up to 6; plus evaluation suites of 9-14 configs over "
        "tiny datasets with different intervals, only a few configs far apart in the list due after an update), "
        "indices yielded as Python ints / numpy scalars / 0-d tensor views of an index tensor the sampler keeps "
        "(snapshotted before / after: the scheduler must not change it), 40% of the longer side samplers yield "
        "another order on every pass; non-trivial = at least one side pass after a main update or a zero budget with "
        "configs; distinct by (geometry, budget, config intervals); plus construction histories: the same config "
        "and sampler objects handed to 2-3 InterleavedSamplers with different main batch sizes / budgets (training "
        "sampler, eval-only sampler, ...), each iteration compared with the model of a fresh configuration, and "
        "config attributes snapshotted before / after every step; configs sharing ONE dataset object with each other / "
        "with the main sampler (every yielded index resolved through the real concat dataset, every batch through the "
        "collator of the config it was drawn for); kappadata's own rank-aware samplers (one rank of world_size 1..3) and "
        "mocks with misleading effective_length / total_size / num_samples attributes as side and main samplers; "
        "simultaneously live iterators")
search_cases = I.search_cases
run_impl = I.run_impl
coq_applicable = c04.coq_applicable
coq_case = c04.coq_case
features = c04.features


def gen_cases(rng, tier):
    out = []
    n = 700 if tier == "quick" else 6000
    while len(out) < n:
        c = I.gen_bounded(rng, size="mid" if (tier == "thorough" and rng.random() < 0.3) else "small")
        if c["sides"] or rng.random() < 0.1:
            out.append(c)
    if tier == "thorough":
        while len(out) < n + 700:
            c = I.gen_bounded(rng, size="large")
            if c["sides"]:
                out.append(c)
    # evaluation suites: 9-14 configs with different intervals, few (sparse) configs due after an update
    out += [I.gen_many_configs(rng) for _ in range(60 if tier == "quick" else 600)]
    # main and side samplers drawing lazily from one shared draw source
    out += [I.gen_drawn_case(rng) for _ in range(30 if tier == "quick" else 300)]
    # construction histories: the same config objects in several InterleavedSamplers
    k = 0
    while k < (130 if tier == "quick" else 1500):
        c = I.gen_history_case(rng, want=lambda c: bool(c["sides"]))
        if c["sides"] and c.get("others"):
            out.append(c)
            k += 1
    # the real DataLoader with per-dataset collators: 0 workers (thorough: 0 and 2)
    n_loader = 12 if tier == "quick" else 60
    k = 0
    while k < n_loader:
        c = I.gen_bounded(rng)
        if c["sides"] and c["start"] is None and c["N"] <= 16 and c["budget"][1] > 0:
            c["loader"] = 0 if (tier == "quick" and k >= 4) or k % 2 == 0 else 2
            out.append(c)
            k += 1
    return out


def segments(case, log):
    """side events following each main update (and those before the first one)"""
    segs = [[]]
    for ev in log:
        if ev[0] != "Y":
            continue
        if ev[2] < case["dsN"]:
            if ev[1]:
                segs.append([])
        else:
            segs[-1].append(ev)
    return segs


def side_proj(case, log):
    """the side passes after every main update, with their batch flags"""
    return segments(case, log)


def oracle(case, obs):
    """what the streams show first, then: no step of the history changed a config object it was given"""
    return (stream_oracle(case, obs)
            or ("harness_exception" not in obs and (I.storage_violation(obs) or I.config_mutation_violation(obs))) or None)


def stream_oracle(case, obs):
    if "harness_exception" in obs:
        return "harness exception: " + obs["harness_exception"] + obs.get("tb", "")
    msg = I.history_violation(case, obs, side_proj, "side passes")
    if msg:
        return msg
    e0 = I.start_epoch_of(case)
    if not isinstance(e0, str) and not I.before_budget(case, e0):
        return None  # a checkpoint at / past the budget: outside the claim
    if not isinstance(e0, str) and obs["result"] == "RUNAWAY":
        return f"stream does not end (more than {I.MAX_EVENTS} events or the CPU-time guard): a side pass / the run is not whole"
    if isinstance(e0, str) or obs["result"] != "ok":
        return None
    exp = I.spec_stream(case, e0, pass0=obs.get("pass0"))
    a, b = segments(case, exp), segments(case, obs["log"])
    if any(v == 0 for v in I.budgets(case).values()):
        if exp != obs["log"]:
            return I.items_tag(exp, obs["log"]) + f"zero budget: expected exactly one full pass over every config {exp[:8]}.. got {obs['log'][:8]}.."
    n = min(len(a), len(b))
    for k in range(n):
        if a[k] != b[k]:
            return (I.ITEMS + f"side passes after main update #{k} (counted from the start of this run) differ: "
                    f"expected {a[k][:10]} got {b[k][:10]}")
    # no batch mixes datasets; every index resolves to the dataset/sample it was drawn for
    if isinstance(obs.get("batches"), list):
        for bt in obs["batches"]:
            if len({I.ds_of(case, i)[0] for i in bt}) > 1:
                return f"batch {bt} mixes datasets"
    for r in obs.get("resolve", []):
        d, j = I.ds_of(case, r[0])
        if len(r) != 3 or r[1] != d or r[2] != [I.ds_tag(case, d), j]:
            return (f"index {r[0]} should resolve to dataset {d} (object #{I.ds_tag(case, d)}) sample {j}, concat "
                    f"dataset answered {r[1:]}")
    # through the real DataLoader: one dataset per batch, collated by that dataset's collator
    if case.get("loader") is not None:
        lb = obs.get("loader_batches")
        if not isinstance(lb, list):
            return f"DataLoader(num_workers={case['loader']}) failed: {lb}"
        expb = I.expected_loader_batches(case, exp)
        if lb != expb:
            k = next((i for i in range(min(len(lb), len(expb))) if lb[i] != expb[i]), min(len(lb), len(expb)))
            return (f"DataLoader(num_workers={case['loader']}) batch {k}: expected [collator tag, samples] "
                    f"{expb[k:k + 1]} got {lb[k:k + 1]}")
    # side batch flags: config batch size else main, short final batch (checked via spec equality above)
    return None


def nontrivial_key(case, obs):
    if obs.get("result") != "ok":
        return None
    segs = segments(case, obs["log"])
    if not any(segs[1:]) and not (case["budget"][1] == 0 and case["sides"]):
        return None
    return (case["N"], case["B"], case["drop_last"], case["D"], tuple(case["budget"]),
            tuple((s["ene"], s["enu"], s["ens"], s["bs"], len(s["idx"]), s.get("shuffle") is not None)
                  for s in case["sides"]), len(case.get("scenario") or []))


shrink = I.shrink_keeping(oracle, run_impl)
