(* C14 — geometric transforms stay in bounds; recorded parameters tell the truth;
   paired image/segmentation transforms share geometry; patchify/unpatchify, patch
   shuffle and norm/denorm are mutual inverses.
   Statements only; proofs are in Proofs.v.  Quantification: every image size, target
   size, padding, every recorded draw list satisfying the generator contract
   (draws_ok: integers(lo, hi) in [lo, hi)), every oracle value satisfying the stated
   contract (candidates of the resized crop / erasing, float32 products of the
   spec-augment mask, rounded fallback side).  A model result [Ok _] means: the code
   returned (did not raise) and consumed exactly the recorded draws. *)
From Coq Require Import ZArith List Bool QArith Qabs.
Import ListNotations.
From KD Require Import C14.Model C14.Spec C14.Proofs.
Open Scope Z_scope.

(* ---- KDRandomCrop / KDSimpleRandomCrop / KDTwoRandomCrop ---- *)
(* every (H, W, th, tw, padding) the code does not reject, every contract-satisfying draw:
   the recorded window lies inside the padded image and has the requested size *)
Theorem crop_in_bounds : forall c H W ds Hp Wp p,
  0 <= c_th c -> 0 <= c_tw c -> draws_ok ds ->
  random_crop c H W ds = Ok (Hp, Wp, p) ->
  (Hp, Wp) = padded_dims c H W /\ in_bounds Hp Wp p /\ has_size (c_th c) (c_tw c) p.
Proof. exact random_crop_ok. Qed.
Print Assumptions crop_in_bounds.

(* which inputs are rejected: when the crop fits the padded image no error is raised at all (the model answers
   Ok or, for a draw list that is not the one the code would make, Mismatch); pad_if_needed always makes it fit *)
Theorem crop_that_fits_is_never_rejected : forall c H W ds k,
  c_th c <= fst (padded_dims c H W) -> c_tw c <= snd (padded_dims c H W) ->
  random_crop c H W ds <> Reject k.
Proof. exact random_crop_fits_no_reject. Qed.
Print Assumptions crop_that_fits_is_never_rejected.

Theorem crop_pad_if_needed_never_rejected : forall c H W ds k,
  c_pin c = true -> random_crop c H W ds <> Reject k.
Proof. exact random_crop_pin_no_reject. Qed.
Print Assumptions crop_pad_if_needed_never_rejected.

Theorem simple_crop_in_bounds : forall size c H W ds H1 W1 Hp Wp p,
  0 <= c_th c -> 0 <= c_tw c -> draws_ok ds ->
  simple_random_crop size c H W ds = Ok (H1, W1, (Hp, Wp, p)) ->
  (H1, W1) = resize_dims size H W /\ (Hp, Wp) = padded_dims c H1 W1 /\
  in_bounds Hp Wp p /\ has_size (c_th c) (c_tw c) p.
Proof. exact simple_random_crop_ok. Qed.
Print Assumptions simple_crop_in_bounds.

(* both crops in bounds; the recorded overlap is intersection / union of the two recorded windows;
   unless out_of_tries is recorded it lies in the requested range *)
Theorem two_crop_in_bounds_and_overlap_truthful : forall c tries omin omax H W ds Hp Wp o,
  0 <= c_th c -> 0 <= c_tw c -> draws_ok ds ->
  two_random_crop c tries omin omax H W ds = Ok (Hp, Wp, o) ->
  (Hp, Wp) = padded_dims c H W /\
  in_bounds Hp Wp (t_p0 o) /\ has_size (c_th c) (c_tw c) (t_p0 o) /\
  in_bounds Hp Wp (t_p1 o) /\ has_size (c_th c) (c_tw c) (t_p1 o) /\
  (t_inter o, t_union o) = overlap_parts (t_p0 o) (t_p1 o) /\ t_union o <> 0 /\
  (t_oot o = false ->
     qz_le omin (t_inter o, t_union o) = true /\ qz_le (t_inter o, t_union o) omax = true).
Proof. exact two_random_crop_ok. Qed.
Print Assumptions two_crop_in_bounds_and_overlap_truthful.

(* ---- KDRandomResizedCrop ---- *)
(* both branches: a sampled candidate that passed the guard, and the central-crop fallback whose rounded side
   satisfies |r - exact| < 1 and whose branch was chosen by a monotone comparison *)
Theorem rrc_in_bounds : forall H W rmin rmax cands ds fb r p,
  0 <= H -> 0 <= W -> 0 < fst rmin -> 0 < snd rmin -> 0 < fst rmax -> 0 < snd rmax ->
  draws_ok ds -> fb_contract H W rmin rmax fb r ->
  rrc H W cands ds fb r = Ok p ->
  in_bounds H W p /\ (0 < H -> 0 < W -> (fb = FbWhole \/ 1 <= r) -> positive p).
Proof. exact rrc_ok. Qed.
Print Assumptions rrc_in_bounds.

(* the guard 0 < w <= W /\ 0 < h <= H alone is sufficient on the sampled branch: no contract on the candidates *)
Theorem rrc_guard_sufficient : forall H W cands ds fb r w h p,
  draws_ok ds -> rrc_attempts 10 H W cands = Ok (Some (w, h)) ->
  rrc H W cands ds fb r = Ok p ->
  in_bounds H W p /\ positive p /\ has_size h w p.
Proof. exact rrc_sampled_ok. Qed.
Print Assumptions rrc_guard_sufficient.

(* ---- KDRandomErasing ---- *)
Theorem erase_in_bounds : forall apply minc maxc H W cands ds l,
  Forall cand_nonneg cands -> draws_ok ds ->
  erasing apply minc maxc H W cands ds = Ok l ->
  Forall (erase_ok H W) l /\ (length l <= Z.to_nat (Z.max minc (maxc - 1)))%nat /\ (apply = false -> l = []).
Proof. exact erasing_ok. Qed.
Print Assumptions erase_in_bounds.

(* ---- KDSpecAugment ---- *)
Theorem specaug_mask_in_bounds_and_shorter_than_param : forall size P value y minv s e,
  specaug_contract size P value y minv ->
  mask_axis P value minv = Ok (Some (s, e)) ->
  1 <= P /\ 0 <= e - s < P /\ (P <= size -> 0 <= s /\ e <= size).
Proof. exact mask_axis_ok. Qed.
Print Assumptions specaug_mask_in_bounds_and_shorter_than_param.

Theorem specaug_masked_indices_inside_axis : forall size m k, masked size m k = true -> 0 <= k < size.
Proof. exact masked_inside. Qed.
Print Assumptions specaug_masked_indices_inside_axis.

(* the float32 fact behind the assert of _mask_along_axis: u a float32 in [0, 1 - 2^-24], P an integer with
   2^(e-1) < P <= 2^e <= 2^24 (twoe = 2^e), v = fl32(u * P) at least as close to u * P as the float32 just below P
   (round to nearest): then v < P ... *)
Theorem specaug_float32_product_below_param : forall (P twoe : Z) (u v : Q),
  1 <= P -> P <= twoe -> twoe < 2 * P ->
  (0 <= u)%Q -> (u <= 1 - 1 / inject_Z (2 ^ 24))%Q ->
  (let x := u * inject_Z P in let pfl := inject_Z P - inject_Z twoe / inject_Z (2 ^ 24) in
   Qabs (v - x) <= Qabs (pfl - x))%Q ->
  (v < inject_Z P)%Q.
Proof. exact fl32_product_below_param. Qed.
Print Assumptions specaug_float32_product_below_param.

(* ... and then the assertion mask_end - mask_start < mask_param holds, whatever the second product is *)
Theorem specaug_assert_never_fires : forall P value minv,
  1 <= P -> (0 <= value)%Q -> (value < inject_Z P)%Q ->
  exists s e, mask_axis P value minv = Ok (Some (s, e)) /\ 0 <= e - s < P.
Proof. exact mask_axis_assert_holds. Qed.
Print Assumptions specaug_assert_never_fires.

(* ---- semantic-segmentation pairs ---- *)
Theorem semseg_same_geometry : forall ops x seg ds gs x' seg',
  same_geometry x seg -> semseg_run ops x seg ds = Ok (gs, x', seg') -> same_geometry x' seg'.
Proof. exact semseg_run_same. Qed.
Print Assumptions semseg_same_geometry.

(* every pad is non-negative, every crop window lies inside the pair as it is at that point *)
Theorem semseg_params_in_bounds : forall ops x seg ds gs x' seg',
  Forall sop_wf ops -> 0 <= gh x -> 0 <= gw x -> draws_ok ds ->
  semseg_run ops x seg ds = Ok (gs, x', seg') ->
  geoms_ok gs (gh x, gw x) /\ (gh x', gw x') = fold_left (fun hw g => geom_dims g hw) gs (gh x, gw x).
Proof. exact semseg_run_geoms_ok. Qed.
Print Assumptions semseg_params_in_bounds.

(* every pixel of the result shows a pixel of the input (or a fill value) *)
Theorem semseg_sources_in_bounds : forall H0 W0 ops x seg ds gs x' seg',
  Forall sop_pos ops -> 0 < gh x -> 0 < gw x -> draws_ok ds ->
  sources_inside H0 W0 x -> sources_inside H0 W0 seg -> same_geometry x seg ->
  semseg_run ops x seg ds = Ok (gs, x', seg') ->
  sources_inside H0 W0 x' /\ sources_inside H0 W0 seg' /\ 0 < gh x' /\ 0 < gw x'.
Proof. exact semseg_run_sources. Qed.
Print Assumptions semseg_sources_in_bounds.

(* ---- nearest-neighbour resizes of a pair (KDSemsegResize / KDSemsegRandomResize) ---- *)
(* image and mask resized with the same index maps stay aligned: at every output pixel an id-encoded image and the
   mask show the same source pixel.  No contract on the maps is needed for alignment. *)
Theorem semseg_resize_same_geometry : forall nh nw my mx x seg,
  same_geometry x seg ->
  same_geometry (apply_geom (GResize nh nw my mx) x) (apply_geom (GResize nh nw my mx) seg) /\
  forall a b, gsrc (apply_geom (GResize nh nw my mx) x) a b = gsrc (apply_geom (GResize nh nw my mx) seg) a b.
Proof. exact resize_same_geometry. Qed.
Print Assumptions semseg_resize_same_geometry.

(* a recorded map the model accepts (nominal index, or one below it at a tie) stays inside the source axis *)
Theorem nearest_map_in_range : forall k n_in n_out m i, 0 < n_in -> nn_okb k n_in n_out m = true -> 0 <= i < n_out ->
  0 <= nn_at m i < n_in.
Proof. exact nn_okb_in_range. Qed.
Print Assumptions nearest_map_in_range.

(* image resized bilinearly / bicubically, mask nearest (the default of both transforms): where the mask's NOMINAL
   source pixel m lies relative to the centre c = (i + 1/2) n_in / n_out - 1/2 the image interpolates around;
   2 n_out (m - c) = 2 n_out m - (2 i + 1) n_in + n_out.
   PIL inputs: |m - c| <= 1/2 (the mask shows the pixel containing the image's sampling centre).
   tensor inputs: -1/2 - s/2 < m - c <= 1/2 - s/2, s = n_in / n_out: torch's legacy NEAREST is corner-anchored, the mask
   lags the image by (s - 1) / 2 source pixels, i.e. by less than half an OUTPUT pixel; NEAREST_EXACT would be centred. *)
Theorem nearest_vs_bilinear_grid_pil : forall n_in n_out i, 0 < n_out ->
  let m := nn_nominal NPil n_in n_out i in
  - n_out < 2 * n_out * m - (2 * i + 1) * n_in + n_out <= n_out.
Proof. exact nn_grid_pil. Qed.
Print Assumptions nearest_vs_bilinear_grid_pil.

Theorem nearest_vs_bilinear_grid_torch : forall n_in n_out i, 0 < n_out ->
  let m := nn_nominal NTorch n_in n_out i in
  - n_out - n_in < 2 * n_out * m - (2 * i + 1) * n_in + n_out <= n_out - n_in.
Proof. exact nn_grid_torch. Qed.
Print Assumptions nearest_vs_bilinear_grid_torch.

(* KDSemsegPad reaches the requested size, centred, with non-negative paddings *)
Theorem semseg_pad_reaches_size : forall th tw H W,
  pad_nonneg (semseg_pad_params th tw H W) /\
  pad_dims (H, W) (semseg_pad_params th tw H W) = (Z.max H th, Z.max W tw).
Proof. exact semseg_pad_params_ok. Qed.
Print Assumptions semseg_pad_reaches_size.

Theorem multicrop_windows_in_bounds : forall ch cw H W l,
  0 < ch -> 0 < cw -> 0 < H -> 0 < W ->
  multicrop_windows ch cw H W = Ok l ->
  Forall (fun p => in_bounds H W p /\ has_size ch cw p) l /\ l <> [].
Proof. exact multicrop_ok. Qed.
Print Assumptions multicrop_windows_in_bounds.

(* the overlapping windows cover every pixel of the pair *)
Theorem multicrop_windows_cover : forall ch cw H W l,
  0 < ch -> 0 < cw -> 0 < H -> 0 < W ->
  multicrop_windows ch cw H W = Ok l ->
  forall y x, 0 <= y < H -> 0 <= x < W ->
    exists top lft, In (top, lft, ch, cw) l /\ top <= y < top + ch /\ lft <= x < lft + cw.
Proof. exact multicrop_covers. Qed.
Print Assumptions multicrop_windows_cover.

(* ---- two-crop overlap: symmetric in the two windows; in [0, 1]; 1 exactly for coinciding windows ---- *)
Theorem two_crop_overlap_symmetric : forall p0 p1, overlap_parts p0 p1 = overlap_parts p1 p0.
Proof. exact overlap_parts_sym. Qed.
Print Assumptions two_crop_overlap_symmetric.

Theorem two_crop_overlap_in_unit_interval : forall i0 j0 i1 j1 h w inter union, 0 < h -> 0 < w ->
  overlap_parts (i0, j0, h, w) (i1, j1, h, w) = (inter, union) ->
  0 <= inter <= union /\ 0 < union /\ (inter = union <-> (i0 = i1 /\ j0 = j1)).
Proof. exact overlap_parts_unit. Qed.
Print Assumptions two_crop_overlap_in_unit_interval.

(* ---- patchify / unpatchify ---- *)
Theorem unpatchify_patchify_id : forall A ph pw lw (t : t3 A) c y x,
  0 < ph -> 0 < pw -> 0 <= x < lw * pw ->
  unpatchify_image ph pw lw (patchify_image ph pw lw t) c y x = t c y x.
Proof. exact unpatchify_patchify_image. Qed.
Print Assumptions unpatchify_patchify_id.

Theorem patchify_unpatchify_id : forall A ph pw lw (u : t4 A) c l p q,
  0 < lw -> 0 <= p < ph -> 0 <= q < pw ->
  patchify_image ph pw lw (unpatchify_image ph pw lw u) c l p q = u c l p q.
Proof. exact patchify_unpatchify_image. Qed.
Print Assumptions patchify_unpatchify_id.

Theorem unpatchify_patchify_5d_id : forall A ph pw (t : t3 A) c y x,
  0 < ph -> 0 < pw -> unpatchify ph pw (patchify ph pw t) c y x = t c y x.
Proof. exact unpatchify_patchify. Qed.
Print Assumptions unpatchify_patchify_5d_id.

Theorem patchify_unpatchify_5d_id : forall A ph pw (u : t5 A) c a b p q,
  0 <= p < ph -> 0 <= q < pw -> patchify ph pw (unpatchify ph pw u) c a b p q = u c a b p q.
Proof. exact patchify_unpatchify. Qed.
Print Assumptions patchify_unpatchify_5d_id.

(* with the recorded lh, lw every pixel gets a patch index and offsets in range *)
Theorem patchify_indices_in_range : forall ph pw H W lh lw,
  0 < ph -> 0 < pw -> 0 <= H -> 0 <= W ->
  patchify_params ph pw H W = Ok (lh, lw) ->
  lh * ph = H /\ lw * pw = W /\
  forall y x, 0 <= y < H -> 0 <= x < W ->
    0 <= y / ph * lw + x / pw < lh * lw /\ 0 <= y mod ph < ph /\ 0 <= x mod pw < pw.
Proof. exact patchify_params_ok. Qed.
Print Assumptions patchify_indices_in_range.

(* ---- PatchwiseTransform: patchify -> per-patch transform -> unpatchify ---- *)
(* output pixel (y, x) = pixel (y mod ph, x mod pw) of what the wrapped transform returns on its call number
   l = (y / ph) * sw + x / pw, and that call receives exactly the ph x pw block of the input containing (y, x) *)
Theorem patchwise_composition_index_map : forall A ph pw sw (f : Z -> p3 A -> p3 A) (t : t3 A) c y x,
  0 < pw -> 0 <= x < sw * pw ->
  let l := y / ph * sw + x / pw in
  patchwise ph pw sw f t c y x =
  f l (fun c' p q => t c' (y / ph * ph + p) (x / pw * pw + q)) c (y mod ph) (x mod pw).
Proof. exact patchwise_index_map. Qed.
Print Assumptions patchwise_composition_index_map.

Theorem patchwise_identity_is_identity : forall A ph pw sw (t : t3 A) c y x,
  0 < ph -> 0 < pw -> 0 <= x < sw * pw ->
  patchwise ph pw sw (fun _ u => u) t c y x = t c y x.
Proof. exact patchwise_identity. Qed.
Print Assumptions patchwise_identity_is_identity.

(* ---- patch shuffle: indexing with argsort of the recorded permutation undoes x[:, permutation] ---- *)
Theorem unshuffle_shuffle_id : forall A perm (u : t4 A) c l p q,
  is_perm perm -> 0 <= l < Z.of_nat (length perm) ->
  shuffle (argsort perm) (shuffle perm u) c l p q = u c l p q.
Proof. exact unshuffle_shuffle. Qed.
Print Assumptions unshuffle_shuffle_id.

Theorem shuffle_unshuffle_id : forall A perm (u : t4 A) c l p q,
  is_perm perm -> 0 <= l < Z.of_nat (length perm) ->
  shuffle perm (shuffle (argsort perm) u) c l p q = u c l p q.
Proof. exact shuffle_unshuffle. Qed.
Print Assumptions shuffle_unshuffle_id.

(* ---- norm / denorm over Q ---- *)
Theorem denorm_norm_id : forall m s x : Q, (~ s == 0 -> kd_denorm m s (kd_norm m s x) == x)%Q.
Proof. exact denorm_norm. Qed.
Print Assumptions denorm_norm_id.

Theorem norm_denorm_id : forall m s x : Q, (~ s == 0 -> kd_norm m s (kd_denorm m s x) == x)%Q.
Proof. exact norm_denorm. Qed.
Print Assumptions norm_denorm_id.

Theorem range_denorm_norm_id : forall x : Q, (range_denorm (range_norm x) == x /\ range_norm (range_denorm x) == x)%Q.
Proof. exact range_both. Qed.
Print Assumptions range_denorm_norm_id.

(* ---- non-vacuity: the premises are satisfiable and the results are Ok on concrete inputs ---- *)
Example crop_nonvacuous :
  random_crop {| c_th := 3; c_tw := 4; c_padding := Some (1, 0, 1, 0); c_pin := true |} 2 9 [(0, 2, 1); (0, 8, 7)]
  = Ok (4, 11, (1, 7, 3, 4)).
Proof. vm_compute. reflexivity. Qed.

Example two_nonvacuous :
  exists o, two_random_crop {| c_th := 2; c_tw := 2; c_padding := None; c_pin := false |} 3 (1, 4) (1, 1) 4 4
              [(0, 3, 0); (0, 3, 0); (0, 3, 2); (0, 3, 2); (0, 3, 0); (0, 3, 1)] = Ok (4, 4, o) /\ t_oot o = false.
Proof. eexists. vm_compute. split; reflexivity. Qed.

Example rrc_sampled_nonvacuous : rrc 5 7 [(9, 2); (3, 4)] [(0, 2, 1); (0, 5, 4)] FbWhole 0 = Ok (1, 4, 4, 3).
Proof. vm_compute. reflexivity. Qed.

Example rrc_fallback_nonvacuous :
  fb_contract 1 30 (3, 4) (4, 3) FbHi 1 /\
  rrc 1 30 (repeat (40, 40) 10) [] FbHi 1 = Ok (0, 14, 1, 1).
Proof. split; [vm_compute; intuition discriminate | vm_compute; reflexivity]. Qed.

Example erase_nonvacuous :
  erasing true 2 2 6 6 [(7, 1); (2, 3); (1, 1)] [(0, 5, 4); (0, 4, 0); (0, 6, 5); (0, 6, 0)] = Ok [(4, 0, 2, 3); (5, 0, 1, 1)].
Proof. vm_compute. reflexivity. Qed.

Example specaug_nonvacuous :
  specaug_contract 10 4 (7 # 2) (13 # 2) (9 # 2) /\ mask_axis 4 (7 # 2) (9 # 2) = Ok (Some (4, 7)).
Proof. split; [unfold specaug_contract; vm_compute; intuition discriminate | vm_compute; reflexivity]. Qed.

Example semseg_nonvacuous :
  exists gs x' seg',
    semseg_run [SPad 4 4; SCrop 3 3 1; SFlip true; SOther] (gimg_id 2 6) (gimg_id 2 6)
               [(0, 2, 1); (0, 4, 3); (0, 2, 0); (0, 4, 2)] = Ok (gs, x', seg') /\
    gs = [GPad (0, 1, 0, 1); GCrop (0, 2, 3, 3); GFlip; GId] /\ gsrc x' 1 0 = Some (0, 4) /\ gsrc seg' 0 2 = None.
Proof. do 3 eexists. vm_compute. repeat split; reflexivity. Qed.

Example multicrop_nonvacuous : multicrop_windows 2 4 4 4 = Ok [(0, 0, 2, 4); (1, 0, 2, 4); (2, 0, 2, 4)].
Proof. vm_compute. reflexivity. Qed.

Example patchify_nonvacuous : patchify_params 2 3 4 9 = Ok (2, 3).
Proof. vm_compute. reflexivity. Qed.

Example perm_nonvacuous : is_perm [2; 0; 3; 1] /\ argsort [2; 0; 3; 1] = [1; 3; 0; 2].
Proof. split; [exact is_perm_example | vm_compute; reflexivity]. Qed.

Example norm_nonvacuous : (kd_norm (1 # 2) (1 # 4) (3 # 4) == 1 /\ kd_denorm (1 # 2) (1 # 4) 1 == 3 # 4)%Q.
Proof. split; vm_compute; reflexivity. Qed.

Example nearest_maps_nonvacuous :
  nn_okb NTorch 5 3 [0; 1; 3] = true /\ nn_okb NPil 5 3 [0; 2; 4] = true /\
  nn_okb NPil 2 7 [0; 0; 0; 0; 1; 1; 1] = true /\      (* Pillow's map for 2 -> 7: entry 3 is a tie, nominally 1 *)
  nn_okb NPil 2 7 [0; 0; 0; 1; 1; 1; 1] = true /\ nn_okb NTorch 5 3 [0; 2; 3] = false.
Proof. vm_compute. repeat split; reflexivity. Qed.

Example semseg_resize_nonvacuous :
  exists gs x' seg',
    semseg_run [SResize 2 3 NTorch [0; 2] [0; 1; 3]; SFlip true] (gimg_id 4 5) (gimg_id 4 5) [] = Ok (gs, x', seg') /\
    gsrc x' 1 0 = Some (2, 3) /\ gsrc seg' 1 0 = Some (2, 3).
Proof. do 3 eexists. vm_compute. repeat split; reflexivity. Qed.

Example fl32_nonvacuous :     (* P = 3, e = 2: u = 1 - 2^-24, fl32(u * 3) = 3 - 2^-22 = the float just below 3 *)
  (let P := inject_Z 3 in let u := 1 - 1 / inject_Z (2 ^ 24) in let v := P - inject_Z 4 / inject_Z (2 ^ 24) in
   Qabs (v - u * P) <= Qabs (P - inject_Z 4 / inject_Z (2 ^ 24) - u * P) /\ v < P)%Q.
Proof. vm_compute. split; [discriminate | reflexivity]. Qed.

Example patchwise_nonvacuous :
  patchwise 1 2 2 (fun l u c p q => u c p (1 - q) + 1000 * l) (fun c y x => 10 * y + x) 0 1 2 = 3013.
Proof. vm_compute. reflexivity. Qed.
