(* C03 — the binary64 and binary32 instances of the percent operations of Model.v and the executable
   entry point `run` used by the correspondence check.  No proofs here; the theorems
   (Proofs.v / Property.v) do not depend on this file. *)
From Coq Require Import ZArith List Bool Floats Uint63 SpecFloat.
Import ListNotations.
From KD Require Import C03.Model.
Open Scope Z_scope.

(* ---------------- binary64 percent -> index ---------------- *)
Definition fz (n : Z) : float := PrimFloat.of_uint63 (Uint63.of_Z n).

(* int(x) for a finite x *)
Definition ftrunc (f : float) : Z :=
  match Prim2SF f with
  | S754_finite s m e =>
      let v := if 0 <=? e then Zpos m * 2 ^ e else Zpos m / 2 ^ (- e) in if s then - v else v
  | _ => 0
  end.

(* np.ceil(x) for a finite x *)
Definition fceil (f : float) : Z :=
  match Prim2SF f with
  | S754_finite s m e =>
      if 0 <=? e then (if s then - (Zpos m * 2 ^ e) else Zpos m * 2 ^ e)
      else if s then - (Zpos m / 2 ^ (- e)) else (Zpos m + 2 ^ (- e) - 1) / 2 ^ (- e)
  | _ => 0
  end.

(* percent * len(dataset), then int() or np.ceil() *)
Definition fcut (ceil : bool) (p : float) (n : Z) : Z :=
  let x := PrimFloat.mul p (fz n) in if ceil then fceil x else ftrunc x.

Definition pct_ok (p : float) : bool := PrimFloat.leb 0%float p && PrimFloat.leb p 1%float.

Definition float_ops : pct_ops float :=
  {| p_zero := 0%float; p_one := 1%float; p_ok := pct_ok; p_leb := PrimFloat.leb; p_cut := fcut |}.

(* ---------------- binary32 percent -> index (ClasswiseSubsetWrapper) ---------------- *)
(* int(start_percent * counts[i]) with counts[i] a 0-dim int64 tensor: torch promotes to its default
   dtype, i.e. both factors are rounded to binary32 and multiplied in binary32 (round to nearest even).
   SpecFloat's operations are parametric in the format: prec = 24, emax = 128. *)
Definition sf_one : spec_float := S754_finite false 1 0.
Definition to_f32 (x : spec_float) : spec_float := SFmul 24 128 x sf_one.    (* rounding to binary32 *)
Definition sf_of_Z (n : Z) : spec_float :=
  match n with Z0 => S754_zero false | Zpos p => S754_finite false p 0 | Zneg p => S754_finite true p 0 end.
Definition sf_trunc (x : spec_float) : Z :=
  match x with
  | S754_finite s m e => let v := if 0 <=? e then Zpos m * 2 ^ e else Zpos m / 2 ^ (- e) in if s then - v else v
  | _ => 0
  end.
Definition fcut32 (ceil : bool) (p : float) (n : Z) : Z :=          (* the wrapper never ceils *)
  sf_trunc (SFmul 24 128 (to_f32 (Prim2SF p)) (to_f32 (sf_of_Z n))).

Definition float32_ops : pct_ops float :=
  {| p_zero := 0%float; p_one := 1%float; p_ok := pct_ok; p_leb := PrimFloat.leb; p_cut := fcut32 |}.

Definition percent_filter := percent_filter_g float_ops.
Definition subset_percent := subset_percent_g float_ops.
Definition classwise_percent := classwise_percent_g float32_ops.

Definition wcase : Type := wcase_g float.
Definition run (classes : list Z) (C : Z) (w : wcase) : option (list Z) :=
  match w with
  | WClasswisePercent s e => classwise_percent classes C s e
  | _ => run_g float_ops classes C w
  end.

(* wrapper wB constructed on top of wrapper wA *)
Definition stacked := stacked_with run.
