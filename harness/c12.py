"""C12 — rank-aware samplers split one global epoch draw evenly and reproducibly."""
import json

from . import pgroup as PG
from . import samplers as S
from .common import coq

ID = "C12"
COQ_FILES = ["C12/Model.v", "C12/Spec.v", "C12/Check.v", "C12/Proofs.v", "C12/Property.v"]
COQ_PRELUDE = ("From Coq Require Import ZArith List Bool.\nImport ListNotations.\n"
               "From KD Require Import C12.Model C12.Spec C12.Check.\n")
COQ_CHECK = "check"
COQ_CASE_TYPE = "case_t"
SHARD = 250
ALLOWED_AXIOMS = []
TRUSTED = [
    "hand-written model coq/C12/Model.v of DistributedSampler (incl. torch's __init__/__iter__ it inherits), "
    "RandomSampler, ClassBalancedSampler, WeightedSampler; tied to KD_REPO by this run's correspondence evaluation "
    "(stream, len, manual_seed arguments and requested draw sizes of every rank compared)",
    "oracle contract: torch.randperm(n)/randint(size=n) return n entries, randperm a permutation of 0..n-1 "
    "(checked on every recorded draw); a torch.Generator is a deterministic function of its seed and the requests "
    "made on it (observed: equal seeds gave equal draws on all ranks in every case)",
    "math.ceil(a / b) on floats equals integer ceiling for the sizes used (nat model, truncated subtraction for n < W)",
    "harness/samplers.py spies (torch.Generator subclass, wrapped randperm/randint/multinomial) and case rendering",
    "'set_epoch changes the draw' is proved for the seed argument only; that torch then draws differently is observed "
    "(requests of >= 10 elements)",
    "one sampler object over a call sequence (set_epoch(e) / list(sampler) in any order): the model says set_epoch only "
    "assigns self.epoch and __iter__ assigns nothing (distributed_/weighted_/class_balanced_object_history); tied to the "
    "code by running one real object of a random rank through a random call sequence per case (list(sampler) again "
    "without set_epoch, set_epoch(e') and back to e) and replaying it in Coq with a draw oracle keyed by the generator "
    "seed (a call that seeds alike but draws differently disagrees with the model); the Python oracle compares every "
    "call with a fresh sampler of that (seed, epoch, rank)",
    "DataLoader tie (Python only, no Coq model of torch's DataLoader): DataLoader(dataset, sampler=s, batch_size=b, "
    "drop_last, num_workers 0 (quick, thorough) / 2 (thorough)) delivers exactly the rank's stream cut by the batch "
    "size, also for the next epoch through the same loader object after set_epoch",
    "default rank / world_size arguments: the model (C12.Model.resolve_rank_world / resolve_torch, pg_after) says they are "
    "the explicit argument, else the process group's value AT CONSTRUCTION, else (0, 1) [torch's DistributedSampler: "
    "else the constructor raises], independent of earlier queries (rank_resolution_independent_of_history - trivial in "
    "Gallina: the model has no place to remember anything).  Tied to the code by PROCESS-GROUP HISTORIES "
    "(harness/pgroup.py): every history runs in processes forked from a pristine server process (torch, kappadata, harness "
    "imported, nothing called); 'sim' = one process with torch.distributed.is_available / is_initialized / get_rank / "
    "get_world_size replaced by a simulated state (these four are what kappadata/utils/distributed.py and torch's "
    "DistributedSampler consult through the module attribute; code that binds them otherwise is seen only by 'gloo'); "
    "'gloo' = 2..3 real processes in real gloo groups (file:// rendezvous, loopback, barrier after init / before destroy), "
    "re-initialised with permuted ranks / fewer members.  Every sampler built in a history is compared (stream, len, "
    "seeds, draws) with the sampler built with the explicit (rank, world size) in the harness process, and replayed "
    "through w_built / cb_built / dist_built in Coq",
    "ENVIRONMENT of the process: the model has no environment to read (pgroup = is_available + the joined group); tied "
    "to the code by running half of the generated histories and 5 directed ones per kind in fresh processes whose "
    "environment holds a launcher's variables (torchrun RANK / WORLD_SIZE / LOCAL_RANK / LOCAL_WORLD_SIZE / GROUP_RANK / "
    "MASTER_ADDR / MASTER_PORT, SLURM_PROCID / SLURM_NTASKS / SLURM_LOCALID, OMPI_COMM_WORLD_*, PMI_*; consistent, "
    "inconsistent (rank >= world size, per process different) or not numbers), each with a default-argument build and "
    "kappadata rank queries WITHOUT a group (must be rank 0 of 1: without_group_rank_0_of_1) and inside a group (the "
    "group's values); variables outside that list are not generated",
    "structural check of kappadata/utils/distributed.py by RUN-TIME INSPECTION (no translator): no function of the module "
    "is a functools caching wrapper (cache_info / cache_clear / cache along __wrapped__), a closure or a non-function "
    "callable, no module-level dict / list / set / bytearray; a cache kept in a rebindable module global is invisible "
    "to this inspection and is caught by the histories only",
    "runaway guard: a sampler run is abandoned after %g s of process CPU time (ITIMER_VIRTUAL) or %g s wall "
    "(ITIMER_REAL fallback) or %d draws and reported as 'iteration does not return'" % (S.CPU_LIMIT, S.WALL_LIMIT, S.MAX_DRAWS),
]
ASSUMPTIONS = ["world size W >= 1, rank < W, num_repeats >= 1; num_repeats > 1 requires shuffle (the code asserts it)",
               "process-group histories: the resolved rank is < the resolved world size (a default rank next to an explicit "
               "smaller world_size is outside the domain for ClassBalancedSampler / WeightedSampler, which do not check; "
               "torch's DistributedSampler raises ValueError there, which is checked); dist.is_available() False together "
               "with an initialised group occurs in simulated histories only",
               "RandomSampler: num_samples=None, explicit generator, n >= 1",
               "WeightedSampler: 1 <= size <= n or None, n >= 1; ClassBalancedSampler in C12: only the rank split "
               "(composition is C13)",
               "samplers of kappadata/samplers outside C12: InterleavedSampler (C04-C06), SemiSampler (C13; per-rank "
               "generators, no shared global draw), SequentialSampler (no rank split, no draw), InfiniteBatchSampler (a "
               "BatchSampler over any sampler: no rank split of its own; its __iter__ refers to undefined names "
               "epoch/update/sample, so an `epochs=`/`updates=`/`samples=` limit raises NameError at the first epoch "
               "boundary - outside every property's anchor, reported only), samplers/base/SamplerBase (unused, not exported; "
               "its __iter__ reads an undefined self.total_size - reported only)"]
RULE = ("dist 55% / cb 15% / weighted 15% / rand 15%; n in 0..25 (thorough ..60) incl. n < W, W in 1..7 (thorough ..9), all ranks, "
        "epochs 0..3, seeds 0..999, num_repeats 1..4, drop_last and shuffle on/off; non-trivial = at least 2 ranks and "
        "a non-empty merged stream; distinct by (kind, n, W, rep, drop_last, shuffle, epoch, #calls); every non-rand case "
        "also drives ONE object of a random rank through 2..5 list(sampler) calls with set_epoch(e') / back to e / no "
        "set_epoch in between; plus 40 (thorough 340) samplers behind a real DataLoader (batch 1..7, drop_last on/off, "
        "workers 0, thorough also 2); 12% of the non-rand cases also carry a PROCESS-GROUP HISTORY of 3..10 steps (init as "
        "rank r of W / destroy / is_available off-on / kappadata rank queries / throwaway samplers / the case's sampler "
        "built with default, explicit or mixed rank and world_size under epochs 0..3), 70% simulated in one process (W in "
        "1..7), 30% in 2..3 real gloo processes; half of the histories run under a launcher's ENVIRONMENT (RANK / "
        "WORLD_SIZE / LOCAL_RANK / SLURM_PROCID / ... set per process to launcher-like, inconsistent or non-numeric values) "
        "and then contain a default-argument build without a group; plus 16 directed schedules per kind (build after init, "
        "each kind of query / preview / build before init, destroy + join another group, explicit arguments inside a group, "
        "5 under torchrun / SLURM / MPI environments with and without a group) and one structural inspection of "
        "kappadata/utils/distributed.py; class-balanced cases: 25% hand out their labels as ndarray / tensor of "
        "int64..uint8, 10% sample by sample without getall_class")


def gen_ops(rng, epoch):
    """call sequence for one sampler object: starts like the per-rank runs (set_epoch(epoch) unless epoch is None, then
    list(sampler)), then a mix of: list(sampler) again without set_epoch, set_epoch(e') + list, set_epoch(epoch) + list"""
    ops = ([] if epoch is None else [["set", epoch]]) + [["iter"]]
    e0 = epoch or 0
    for _ in range(rng.choice([1, 2, 2, 3])):
        q = rng.random()
        if q < 0.35:
            ops.append(["iter"])                       # iterated again, no set_epoch in between
        elif q < 0.75:
            ops += [["set", rng.choice([e0 + 1, e0 + 2, rng.randrange(6)])], ["iter"]]
        else:
            ops += [["set", e0], ["iter"]]             # back to the first epoch
    if rng.random() < 0.5:
        ops += [["set", e0], ["iter"]]
    return ops


def with_ops(rng, case):
    if case["kind"] != "rand":
        case["ops"] = gen_ops(rng, case["epoch"])
        case["ops_rank"] = rng.randrange(case["W"])
    return case


PG_FRACTION = 0.12     # share of the non-rand cases that also carry a process-group history


def with_pg(rng, case, p=PG_FRACTION):
    if case["kind"] != "rand" and rng.random() < p:
        case["pg"] = PG.gen_pg(rng, case["kind"], case["epoch"])
    return case


def gen_case(rng, big=False):
    return with_pg(rng, with_ops(rng, gen_case0(rng, big)))


def gen_directed_pg(rng):
    """the plain schedules (build after init; something asked / built before init; destroy and join another group;
    explicit arguments inside a group) for one small sampler of every rank-aware kind"""
    out = []
    for base in ({"kind": "dist", "n": 11, "W": 2, "shuffle": True, "seed": rng.randrange(1000), "epoch": 1,
                  "drop_last": rng.random() < 0.5, "rep": rng.choice([1, 2])},
                 {"kind": "weighted", "n": 9, "weights": [1.0, 2.0, 0.5] * 3, "size": None, "seed": rng.randrange(1000),
                  "epoch": 1, "W": 2},
                 {"kind": "cb", "classes": [0, 1, 2, 1, 0, 2, 2], "dim": 3, "spc": None, "shuffle": True,
                  "seed": rng.randrange(1000), "epoch": 1, "W": 2}):
        for pg in PG.directed(base["kind"], base["epoch"]):
            out.append({**base, "pg": pg})
    return out


def gen_case0(rng, big=False):
    r = rng.random()
    W = rng.choice([1, 2, 2, 3, 3, 4, 5, 6, 7] + ([8, 9] if big else []))
    seed = rng.randrange(1000)
    epoch = rng.choice([None, 0, 1, 2, 3])
    nmax = 60 if big else 25
    if r < 0.55:
        n = rng.choice([rng.randint(0, nmax), rng.randint(0, W + 1), rng.randint(0, 8)])
        rep = rng.choice([1, 1, 2, 2, 3, 4])
        return {"kind": "dist", "n": n, "W": W, "shuffle": rng.random() < 0.85, "seed": seed, "epoch": epoch,
                "drop_last": rng.random() < 0.5, "rep": rep}
    if r < 0.70:
        C = rng.choice([2, 2, 3, 3, 4, 5])
        n = rng.randint(C, nmax)
        classes = list(range(C)) + [rng.randrange(C) for _ in range(n - C)]
        rng.shuffle(classes)
        q = rng.random()
        if q < 0.08:      # a class is missing
            miss = rng.randrange(C)
            classes = [c if c != miss else (miss + 1) % C for c in classes]
        elif q < 0.12:    # a class is missing but a label beyond the classes keeps the number of distinct labels
            miss = rng.randrange(C)
            classes = [c if c != miss else C for c in classes]
        elif q < 0.20:    # unlabeled entries
            for _ in range(rng.randint(1, 3)):
                classes[rng.randrange(n)] = -1
        dim = C if C > 2 or rng.random() < 0.7 else 1
        c = {"kind": "cb", "classes": classes, "dim": dim, "spc": rng.choice([None, None, 0, 1, 2, 3, 5, 8, 13]),
             "shuffle": rng.random() < 0.85, "seed": seed, "epoch": epoch, "W": W}
        q = rng.random()      # how the dataset hands out its labels (composition under every representation: C13)
        if q < 0.25:
            c["rep"] = rng.choice([r for r in S.REPS[1:] if S.rep_fits(classes, r)])
        elif q < 0.35:
            c["getall"] = False
        return c
    if r < 0.85:
        n = rng.randint(1, nmax)
        weights = [rng.choice([0.5, 1.0, 2.0, 3.5, 10.0]) for _ in range(n)]
        size = rng.choice([None, None, rng.randint(1, n), rng.randint(1, n), n + rng.randint(1, 3)])
        return {"kind": "weighted", "n": n, "weights": weights, "size": size, "seed": seed, "epoch": epoch, "W": W}
    n = rng.randint(1, 70 if big else 40)
    return {"kind": "rand", "n": n, "W": 1, "rep": rng.choice([1, 2, 3, 4]), "replacement": rng.random() < 0.4,
            "seed": seed, "epoch": None}


def gen_cases(rng, tier):
    head = [{"kind": "structure", "W": 1}] + gen_directed_pg(rng)
    if tier == "quick":
        return head + [gen_case(rng) for _ in range(900)] + [gen_loader(rng, 0) for _ in range(40)]
    return (head + [gen_case(rng) for _ in range(6000)] + [gen_case(rng, big=True) for _ in range(2500)]
            + [gen_loader(rng, 0) for _ in range(300)] + [gen_loader(rng, 2) for _ in range(40)])


def search_cases(rng, tier):
    # directed: tiny datasets on many ranks first
    for n in range(0, 6):
        for W in range(1, 8):
            for rep in (1, 2, 3):
                for dl in (False, True):
                    yield {"kind": "dist", "n": n, "W": W, "shuffle": True, "seed": 0, "epoch": 0, "drop_last": dl,
                           "rep": rep}
    yield {"kind": "structure", "W": 1}
    for c in gen_directed_pg(rng):
        yield c
    for _ in range(20000):
        yield with_pg(rng, with_ops(rng, gen_case0(rng, big=rng.random() < 0.3)), p=0.4)


def shrink(c):
    if c["kind"] == "structure":
        return
    if "rep" in c or "getall" in c:
        yield {k: v for k, v in c.items() if k not in ("rep", "getall")}
    if c.get("pg"):
        yield {k: v for k, v in c.items() if k != "pg"}
        for cand in PG.shrink_pg(c["kind"], c["pg"]):
            yield {**c, "pg": cand}
    if c["kind"] == "loader":
        sc = c["sampler"]
        for cand in shrink(sc):
            yield {**c, "sampler": cand}
        if c["workers"]:
            yield {**c, "workers": 0}
        if c["batch"] > 1:
            yield {**c, "batch": c["batch"] - 1}
        return
    if c.get("ops"):
        ops = c["ops"]
        yield {k: v for k, v in c.items() if k not in ("ops", "ops_rank")}
        for i in range(len(ops) - 1, 0, -1):
            yield {**c, "ops": ops[:i] + ops[i + 1:]}
        if c.get("ops_rank"):
            yield {**c, "ops_rank": 0}
    if c.get("epoch") not in (None, 0) and not c.get("ops"):
        yield {**c, "epoch": 0}
    if c.get("seed"):
        yield {**c, "seed": 0}
    if c["kind"] in ("dist", "rand"):
        if c["n"] > 0:
            yield {**c, "n": c["n"] - 1}
        if c["rep"] > 1:
            yield {**c, "rep": c["rep"] - 1}
    if c["kind"] != "rand" and c["W"] > 1:
        yield {**c, "W": c["W"] - 1, "ops_rank": min(c.get("ops_rank", 0), c["W"] - 2)}
    if c["kind"] == "cb":
        for i in range(len(c["classes"])):
            yield {**c, "classes": c["classes"][:i] + c["classes"][i + 1:]}
        if c["spc"] not in (None, 1):
            yield {**c, "spc": 1}
    if c["kind"] == "weighted" and c["n"] > 1:
        yield {**c, "n": c["n"] - 1, "weights": c["weights"][:-1],
               "size": None if c["size"] is None else min(c["size"], c["n"] - 1)}


# ---------------------------------------------------------------------------
# the samplers behind a real DataLoader: delivered batches = the rank's stream cut by the batch size
# ---------------------------------------------------------------------------
def gen_loader(rng, workers):
    while True:
        sc = gen_case0(rng)
        if sc["kind"] != "rand" and expected_result(sc) == "ok" and sc["W"] <= 3:
            break
    sc["epoch"] = rng.choice([0, 1, 2])
    return {"kind": "loader", "W": sc["W"], "sampler": sc, "batch": rng.choice([1, 2, 3, 4, 7]),
            "drop_last_batch": rng.random() < 0.4, "workers": workers, "epoch": sc["epoch"]}


def _run_loader(case):
    from torch.utils.data import DataLoader
    sc = case["sampler"]
    out = {"ranks": []}
    for r in range(sc["W"]):
        s = S.build(sc, r, sc["W"])
        s.set_epoch(sc["epoch"])
        expect = [int(i) for i in s]
        loader = DataLoader(s.dataset, sampler=s, batch_size=case["batch"], drop_last=case["drop_last_batch"],
                            num_workers=case["workers"])
        n_batches = len(loader)
        got = [[int(v) for v in b.tolist()] for b in loader]
        # the next epoch through the same loader object
        s.set_epoch(sc["epoch"] + 1)
        got2 = [[int(v) for v in b.tolist()] for b in loader]
        s2 = S.build(sc, r, sc["W"])
        s2.set_epoch(sc["epoch"] + 1)
        out["ranks"].append({"stream": expect, "batches": got, "len_loader": n_batches, "batches_next": got2,
                             "stream_next": [int(i) for i in s2]})
    return out


def run_loader(case):
    try:
        with S.Alarm(cpu=30.0, wall=300.0):
            return _run_loader(case)
    except S.Runaway:
        return {"ranks": [], "runaway": True}


def cut(stream, b, drop):
    out = [stream[i:i + b] for i in range(0, len(stream), b)]
    if drop and out and len(out[-1]) < b:
        out.pop()
    return out


def oracle_loader(case, obs):
    if obs.get("runaway"):
        return "DataLoader over the sampler does not return"
    b, drop = case["batch"], case["drop_last_batch"]
    for r, o in enumerate(obs["ranks"]):
        want = cut(o["stream"], b, drop)
        if o["batches"] != want:
            return (f"rank {r}: DataLoader(sampler=..., batch_size={b}, drop_last={drop}, num_workers={case['workers']}) "
                    f"delivers {o['batches']}, the rank's stream cut by the batch size is {want}")
        if o["len_loader"] != len(want):
            return f"rank {r}: len(DataLoader) = {o['len_loader']}, delivered {len(want)} batches"
        if o["batches_next"] != cut(o["stream_next"], b, drop):
            return (f"rank {r}: after set_epoch({case['epoch'] + 1}) the same DataLoader delivers {o['batches_next']}, "
                    f"a fresh sampler's stream is {o['stream_next']}")
    lens = {sum(len(x) for x in o["batches"]) for o in obs["ranks"]}
    if len(lens) > 1:
        return f"ranks receive different numbers of samples through their DataLoaders: {sorted(lens)}"
    return None


def run_impl(case):
    if case["kind"] == "loader":
        return run_loader(case)
    if case["kind"] == "structure":
        S.guarded(lambda: None)      # imports
        return {"remarks": PG.inspect_distributed()}
    W = case["W"]
    run_rank = S.run_rank_guarded
    obs = {"ranks": [], "G": [], "hist": None}
    for r in range(W):
        obs["ranks"].append(run_rank(case, r, W))
        if obs["ranks"][-1]["result"] == "RUNAWAY":     # do not wait for the same hang again and again
            return obs
    if case["kind"] == "rand":
        obs["G"] = obs["ranks"][0]["stream"]
        obs["again"] = run_rank(case, 0, 1)["stream"]
        return obs
    g = run_rank(case, 0, 1)
    obs["G"] = g["stream"]
    obs["G_result"] = g["result"]
    e = case["epoch"] or 0
    # equal (seed, epoch) reproduces; equal seed + epoch as well; the next epoch draws differently
    obs["again"] = run_rank(case, W - 1, W)["stream"]
    obs["shifted"] = run_rank(case, W - 1, W, epoch=e + 1, seed=case["seed"] - 1)["stream"]
    nxt = run_rank(case, 0, W, epoch=e + 1)
    obs["next"] = {"seeds": nxt["seeds"], "draws": nxt["draws"], "result": nxt["result"]}
    # one sampler object: set_epoch sequences, iterated again without set_epoch
    if case.get("ops"):
        hr = case.get("ops_rank", 0)
        obs["hist"] = S.run_ops_guarded(case, hr, W, case["ops"])
        # what fresh samplers show for every epoch the object went through
        obs["fresh"] = {}
        for ep in sorted(set(iter_epochs(case["ops"]))):
            f = run_rank(case, hr, W, epoch=ep)
            obs["fresh"][str(ep)] = {"stream": f["stream"], "result": f["result"]}
    # samplers built with default rank / world_size arguments in processes with a process-group history
    if case.get("pg"):
        obs["pg"] = PG.run_pg(case, case["pg"], run_rank)
    return obs


def iter_epochs(ops):
    """the epoch in force at every list(sampler) call of a fresh object (self.epoch = 0 initially)"""
    cur, out = 0, []
    for op in ops:
        if op[0] == "set":
            cur = op[1]
        else:
            out.append(cur)
    return out


def expected_result(case):
    """what the documented domain says about construction/iteration"""
    k = case["kind"]
    if k == "dist":
        return "AssertionError" if case["rep"] > 1 and not case["shuffle"] else "ok"
    if k == "weighted":
        return "AssertionError" if case["size"] is not None and case["size"] > case["n"] else "ok"
    if k == "cb":
        C = max(2, case["dim"])
        present = set(case["classes"])
        return "ok" if present == set(range(C)) else "AssertionError"
    return "ok"


def oracle_history(case, obs, L):
    """one sampler object: every list(sampler) call has len(sampler) entries, is seeded with seed + the epoch in force,
    and shows what a fresh sampler of that (seed, epoch, rank) shows; calls under equal epochs show equal streams"""
    hist = [r for r in obs["hist"] if r is not None]
    eps = iter_epochs(case["ops"])
    hr = case.get("ops_rank", 0)
    what = f"one sampler object (rank {hr}) driven through {case['ops']}"
    for k, (ep, r) in enumerate(zip(eps, hist)):
        if r["result"] == "RUNAWAY":
            return f"{what}: list(sampler) call {k} does not return"
        if r["result"] != "ok":
            return f"{what}: list(sampler) call {k} (epoch {ep}) fails with {r['result']}"
        if r["alien"]:
            return f"{what}: call {k} draws without the epoch's generator"
        if r["len"] != L or len(r["stream"]) != L:
            return f"{what}: call {k} (epoch {ep}) has len {r['len']} and yields {len(r['stream'])} indices, expected {L}"
        fr = obs["fresh"][str(ep)]
        if fr["result"] != "ok" or fr["stream"] != r["stream"]:
            return (f"{what}: call {k} under epoch {ep} yields {r['stream']}, a fresh sampler with equal "
                    f"(seed, epoch, rank) yields {fr['stream']} ({fr['result']})")
        if any(s != case["seed"] + ep for s in r["seeds"]):
            return (f"{what}: call {k} seeds its generator with {r['seeds']}, not seed + epoch = "
                    f"{case['seed'] + ep}")
    for a in range(len(hist)):
        for b in range(a + 1, len(hist)):
            if eps[a] == eps[b] and hist[a]["stream"] != hist[b]["stream"]:
                return (f"{what}: calls {a} and {b} are both under epoch {eps[a]} but yield {hist[a]['stream']} "
                        f"and {hist[b]['stream']}")
    e = case["epoch"] or 0
    if eps and eps[0] == e and hist[0]["stream"] != obs["ranks"][hr]["stream"]:
        return f"{what}: first call differs from the fresh sampler of rank {hr}"
    return None


def oracle(case, obs):
    if "harness_exception" in obs:
        return "harness exception: " + obs["harness_exception"] + obs.get("tb", "")
    if case["kind"] == "loader":
        return oracle_loader(case, obs)
    if case["kind"] == "structure":
        if obs["remarks"]:
            return ("kappadata/utils/distributed.py must answer from the CURRENT state of torch.distributed, nothing "
                    "may be remembered between calls: " + "; ".join(obs["remarks"]))
        return None
    msg = oracle0(case, obs)
    if msg is None and case.get("pg"):
        msg = PG.oracle_pg(case, case["pg"], obs.get("pg") or {"error": "history not run (a rank ran away)"})
    return msg


def oracle0(case, obs):
    W, k = case["W"], case["kind"]
    ranks = obs["ranks"]
    exp = expected_result(case)
    for r, o in enumerate(ranks):
        if o["result"] == "RUNAWAY":
            return (f"rank {r}: iteration does not return (more than {S.MAX_DRAWS} draws requested from the generator, "
                    f"or still running after {S.CPU_LIMIT} s of CPU time)")
        if o["result"] != exp:
            return f"rank {r}: expected {exp}, got {o['result']}"
        if o["alien"]:
            return f"rank {r}: a draw was made without the epoch's generator (or with replacement)"
    if exp != "ok":
        for r in (obs.get("hist") or []):
            if r is not None and r["result"] != exp:
                return f"one sampler object driven through {case['ops']}: expected {exp}, got {r['result']}"
        return None
    L = ranks[0]["len"]
    for r, o in enumerate(ranks):
        if o["len"] != L:
            return f"len(sampler) differs between ranks: rank 0 {L}, rank {r} {o['len']}"
        if len(o["stream"]) != L:
            return f"rank {r} yields {len(o['stream'])} indices but len(sampler) = {L}"
    G = obs["G"]
    T = W * L
    merged = S.interleave([o["stream"] for o in ranks])
    if k != "rand" and obs.get("G_result") != "ok":
        return "world-size-1 sampler failed: " + str(obs.get("G_result"))
    drop = case["drop_last"] if k == "dist" else True
    if drop:
        if not (T <= len(G) and len(G) - T < W):
            return f"ranks together yield {T} entries of a global draw of {len(G)} (W={W}): more than trailing entries dropped"
        if merged != G[:T]:
            return f"interleaved rank streams {merged} are not a prefix of the global draw {G}"
    else:
        if not (len(G) <= T and T - len(G) < W):
            return f"ranks together yield {T} entries of a global draw of {len(G)} (W={W})"
        if merged != [G[i % len(G)] for i in range(T)]:
            return f"interleaved rank streams {merged} are not the global draw {G} wrapped around"
    se = case["seed"] + (case["epoch"] or 0)
    for r, o in enumerate(ranks):
        if k != "rand" and any(s != se for s in o["seeds"]):
            return f"rank {r} seeds its generator with {o['seeds']}, not seed + epoch = {se}"
        if o["draws"] != ranks[0]["draws"]:
            return f"rank {r} drew {o['draws']} but rank 0 drew {ranks[0]['draws']} (same seed and epoch)"
        for d, kind in zip(o["draws"], o["kinds"]):
            if len(d[1]) != d[0] or (kind == "randperm" and not S.is_perm(d[1], d[0])):
                return f"torch contract broken: {kind}({d[0]}) returned {d[1]}"
    if obs["again"] != ranks[-1]["stream"]:
        return "a second sampler with equal (seed, epoch) yields another stream"
    if k != "rand":
        if obs["shifted"] != ranks[-1]["stream"]:
            return "(seed - 1, epoch + 1) yields another stream than (seed, epoch)"
        nx = obs["next"]
        if ranks[0]["seeds"] and nx["seeds"] == ranks[0]["seeds"]:
            return "set_epoch(epoch + 1) does not change the seed of the generator"
        if ranks[0]["draws"] and ranks[0]["draws"][0][0] >= 10 and nx["draws"] == ranks[0]["draws"]:
            return "set_epoch(epoch + 1) does not change the draw"
    # repeated augmentation: slot k of the global draw holds perm[k // r]
    if k in ("dist", "rand") and ranks[0]["draws"] and not (k == "rand" and case["rep"] == 1 and case["replacement"]):
        perm = ranks[0]["draws"][0][1]
        for i, g in enumerate(G):
            if g != perm[i // case["rep"]]:
                return f"slot {i} of the global draw is {g}, not perm[{i} // {case['rep']}] = {perm[i // case['rep']]}"
    if k == "dist" and not case["shuffle"]:
        if G != list(range(case["n"])):
            return "shuffle=False does not yield 0..n-1"
        if any(o["seeds"] or o["draws"] for o in ranks):
            return "shuffle=False but a generator was seeded / asked for a draw"
    if obs.get("hist"):
        msg = oracle_history(case, obs, L)
        if msg:
            return msg
    if k == "rand" and len(G) != case["n"]:
        return f"RandomSampler yields {len(G)} indices for n = {case['n']}"
    return None


def coq_applicable(case, obs):
    if "harness_exception" in obs or case["kind"] in ("loader", "structure"):
        return False
    if len(obs["ranks"]) != case["W"]:      # a rank ran away: reported by the oracle, nothing to compare
        return False
    if any(r is not None and r["result"] not in S.CODE for r in (obs.get("hist") or [])):
        return False
    return all(o["result"] in S.CODE for o in obs["ranks"])


def coq_case(case, obs):
    if obs.get("hist"):
        hist = S.coq_hist(case.get("ops_rank", 0), case["ops"], obs["hist"])
    else:
        hist = (S.Nat(0), S.Raw("[]"))
    pgs = PG.coq_pgs(case["pg"], obs["pg"], S.coq_rank, S.CODE) if case.get("pg") and obs.get("pg") else []
    return coq((S.coq_cfg(case), [S.coq_rank(o) for o in obs["ranks"]], S.nats(obs["G"]), hist, pgs))


def features(case, obs):
    yield "kind=" + case["kind"]
    yield "W=%d" % case["W"]
    if case["kind"] == "loader":
        yield "loader:sampler=" + case["sampler"]["kind"]
        yield "loader:workers=%d" % case["workers"]
        return
    if case["kind"] == "structure":
        return
    if case.get("pg") and obs.get("pg"):
        for f in PG.features_pg(case["pg"], obs["pg"]):
            yield f
    if case.get("ops"):
        eps = iter_epochs(case["ops"])
        yield "ops:list(sampler) calls=%d" % len(eps)
        yield "ops:iterated again without set_epoch=%s" % any(
            a[0] == "iter" and b[0] == "iter" for a, b in zip(case["ops"], case["ops"][1:]))
        yield "ops:returns to an earlier epoch=%s" % any(
            eps[i] == eps[j] and any(eps[m] != eps[i] for m in range(i, j)) for i in range(len(eps)) for j in range(i, len(eps)))
    if "ranks" in obs:
        yield "result=" + obs["ranks"][0]["result"].split(":")[0]
    if case["kind"] == "cb":
        yield "cb:labels=%s" % ("getitem_class only" if case.get("getall") is False else case.get("rep", "list"))
    if case["kind"] == "dist":
        yield "dist:n<W=%s" % (case["n"] < case["W"])
        yield "dist:rep=%d" % case["rep"]
        yield "dist:drop_last=%s" % case["drop_last"]
        yield "dist:shuffle=%s" % case["shuffle"]
        if not case["shuffle"] and case["rep"] > 1:
            yield "dist:num_repeats>1 without shuffle (rejected)"
        n, W = case["n"], case["W"]
        if not case["drop_last"] and n and (-n) % W > n:
            yield "dist:padding>len"
    yield "epoch=%s" % case["epoch"]


def nontrivial_key(case, obs):
    if case["kind"] == "loader":
        sc = case["sampler"]
        if not obs.get("ranks") or not any(o["batches"] for o in obs["ranks"]):
            return None
        return ("loader", sc["kind"], sc.get("n", len(sc.get("classes", []))), sc["W"], case["batch"],
                case["drop_last_batch"], case["workers"])
    if case.get("pg") and obs.get("pg") and any(rec["stream"] for _, _, _, _, rec in PG.builds(case["pg"], obs["pg"])):
        return ("pg", case["kind"], json.dumps(case["pg"], sort_keys=True))
    if "ranks" not in obs or case["W"] < 2 or not any(o["stream"] for o in obs["ranks"]):
        return None
    return (case["kind"], case.get("n", len(case.get("classes", []))), case["W"], case.get("rep"),
            case.get("drop_last"), case.get("shuffle"), case["epoch"], len(case.get("ops") or []))
