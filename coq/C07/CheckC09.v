(* Executable comparison of what the real worker_init_fn chain did with the generated tables (correspondence run of C09). *)
From Coq Require Import ZArith List Bool String.
Import ListNotations.
From KD Require Import C07.RngGraph C07.gen.RngTable C07.Check C07.ModelC08 C07.ModelC09.

(* one simulated worker: the live stack with the slots as the worker inherited them (Ctor k = the k-th generator found
   in the copy), how many generators get_rng_from_global() created during dataset.worker_init_fn, the slots observed
   afterwards (Wrk k = the k-th generator created; preorder over the stack), and the provenances of all generators that
   produced at least one draw while samples / batches were produced afterwards (process-global sources seen by the
   tripwire and unseeded default_rng() calls included) *)
Definition case_t : Type := (dstack * nat * list (option prov) * list prov)%type.

(* 0 = real objects, tables and spec agree; 1 = the tables do not describe the real objects;
   2 = after worker_init_fn a sample / batch drew from a generator that is not worker-derived (an inherited copy, a
       per-item generator, OS entropy) *)
Definition check_with (tbl ctbl : table) (wt : wtable) (ds : dsdesc) (c : case_t) : nat :=
  let '(s0, n, after, obs) := c in
  let '(k', s1) := worker_init tbl ctbl wt ds 0 s0 in
  if existsb (fun p => negb (worker_derived 0 k' p)) obs then 2
  else if negb (swf tbl ctbl wt s0) then 1
  else if negb (fwd_known ds s0) then 1
  else if negb (Nat.eqb k' n) then 1
  else if negb (list_eqb oprov_eqb (stack_slots s1) after) then 1
  else if negb (forallb (fun p => existsb (prov_eqb p) (stack_draws tbl ctbl wt s1)) obs) then 1
  else 0.

Definition check := check_with rng_table col_table wrp_table ds_table.
