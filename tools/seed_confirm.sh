#!/bin/bash
# tools/seed_confirm.sh <Cxx> <k> <short_name>
# confirms the seeded change /tmp/seedout_<Cxx>/<k>/ in a scratch worktree (demo passes on HEAD, fails with the change, the 301
# baseline tests still pass), stores it as /verif/seeded/<Cxx>_<short_name>/ and runs the property's quick check with the change applied to /repo
set -u
pid=$1; k=$2; name=$3; src=${SEEDSRC:-/tmp/seedout}_$pid/$k; wt=/tmp/sc_${pid}_$k; dst=/verif/seeded/${pid}_$name
[ -f $src/patch.diff ] || { echo "no $src/patch.diff"; exit 2; }
[ -z "$(git -C /repo status --porcelain)" ] || { echo "/repo not clean"; exit 2; }
git -C /repo worktree add -q --detach $wt HEAD || exit 2
trap "git -C /repo worktree remove --force $wt" EXIT
(cd $wt && PYTHONPATH=$wt timeout 600 /venv/bin/python $src/demo.py > /tmp/sc_demo_a_${pid}_$k.out 2>&1); a=$?
git -C $wt apply $src/patch.diff || { echo "patch does not apply"; exit 3; }
(cd $wt && PYTHONPATH=$wt timeout 600 /venv/bin/python $src/demo.py > /tmp/sc_demo_b_${pid}_$k.out 2>&1); b=$?
suite=$(/verif/tools/suite.sh $wt 2>&1 | tail -2 | tr '\n' ' ')
echo "demo_on_original=$a demo_with_change=$b suite: $suite"
if [ $a -ne 0 ] || [ $b -eq 0 ] || ! echo "$suite" | grep -q "301/301"; then echo "NOT CONFIRMED"; tail -n 5 /tmp/sc_demo_b_${pid}_$k.out; exit 4; fi
mkdir -p $dst; cp $src/patch.diff $src/demo.py $dst/; cp $src/notes.txt $dst/notes.txt 2>/dev/null
echo "demo exits $a on HEAD, $b with the change; $suite" > $dst/confirmed.txt
if [ -n "${CONFIRM_ONLY:-}" ]; then echo "CONFIRMED (detection not run)"; exit 0; fi
git -C /repo apply $dst/patch.diff
res=$(cd /verif && ./check $pid --tier quick 2>&1); rc=$?
git -C /repo checkout -- .
nv=$(echo "$res" | grep -c '^VIOLATION'); nf=$(echo "$res" | grep '^VIOLATION' | grep -c 'no-failing-input-found')
echo "check $pid: exit=$rc violations=$nv no-failing-input=$nf"; echo "$res" | grep -A1 '^VIOLATION' | head -6 | cut -c1-300
python3 - "$pid" "$name" "$dst" "$a" "$b" "$suite" "$rc" "$nv" "$nf" <<'PY'
import json,sys,os
pid,name,dst,a,b,suite,rc,nv,nf=sys.argv[1:]
notes=open(os.path.join(dst,'notes.txt')).read().strip() if os.path.exists(os.path.join(dst,'notes.txt')) else ''
json.dump({"id":f"{pid}_{name}","property":pid,"needs_to_manifest":notes,
 "confirmed":f"tools/seed_confirm.sh: demo exits {a} on HEAD, {b} with the change; {suite.strip()}",
 "detected_by":f"./check {pid} --tier quick with the change applied to /repo: exit={rc}, {nv} VIOLATION lines ({nf} of them no-failing-input-found)",
 "origin":"independent sub-agent given only the property text and a scratch worktree"},open(os.path.join(dst,'meta.json'),'w'),indent=1)
PY
