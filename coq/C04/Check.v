(* Executable comparison of implementation observations with model and spec,
   used by the correspondence run (harness/interleaved.py).  *)
From Coq Require Import ZArith List Bool.
Import ListNotations.
From KD Require Import C04.Model C04.Spec.
Open Scope Z_scope.

Definition obs_eqb (a b : obs) : bool :=
  match a, b with
  | OSetEpoch x, OSetEpoch y => x =? y
  | OIterStart x, OIterStart y => x =? y
  | OYield f i, OYield g j => Bool.eqb f g && (i =? j)
  | OSideSetEpoch c x, OSideSetEpoch d y => Nat.eqb c d && (x =? y)
  | _, _ => false
  end.

Fixpoint list_eqb {A} (eq : A -> A -> bool) (a b : list A) : bool :=
  match a, b with
  | [], [] => true
  | x :: a', y :: b' => eq x y && list_eqb eq a' b'
  | _, _ => false
  end.

Definition optz_eqb (a b : option Z) : bool :=
  match a, b with Some x, Some y => x =? y | None, None => true | _, _ => false end.

Fixpoint obs_held (l : list obs) : list (option Z) :=
  match l with
  | [] => []
  | OIterStart x :: l' => Some x :: obs_held l'
  | _ :: l' => obs_held l'
  end.

Definition iters_fun (emin : Z) (iters : list (list Z)) : Z -> list Z :=
  fun e => nth (Z.to_nat (e - emin)) iters [].

(* the iterations of a side sampler, as recorded *)
Definition passes_fun (l : list (list Z)) : nat -> list Z := fun k => nth k l [].

(* one case:
   constructor arguments; budgets assigned to the attributes AFTER construction
   (None = untouched; exercises the loop's three-way end test with several
   budgets, which the constructor itself refuses); iteration counts of the side
   samplers before the run; the epoch the main sampler object holds before the
   run (None = none; objects have histories: earlier iterations of this or
   another InterleavedSampler, foreign set_epoch calls); result class (0 ok, 1 NotImplementedError,
   2 AssertionError); first epoch and the main sampler's iterations from there;
   the observed stream; list(batch_sampler); (index, dataset, sample) resolved
   through sampler.dataset; sampler.index_offsets; batches delivered by
   get_data_loader as (collator tag, samples) *)
Definition case_t : Type :=
  ctor_args * option (option Z * option Z * option Z) * list nat * option Z * nat * Z * list (list Z) * list obs
  * option (list (list Z)) * list (Z * nat * Z) * option (list Z) * option (list (nat * list Z)).

Definition set_budgets (c : cfg) (b : option Z * option Z * option Z) : cfg :=
  let '(x, y, z) := b in
  {| cN := cN c; dsN := dsN c; cB := cB c; drop_last := drop_last c; cD := cD c;
     bE := x; bU := y; bS := z; sides := sides c |}.

Definition arg_start (a : ctor_args) : option start_arg :=
  match a_start_epoch a, a_start_update a, a_start_sample a with
  | None, None, None => Some NoStart
  | Some e, None, None => Some (StartEpoch e)
  | None, Some u, None => Some (StartUpdate u)
  | None, None, Some s => Some (StartSample s)
  | _, _, _ => None
  end.

Definition main_obs (c : cfg) (l : list obs) : list obs :=
  filter (fun o => match o with OSetEpoch _ => true | OIterStart _ => true | OYield _ i => i <? dsN c | OSideSetEpoch _ _ => true end) l.

Definition tagged_eqb (a b : nat * list Z) : bool := Nat.eqb (fst a) (fst b) && list_eqb Z.eqb (snd a) (snd b).

(* 0 = implementation, model and spec agree; 1 = model differs from the
   implementation; 2 = model agrees but the spec differs.
   mode 4: compare only the main projection (C04); other modes: the whole stream *)
Definition check_mode (mode : nat) (t : case_t) : nat :=
  let '(a, ovr, pcs0, held0, result, emin, iters, o, bat, resolve, offs, lb) := t in
  let mi := iters_fun emin iters in
  let fuel := S (length iters) in
  match ctor a with
  | CNotImplemented => if Nat.eqb result 1 then 0%nat else 1%nat
  | CAssertFail => if Nat.eqb result 2 then 0%nat else 1%nat
  | Ok c0 e u s =>
      let c := match ovr with Some b => set_budgets c0 b | None => c0 end in
      if negb (Nat.eqb result 0) then 1%nat else
      match iterate c mi e u s {| w_held := held0; w_pcs := pcs0 |} with
      | None => 1%nat
      | Some tr =>
          let r := render tr in
          let '(mb, ok) := batches r in
          let bat_ok := match bat with
                        | Some bs => ok && list_eqb (list_eqb Z.eqb) mb bs
                        | None => false end in
          let res_ok := forallb (fun '(idx, di, j) =>
                                   match concat_lookup c idx with
                                   | Some (di', j') => Nat.eqb di di' && (j =? j')
                                   | None => false end) resolve in
          let offs_ok := match offs with Some l => list_eqb Z.eqb l (index_offsets c) | None => true end in
          let lb_ok := match lb with
                       | Some l => match loader_batches c mb with
                                   | Some l' => list_eqb tagged_eqb l l'
                                   | None => false end
                       | None => true end in
          let proj := if Nat.eqb mode 4 then main_obs c else (fun l => l) in
          (* what the real main sampler object held at each call of its __iter__ = what the model's
             object holds there, started from the same previously held epoch *)
          let held_ok := list_eqb optz_eqb (held held0 tr) (obs_held o) in
          if negb (list_eqb obs_eqb (proj r) (proj o) && offs_ok && held_ok
                   && (Nat.eqb mode 4 || (bat_ok && res_ok && lb_ok))) then 1%nat else
          match arg_start a with
          | None => 2%nat
          | Some sa =>
              match spec_start c sa, spec_iter c mi e pcs0 fuel with
              | Start e' u' s', Some tr' =>
                  if (e =? e') && (u =? u') && (s =? s') && list_eqb obs_eqb (proj (render tr')) (proj o)
                  then 0%nat else 2%nat
              | _, _ => 2%nat
              end
          end
      end
  end.

Definition check := check_mode 0.
Definition check_c04 := check_mode 4.
